import PicoModel.Gen.GoMap
import PicoModel.GenCode
import PicoProofs.GoTieEncTypes
import PicoProofs.GoTieDecTypes
/-
Tie between the statement-level translation of picowire/map.go (`PicoModel/Gen/GoMap.lean`,
regenerated from the Go source on every run: PicoEncode and PicoDecode of the 180 map types) and the
hand-written model `Gen2.mapEncode` / `Gen2.mapDecode`.

Encode: for every key kind, value kind, field number, buffer and map content — in whatever order the
`range` visits the entries — the translated `PicoEncode` returns normally, leaves the map as it was
and appends exactly `mapEncode k v field entries` (one length-prefixed `{1: key, 2: value}` entry per
element, defaults omitted inside the entry).
-/
namespace Pico.GoTie.MP
open Pico Pico.EncLow Pico.Wire Pico.GoTie.DT Pico.GoTie.ET Pico.GoTie.E

/-! ### encode -/

/-- shape of the entry loop of every `PicoEncode` -/
def gEncLoop {K V : Type} (oracle : Nat → Bytes) (field : Int)
    (wK : (Nat → Bytes) → Int → Buf → K → Res (Buf × K)) (wV : (Nat → Bytes) → Int → Buf → V → Res (Buf × V)) :
    List (K × V) → Buf → Res Buf
  | [], enc => pure enc
  | (key, val) :: rest1, enc => do
    let (enc, _r2) ← Pico.GoSrc.Encoder.AlwaysAnyBytes oracle field (fun enc => do
        let (enc, _key) ← wK oracle (1 : Int) enc key
        let (enc, _val) ← wV oracle (2 : Int) enc val
        pure enc
      ) enc
    gEncLoop oracle field wK wV rest1 enc

def gEnc {K V : Type} (oracle : Nat → Bytes)
    (wK : (Nat → Bytes) → Int → Buf → K → Res (Buf × K)) (wV : (Nat → Bytes) → Int → Buf → V → Res (Buf × V))
    (field : Int) (enc : Buf) (m : Go.Map K V) : Res (Buf × Go.Map K V) := do
  let enc ← gEncLoop oracle field wK wV (Go.mapRange m) enc
  pure (enc, m)

/-- one entry as the model writes it -/
def entryBytes (k v : Scalar) (field : Int) (a b : Enc.SVal) : Bytes :=
  Enc.alwaysAnyBytes field (Enc.writeSingle false k 1 a ++ Enc.writeSingle false v 2 b)

/-- a typed writer that appends `bytes x` and hands its argument back -/
def WriterSpec {K : Type} (w : (Nat → Bytes) → Int → Buf → K → Res (Buf × K)) (ok : K → Prop) (bytes : Int → K → Bytes) : Prop :=
  ∀ oracle field enc x, ok x → ∃ t, w oracle field enc x = .ok (⟨enc.data ++ bytes field x, t⟩, x)

theorem entry_appendOnly {K V : Type} (oracle : Nat → Bytes)
    (wK : (Nat → Bytes) → Int → Buf → K → Res (Buf × K)) (wV : (Nat → Bytes) → Int → Buf → V → Res (Buf × V))
    (okK : K → Prop) (okV : V → Prop) (bK : Int → K → Bytes) (bV : Int → V → Bytes)
    (hK : WriterSpec wK okK bK) (hV : WriterSpec wV okV bV) (key : K) (val : V) (h1 : okK key) (h2 : okV val) :
    AppendOnly1 (fun enc => do
        let (enc, _key) ← wK oracle (1 : Int) enc key
        let (enc, _val) ← wV oracle (2 : Int) enc val
        pure enc) (bK 1 key ++ bV 2 val) := by
  intro b
  obtain ⟨t1, e1⟩ := hK oracle 1 b key h1
  obtain ⟨t2, e2⟩ := hV oracle 2 ⟨b.data ++ bK 1 key, t1⟩ val h2
  exact ⟨t2, by simp [e1, e2, bind, Res.bind, pure, List.append_assoc]⟩

theorem gEncLoop_data {K V : Type} (oracle : Nat → Bytes) (field : Int)
    (wK : (Nat → Bytes) → Int → Buf → K → Res (Buf × K)) (wV : (Nat → Bytes) → Int → Buf → V → Res (Buf × V))
    (okK : K → Prop) (okV : V → Prop) (bK : Int → K → Bytes) (bV : Int → V → Bytes)
    (hK : WriterSpec wK okK bK) (hV : WriterSpec wV okV bV) :
    ∀ (es : List (K × V)) (enc : Buf), (∀ e ∈ es, okK e.1 ∧ okV e.2) →
      enc.len + ((es.map fun e => Enc.alwaysAnyBytes field (bK 1 e.1 ++ bV 2 e.2)).flatten).length + 2 < 9223372036854775808 →
      ∃ t, gEncLoop oracle field wK wV es enc
        = .ok ⟨enc.data ++ (es.map fun e => Enc.alwaysAnyBytes field (bK 1 e.1 ++ bV 2 e.2)).flatten, t⟩ := by
  intro es
  induction es with
  | nil => intro enc _ _; exact ⟨enc.tail, by simp [gEncLoop, pure]⟩
  | cons e es ih =>
    intro enc hok hsz
    obtain ⟨key, val⟩ := e
    have hkv := hok (key, val) (by simp)
    have hao := entry_appendOnly oracle wK wV okK okV bK bV hK hV key val hkv.1 hkv.2
    simp only [List.map_cons, List.flatten_cons, List.length_append] at hsz
    have hfin : (Enc.alwaysAnyBytes field (bK 1 key ++ bV 2 val)).length
        = (Enc.appendTag field 2).length + (varint (bK 1 key ++ bV 2 val).length).length + (bK 1 key ++ bV 2 val).length := by
      simp [Enc.alwaysAnyBytes, List.length_append]; omega
    have hv1 : 1 ≤ (varint (bK 1 key ++ bV 2 val).length).length := by
      rw [varint]; split <;> simp
    have hgr : Grows1 (fun enc => do
        let (enc, _key) ← wK oracle (1 : Int) enc key
        let (enc, _val) ← wV oracle (2 : Int) enc val
        pure enc) (start oracle field enc) := by
      intro b' hb
      obtain ⟨t, ht⟩ := hao (start oracle field enc)
      rw [ht] at hb
      cases hb
      have hs : (start oracle field enc).len = enc.len + (Enc.appendTag field 2).length + 2 := by
        unfold start; rw [append_len, append_len]; simp
      simp only [Buf.len, List.length_append] at hs hsz hfin ⊢
      omega
    have hp : (bK 1 key ++ bV 2 val).length < 2 ^ 64 := by
      have : (2:Nat)^64 = 18446744073709551616 := by decide
      simp only [Buf.len, List.length_append] at hsz hfin ⊢
      omega
    have hd := alwaysAnyBytesLow_eq_abstract oracle field (bK 1 key ++ bV 2 val) _ hao hp enc
    obtain ⟨t1, ht1⟩ := dataOf1_some hd
    have hlen1 : (⟨enc.data ++ Enc.alwaysAnyBytes field (bK 1 key ++ bV 2 val), t1⟩ : Buf).len
        = enc.len + (Enc.alwaysAnyBytes field (bK 1 key ++ bV 2 val)).length := by
      simp [Buf.len]
    obtain ⟨t, ht⟩ := ih ⟨enc.data ++ Enc.alwaysAnyBytes field (bK 1 key ++ bV 2 val), t1⟩
      (fun e he => hok e (by simp [he])) (by rw [hlen1]; omega)
    refine ⟨t, ?_⟩
    unfold gEncLoop
    rw [AlwaysAnyBytes_eq oracle field _ enc hgr, ht1]
    simp only [bind, Res.bind, pure, ht, List.map_cons, List.flatten_cons, List.append_assoc]

theorem gEnc_data {K V : Type} (oracle : Nat → Bytes)
    (wK : (Nat → Bytes) → Int → Buf → K → Res (Buf × K)) (wV : (Nat → Bytes) → Int → Buf → V → Res (Buf × V))
    (okK : K → Prop) (okV : V → Prop) (bK : Int → K → Bytes) (bV : Int → V → Bytes)
    (hK : WriterSpec wK okK bK) (hV : WriterSpec wV okV bV) (field : Int) (enc : Buf) (m : Go.Map K V)
    (hok : ∀ e ∈ Go.mapRange m, okK e.1 ∧ okV e.2)
    (hsz : enc.len + (((Go.mapRange m).map fun e => Enc.alwaysAnyBytes field (bK 1 e.1 ++ bV 2 e.2)).flatten).length + 2 < 9223372036854775808) :
    ∃ t, gEnc oracle wK wV field enc m
      = .ok (⟨enc.data ++ ((Go.mapRange m).map fun e => Enc.alwaysAnyBytes field (bK 1 e.1 ++ bV 2 e.2)).flatten, t⟩, m) := by
  obtain ⟨t, ht⟩ := gEncLoop_data oracle field wK wV okK okV bK bV hK hV (Go.mapRange m) enc hok hsz
  exact ⟨t, by simp [gEnc, ht, bind, Res.bind, pure]⟩

/-- the translated singular plain writer of kind `k` meets `WriterSpec` -/
theorem writer_spec (k : Scalar) :
    WriterSpec (fun oracle field enc (x : GoVal k) => srcWriteSingle oracle false k field enc x) (InRange k)
      (fun field x => Enc.writeSingle false k field (toS k x)) := by
  intro oracle field enc x hx
  exact writeSingle_data oracle false k field enc x hx

section instances
open GoSrc.Map GoSrc.EncTypes

theorem encMapBoolBool_loop (oracle : Nat → Bytes) (field : Int) : ∀ es enc, encMapBoolBool.loop1 oracle field es enc = gEncLoop oracle field wBool wBool es enc := by
  intro es; induction es with
  | nil => intro enc; rfl
  | cons e es ih => intro enc; obtain ⟨key, val⟩ := e; unfold encMapBoolBool.loop1 gEncLoop; simp only [ih] <;> rfl
theorem encMapBoolBool_shape (oracle : Nat → Bytes) (field : Int) (enc : Buf) (m : Go.Map (GoVal .bool) (GoVal .bool)) :
    encMapBoolBool oracle field enc m = gEnc oracle wBool wBool field enc m := by
  unfold encMapBoolBool gEnc; simp only [encMapBoolBool_loop]

theorem encMapBoolInt32_loop (oracle : Nat → Bytes) (field : Int) : ∀ es enc, encMapBoolInt32.loop1 oracle field es enc = gEncLoop oracle field wBool wInt32 es enc := by
  intro es; induction es with
  | nil => intro enc; rfl
  | cons e es ih => intro enc; obtain ⟨key, val⟩ := e; unfold encMapBoolInt32.loop1 gEncLoop; simp only [ih] <;> rfl
theorem encMapBoolInt32_shape (oracle : Nat → Bytes) (field : Int) (enc : Buf) (m : Go.Map (GoVal .bool) (GoVal .int32)) :
    encMapBoolInt32 oracle field enc m = gEnc oracle wBool wInt32 field enc m := by
  unfold encMapBoolInt32 gEnc; simp only [encMapBoolInt32_loop]

theorem encMapBoolInt64_loop (oracle : Nat → Bytes) (field : Int) : ∀ es enc, encMapBoolInt64.loop1 oracle field es enc = gEncLoop oracle field wBool wInt64 es enc := by
  intro es; induction es with
  | nil => intro enc; rfl
  | cons e es ih => intro enc; obtain ⟨key, val⟩ := e; unfold encMapBoolInt64.loop1 gEncLoop; simp only [ih] <;> rfl
theorem encMapBoolInt64_shape (oracle : Nat → Bytes) (field : Int) (enc : Buf) (m : Go.Map (GoVal .bool) (GoVal .int64)) :
    encMapBoolInt64 oracle field enc m = gEnc oracle wBool wInt64 field enc m := by
  unfold encMapBoolInt64 gEnc; simp only [encMapBoolInt64_loop]

theorem encMapBoolUint32_loop (oracle : Nat → Bytes) (field : Int) : ∀ es enc, encMapBoolUint32.loop1 oracle field es enc = gEncLoop oracle field wBool wUint32 es enc := by
  intro es; induction es with
  | nil => intro enc; rfl
  | cons e es ih => intro enc; obtain ⟨key, val⟩ := e; unfold encMapBoolUint32.loop1 gEncLoop; simp only [ih] <;> rfl
theorem encMapBoolUint32_shape (oracle : Nat → Bytes) (field : Int) (enc : Buf) (m : Go.Map (GoVal .bool) (GoVal .uint32)) :
    encMapBoolUint32 oracle field enc m = gEnc oracle wBool wUint32 field enc m := by
  unfold encMapBoolUint32 gEnc; simp only [encMapBoolUint32_loop]

theorem encMapBoolUint64_loop (oracle : Nat → Bytes) (field : Int) : ∀ es enc, encMapBoolUint64.loop1 oracle field es enc = gEncLoop oracle field wBool wUint64 es enc := by
  intro es; induction es with
  | nil => intro enc; rfl
  | cons e es ih => intro enc; obtain ⟨key, val⟩ := e; unfold encMapBoolUint64.loop1 gEncLoop; simp only [ih] <;> rfl
theorem encMapBoolUint64_shape (oracle : Nat → Bytes) (field : Int) (enc : Buf) (m : Go.Map (GoVal .bool) (GoVal .uint64)) :
    encMapBoolUint64 oracle field enc m = gEnc oracle wBool wUint64 field enc m := by
  unfold encMapBoolUint64 gEnc; simp only [encMapBoolUint64_loop]

theorem encMapBoolSint32_loop (oracle : Nat → Bytes) (field : Int) : ∀ es enc, encMapBoolSint32.loop1 oracle field es enc = gEncLoop oracle field wBool wSint32 es enc := by
  intro es; induction es with
  | nil => intro enc; rfl
  | cons e es ih => intro enc; obtain ⟨key, val⟩ := e; unfold encMapBoolSint32.loop1 gEncLoop; simp only [ih] <;> rfl
theorem encMapBoolSint32_shape (oracle : Nat → Bytes) (field : Int) (enc : Buf) (m : Go.Map (GoVal .bool) (GoVal .sint32)) :
    encMapBoolSint32 oracle field enc m = gEnc oracle wBool wSint32 field enc m := by
  unfold encMapBoolSint32 gEnc; simp only [encMapBoolSint32_loop]

theorem encMapBoolSint64_loop (oracle : Nat → Bytes) (field : Int) : ∀ es enc, encMapBoolSint64.loop1 oracle field es enc = gEncLoop oracle field wBool wSint64 es enc := by
  intro es; induction es with
  | nil => intro enc; rfl
  | cons e es ih => intro enc; obtain ⟨key, val⟩ := e; unfold encMapBoolSint64.loop1 gEncLoop; simp only [ih] <;> rfl
theorem encMapBoolSint64_shape (oracle : Nat → Bytes) (field : Int) (enc : Buf) (m : Go.Map (GoVal .bool) (GoVal .sint64)) :
    encMapBoolSint64 oracle field enc m = gEnc oracle wBool wSint64 field enc m := by
  unfold encMapBoolSint64 gEnc; simp only [encMapBoolSint64_loop]

theorem encMapBoolFixed32_loop (oracle : Nat → Bytes) (field : Int) : ∀ es enc, encMapBoolFixed32.loop1 oracle field es enc = gEncLoop oracle field wBool wFixed32 es enc := by
  intro es; induction es with
  | nil => intro enc; rfl
  | cons e es ih => intro enc; obtain ⟨key, val⟩ := e; unfold encMapBoolFixed32.loop1 gEncLoop; simp only [ih] <;> rfl
theorem encMapBoolFixed32_shape (oracle : Nat → Bytes) (field : Int) (enc : Buf) (m : Go.Map (GoVal .bool) (GoVal .fixed32)) :
    encMapBoolFixed32 oracle field enc m = gEnc oracle wBool wFixed32 field enc m := by
  unfold encMapBoolFixed32 gEnc; simp only [encMapBoolFixed32_loop]

theorem encMapBoolFixed64_loop (oracle : Nat → Bytes) (field : Int) : ∀ es enc, encMapBoolFixed64.loop1 oracle field es enc = gEncLoop oracle field wBool wFixed64 es enc := by
  intro es; induction es with
  | nil => intro enc; rfl
  | cons e es ih => intro enc; obtain ⟨key, val⟩ := e; unfold encMapBoolFixed64.loop1 gEncLoop; simp only [ih] <;> rfl
theorem encMapBoolFixed64_shape (oracle : Nat → Bytes) (field : Int) (enc : Buf) (m : Go.Map (GoVal .bool) (GoVal .fixed64)) :
    encMapBoolFixed64 oracle field enc m = gEnc oracle wBool wFixed64 field enc m := by
  unfold encMapBoolFixed64 gEnc; simp only [encMapBoolFixed64_loop]

theorem encMapBoolSfixed32_loop (oracle : Nat → Bytes) (field : Int) : ∀ es enc, encMapBoolSfixed32.loop1 oracle field es enc = gEncLoop oracle field wBool wSfixed32 es enc := by
  intro es; induction es with
  | nil => intro enc; rfl
  | cons e es ih => intro enc; obtain ⟨key, val⟩ := e; unfold encMapBoolSfixed32.loop1 gEncLoop; simp only [ih] <;> rfl
theorem encMapBoolSfixed32_shape (oracle : Nat → Bytes) (field : Int) (enc : Buf) (m : Go.Map (GoVal .bool) (GoVal .sfixed32)) :
    encMapBoolSfixed32 oracle field enc m = gEnc oracle wBool wSfixed32 field enc m := by
  unfold encMapBoolSfixed32 gEnc; simp only [encMapBoolSfixed32_loop]

theorem encMapBoolSfixed64_loop (oracle : Nat → Bytes) (field : Int) : ∀ es enc, encMapBoolSfixed64.loop1 oracle field es enc = gEncLoop oracle field wBool wSfixed64 es enc := by
  intro es; induction es with
  | nil => intro enc; rfl
  | cons e es ih => intro enc; obtain ⟨key, val⟩ := e; unfold encMapBoolSfixed64.loop1 gEncLoop; simp only [ih] <;> rfl
theorem encMapBoolSfixed64_shape (oracle : Nat → Bytes) (field : Int) (enc : Buf) (m : Go.Map (GoVal .bool) (GoVal .sfixed64)) :
    encMapBoolSfixed64 oracle field enc m = gEnc oracle wBool wSfixed64 field enc m := by
  unfold encMapBoolSfixed64 gEnc; simp only [encMapBoolSfixed64_loop]

theorem encMapBoolFloat_loop (oracle : Nat → Bytes) (field : Int) : ∀ es enc, encMapBoolFloat.loop1 oracle field es enc = gEncLoop oracle field wBool wFloat es enc := by
  intro es; induction es with
  | nil => intro enc; rfl
  | cons e es ih => intro enc; obtain ⟨key, val⟩ := e; unfold encMapBoolFloat.loop1 gEncLoop; simp only [ih] <;> rfl
theorem encMapBoolFloat_shape (oracle : Nat → Bytes) (field : Int) (enc : Buf) (m : Go.Map (GoVal .bool) (GoVal .float)) :
    encMapBoolFloat oracle field enc m = gEnc oracle wBool wFloat field enc m := by
  unfold encMapBoolFloat gEnc; simp only [encMapBoolFloat_loop]

theorem encMapBoolDouble_loop (oracle : Nat → Bytes) (field : Int) : ∀ es enc, encMapBoolDouble.loop1 oracle field es enc = gEncLoop oracle field wBool wDouble es enc := by
  intro es; induction es with
  | nil => intro enc; rfl
  | cons e es ih => intro enc; obtain ⟨key, val⟩ := e; unfold encMapBoolDouble.loop1 gEncLoop; simp only [ih] <;> rfl
theorem encMapBoolDouble_shape (oracle : Nat → Bytes) (field : Int) (enc : Buf) (m : Go.Map (GoVal .bool) (GoVal .double)) :
    encMapBoolDouble oracle field enc m = gEnc oracle wBool wDouble field enc m := by
  unfold encMapBoolDouble gEnc; simp only [encMapBoolDouble_loop]

theorem encMapBoolString_loop (oracle : Nat → Bytes) (field : Int) : ∀ es enc, encMapBoolString.loop1 oracle field es enc = gEncLoop oracle field wBool wString es enc := by
  intro es; induction es with
  | nil => intro enc; rfl
  | cons e es ih => intro enc; obtain ⟨key, val⟩ := e; unfold encMapBoolString.loop1 gEncLoop; simp only [ih] <;> rfl
theorem encMapBoolString_shape (oracle : Nat → Bytes) (field : Int) (enc : Buf) (m : Go.Map (GoVal .bool) (GoVal .string)) :
    encMapBoolString oracle field enc m = gEnc oracle wBool wString field enc m := by
  unfold encMapBoolString gEnc; simp only [encMapBoolString_loop]

theorem encMapBoolBytes_loop (oracle : Nat → Bytes) (field : Int) : ∀ es enc, encMapBoolBytes.loop1 oracle field es enc = gEncLoop oracle field wBool wBytes es enc := by
  intro es; induction es with
  | nil => intro enc; rfl
  | cons e es ih => intro enc; obtain ⟨key, val⟩ := e; unfold encMapBoolBytes.loop1 gEncLoop; simp only [ih] <;> rfl
theorem encMapBoolBytes_shape (oracle : Nat → Bytes) (field : Int) (enc : Buf) (m : Go.Map (GoVal .bool) (GoVal .bytes)) :
    encMapBoolBytes oracle field enc m = gEnc oracle wBool wBytes field enc m := by
  unfold encMapBoolBytes gEnc; simp only [encMapBoolBytes_loop]

theorem encMapInt32Bool_loop (oracle : Nat → Bytes) (field : Int) : ∀ es enc, encMapInt32Bool.loop1 oracle field es enc = gEncLoop oracle field wInt32 wBool es enc := by
  intro es; induction es with
  | nil => intro enc; rfl
  | cons e es ih => intro enc; obtain ⟨key, val⟩ := e; unfold encMapInt32Bool.loop1 gEncLoop; simp only [ih] <;> rfl
theorem encMapInt32Bool_shape (oracle : Nat → Bytes) (field : Int) (enc : Buf) (m : Go.Map (GoVal .int32) (GoVal .bool)) :
    encMapInt32Bool oracle field enc m = gEnc oracle wInt32 wBool field enc m := by
  unfold encMapInt32Bool gEnc; simp only [encMapInt32Bool_loop]

theorem encMapInt32Int32_loop (oracle : Nat → Bytes) (field : Int) : ∀ es enc, encMapInt32Int32.loop1 oracle field es enc = gEncLoop oracle field wInt32 wInt32 es enc := by
  intro es; induction es with
  | nil => intro enc; rfl
  | cons e es ih => intro enc; obtain ⟨key, val⟩ := e; unfold encMapInt32Int32.loop1 gEncLoop; simp only [ih] <;> rfl
theorem encMapInt32Int32_shape (oracle : Nat → Bytes) (field : Int) (enc : Buf) (m : Go.Map (GoVal .int32) (GoVal .int32)) :
    encMapInt32Int32 oracle field enc m = gEnc oracle wInt32 wInt32 field enc m := by
  unfold encMapInt32Int32 gEnc; simp only [encMapInt32Int32_loop]

theorem encMapInt32Int64_loop (oracle : Nat → Bytes) (field : Int) : ∀ es enc, encMapInt32Int64.loop1 oracle field es enc = gEncLoop oracle field wInt32 wInt64 es enc := by
  intro es; induction es with
  | nil => intro enc; rfl
  | cons e es ih => intro enc; obtain ⟨key, val⟩ := e; unfold encMapInt32Int64.loop1 gEncLoop; simp only [ih] <;> rfl
theorem encMapInt32Int64_shape (oracle : Nat → Bytes) (field : Int) (enc : Buf) (m : Go.Map (GoVal .int32) (GoVal .int64)) :
    encMapInt32Int64 oracle field enc m = gEnc oracle wInt32 wInt64 field enc m := by
  unfold encMapInt32Int64 gEnc; simp only [encMapInt32Int64_loop]

theorem encMapInt32Uint32_loop (oracle : Nat → Bytes) (field : Int) : ∀ es enc, encMapInt32Uint32.loop1 oracle field es enc = gEncLoop oracle field wInt32 wUint32 es enc := by
  intro es; induction es with
  | nil => intro enc; rfl
  | cons e es ih => intro enc; obtain ⟨key, val⟩ := e; unfold encMapInt32Uint32.loop1 gEncLoop; simp only [ih] <;> rfl
theorem encMapInt32Uint32_shape (oracle : Nat → Bytes) (field : Int) (enc : Buf) (m : Go.Map (GoVal .int32) (GoVal .uint32)) :
    encMapInt32Uint32 oracle field enc m = gEnc oracle wInt32 wUint32 field enc m := by
  unfold encMapInt32Uint32 gEnc; simp only [encMapInt32Uint32_loop]

theorem encMapInt32Uint64_loop (oracle : Nat → Bytes) (field : Int) : ∀ es enc, encMapInt32Uint64.loop1 oracle field es enc = gEncLoop oracle field wInt32 wUint64 es enc := by
  intro es; induction es with
  | nil => intro enc; rfl
  | cons e es ih => intro enc; obtain ⟨key, val⟩ := e; unfold encMapInt32Uint64.loop1 gEncLoop; simp only [ih] <;> rfl
theorem encMapInt32Uint64_shape (oracle : Nat → Bytes) (field : Int) (enc : Buf) (m : Go.Map (GoVal .int32) (GoVal .uint64)) :
    encMapInt32Uint64 oracle field enc m = gEnc oracle wInt32 wUint64 field enc m := by
  unfold encMapInt32Uint64 gEnc; simp only [encMapInt32Uint64_loop]

theorem encMapInt32Sint32_loop (oracle : Nat → Bytes) (field : Int) : ∀ es enc, encMapInt32Sint32.loop1 oracle field es enc = gEncLoop oracle field wInt32 wSint32 es enc := by
  intro es; induction es with
  | nil => intro enc; rfl
  | cons e es ih => intro enc; obtain ⟨key, val⟩ := e; unfold encMapInt32Sint32.loop1 gEncLoop; simp only [ih] <;> rfl
theorem encMapInt32Sint32_shape (oracle : Nat → Bytes) (field : Int) (enc : Buf) (m : Go.Map (GoVal .int32) (GoVal .sint32)) :
    encMapInt32Sint32 oracle field enc m = gEnc oracle wInt32 wSint32 field enc m := by
  unfold encMapInt32Sint32 gEnc; simp only [encMapInt32Sint32_loop]

theorem encMapInt32Sint64_loop (oracle : Nat → Bytes) (field : Int) : ∀ es enc, encMapInt32Sint64.loop1 oracle field es enc = gEncLoop oracle field wInt32 wSint64 es enc := by
  intro es; induction es with
  | nil => intro enc; rfl
  | cons e es ih => intro enc; obtain ⟨key, val⟩ := e; unfold encMapInt32Sint64.loop1 gEncLoop; simp only [ih] <;> rfl
theorem encMapInt32Sint64_shape (oracle : Nat → Bytes) (field : Int) (enc : Buf) (m : Go.Map (GoVal .int32) (GoVal .sint64)) :
    encMapInt32Sint64 oracle field enc m = gEnc oracle wInt32 wSint64 field enc m := by
  unfold encMapInt32Sint64 gEnc; simp only [encMapInt32Sint64_loop]

theorem encMapInt32Fixed32_loop (oracle : Nat → Bytes) (field : Int) : ∀ es enc, encMapInt32Fixed32.loop1 oracle field es enc = gEncLoop oracle field wInt32 wFixed32 es enc := by
  intro es; induction es with
  | nil => intro enc; rfl
  | cons e es ih => intro enc; obtain ⟨key, val⟩ := e; unfold encMapInt32Fixed32.loop1 gEncLoop; simp only [ih] <;> rfl
theorem encMapInt32Fixed32_shape (oracle : Nat → Bytes) (field : Int) (enc : Buf) (m : Go.Map (GoVal .int32) (GoVal .fixed32)) :
    encMapInt32Fixed32 oracle field enc m = gEnc oracle wInt32 wFixed32 field enc m := by
  unfold encMapInt32Fixed32 gEnc; simp only [encMapInt32Fixed32_loop]

theorem encMapInt32Fixed64_loop (oracle : Nat → Bytes) (field : Int) : ∀ es enc, encMapInt32Fixed64.loop1 oracle field es enc = gEncLoop oracle field wInt32 wFixed64 es enc := by
  intro es; induction es with
  | nil => intro enc; rfl
  | cons e es ih => intro enc; obtain ⟨key, val⟩ := e; unfold encMapInt32Fixed64.loop1 gEncLoop; simp only [ih] <;> rfl
theorem encMapInt32Fixed64_shape (oracle : Nat → Bytes) (field : Int) (enc : Buf) (m : Go.Map (GoVal .int32) (GoVal .fixed64)) :
    encMapInt32Fixed64 oracle field enc m = gEnc oracle wInt32 wFixed64 field enc m := by
  unfold encMapInt32Fixed64 gEnc; simp only [encMapInt32Fixed64_loop]

theorem encMapInt32Sfixed32_loop (oracle : Nat → Bytes) (field : Int) : ∀ es enc, encMapInt32Sfixed32.loop1 oracle field es enc = gEncLoop oracle field wInt32 wSfixed32 es enc := by
  intro es; induction es with
  | nil => intro enc; rfl
  | cons e es ih => intro enc; obtain ⟨key, val⟩ := e; unfold encMapInt32Sfixed32.loop1 gEncLoop; simp only [ih] <;> rfl
theorem encMapInt32Sfixed32_shape (oracle : Nat → Bytes) (field : Int) (enc : Buf) (m : Go.Map (GoVal .int32) (GoVal .sfixed32)) :
    encMapInt32Sfixed32 oracle field enc m = gEnc oracle wInt32 wSfixed32 field enc m := by
  unfold encMapInt32Sfixed32 gEnc; simp only [encMapInt32Sfixed32_loop]

theorem encMapInt32Sfixed64_loop (oracle : Nat → Bytes) (field : Int) : ∀ es enc, encMapInt32Sfixed64.loop1 oracle field es enc = gEncLoop oracle field wInt32 wSfixed64 es enc := by
  intro es; induction es with
  | nil => intro enc; rfl
  | cons e es ih => intro enc; obtain ⟨key, val⟩ := e; unfold encMapInt32Sfixed64.loop1 gEncLoop; simp only [ih] <;> rfl
theorem encMapInt32Sfixed64_shape (oracle : Nat → Bytes) (field : Int) (enc : Buf) (m : Go.Map (GoVal .int32) (GoVal .sfixed64)) :
    encMapInt32Sfixed64 oracle field enc m = gEnc oracle wInt32 wSfixed64 field enc m := by
  unfold encMapInt32Sfixed64 gEnc; simp only [encMapInt32Sfixed64_loop]

theorem encMapInt32Float_loop (oracle : Nat → Bytes) (field : Int) : ∀ es enc, encMapInt32Float.loop1 oracle field es enc = gEncLoop oracle field wInt32 wFloat es enc := by
  intro es; induction es with
  | nil => intro enc; rfl
  | cons e es ih => intro enc; obtain ⟨key, val⟩ := e; unfold encMapInt32Float.loop1 gEncLoop; simp only [ih] <;> rfl
theorem encMapInt32Float_shape (oracle : Nat → Bytes) (field : Int) (enc : Buf) (m : Go.Map (GoVal .int32) (GoVal .float)) :
    encMapInt32Float oracle field enc m = gEnc oracle wInt32 wFloat field enc m := by
  unfold encMapInt32Float gEnc; simp only [encMapInt32Float_loop]

theorem encMapInt32Double_loop (oracle : Nat → Bytes) (field : Int) : ∀ es enc, encMapInt32Double.loop1 oracle field es enc = gEncLoop oracle field wInt32 wDouble es enc := by
  intro es; induction es with
  | nil => intro enc; rfl
  | cons e es ih => intro enc; obtain ⟨key, val⟩ := e; unfold encMapInt32Double.loop1 gEncLoop; simp only [ih] <;> rfl
theorem encMapInt32Double_shape (oracle : Nat → Bytes) (field : Int) (enc : Buf) (m : Go.Map (GoVal .int32) (GoVal .double)) :
    encMapInt32Double oracle field enc m = gEnc oracle wInt32 wDouble field enc m := by
  unfold encMapInt32Double gEnc; simp only [encMapInt32Double_loop]

theorem encMapInt32String_loop (oracle : Nat → Bytes) (field : Int) : ∀ es enc, encMapInt32String.loop1 oracle field es enc = gEncLoop oracle field wInt32 wString es enc := by
  intro es; induction es with
  | nil => intro enc; rfl
  | cons e es ih => intro enc; obtain ⟨key, val⟩ := e; unfold encMapInt32String.loop1 gEncLoop; simp only [ih] <;> rfl
theorem encMapInt32String_shape (oracle : Nat → Bytes) (field : Int) (enc : Buf) (m : Go.Map (GoVal .int32) (GoVal .string)) :
    encMapInt32String oracle field enc m = gEnc oracle wInt32 wString field enc m := by
  unfold encMapInt32String gEnc; simp only [encMapInt32String_loop]

theorem encMapInt32Bytes_loop (oracle : Nat → Bytes) (field : Int) : ∀ es enc, encMapInt32Bytes.loop1 oracle field es enc = gEncLoop oracle field wInt32 wBytes es enc := by
  intro es; induction es with
  | nil => intro enc; rfl
  | cons e es ih => intro enc; obtain ⟨key, val⟩ := e; unfold encMapInt32Bytes.loop1 gEncLoop; simp only [ih] <;> rfl
theorem encMapInt32Bytes_shape (oracle : Nat → Bytes) (field : Int) (enc : Buf) (m : Go.Map (GoVal .int32) (GoVal .bytes)) :
    encMapInt32Bytes oracle field enc m = gEnc oracle wInt32 wBytes field enc m := by
  unfold encMapInt32Bytes gEnc; simp only [encMapInt32Bytes_loop]

theorem encMapInt64Bool_loop (oracle : Nat → Bytes) (field : Int) : ∀ es enc, encMapInt64Bool.loop1 oracle field es enc = gEncLoop oracle field wInt64 wBool es enc := by
  intro es; induction es with
  | nil => intro enc; rfl
  | cons e es ih => intro enc; obtain ⟨key, val⟩ := e; unfold encMapInt64Bool.loop1 gEncLoop; simp only [ih] <;> rfl
theorem encMapInt64Bool_shape (oracle : Nat → Bytes) (field : Int) (enc : Buf) (m : Go.Map (GoVal .int64) (GoVal .bool)) :
    encMapInt64Bool oracle field enc m = gEnc oracle wInt64 wBool field enc m := by
  unfold encMapInt64Bool gEnc; simp only [encMapInt64Bool_loop]

theorem encMapInt64Int32_loop (oracle : Nat → Bytes) (field : Int) : ∀ es enc, encMapInt64Int32.loop1 oracle field es enc = gEncLoop oracle field wInt64 wInt32 es enc := by
  intro es; induction es with
  | nil => intro enc; rfl
  | cons e es ih => intro enc; obtain ⟨key, val⟩ := e; unfold encMapInt64Int32.loop1 gEncLoop; simp only [ih] <;> rfl
theorem encMapInt64Int32_shape (oracle : Nat → Bytes) (field : Int) (enc : Buf) (m : Go.Map (GoVal .int64) (GoVal .int32)) :
    encMapInt64Int32 oracle field enc m = gEnc oracle wInt64 wInt32 field enc m := by
  unfold encMapInt64Int32 gEnc; simp only [encMapInt64Int32_loop]

theorem encMapInt64Int64_loop (oracle : Nat → Bytes) (field : Int) : ∀ es enc, encMapInt64Int64.loop1 oracle field es enc = gEncLoop oracle field wInt64 wInt64 es enc := by
  intro es; induction es with
  | nil => intro enc; rfl
  | cons e es ih => intro enc; obtain ⟨key, val⟩ := e; unfold encMapInt64Int64.loop1 gEncLoop; simp only [ih] <;> rfl
theorem encMapInt64Int64_shape (oracle : Nat → Bytes) (field : Int) (enc : Buf) (m : Go.Map (GoVal .int64) (GoVal .int64)) :
    encMapInt64Int64 oracle field enc m = gEnc oracle wInt64 wInt64 field enc m := by
  unfold encMapInt64Int64 gEnc; simp only [encMapInt64Int64_loop]

theorem encMapInt64Uint32_loop (oracle : Nat → Bytes) (field : Int) : ∀ es enc, encMapInt64Uint32.loop1 oracle field es enc = gEncLoop oracle field wInt64 wUint32 es enc := by
  intro es; induction es with
  | nil => intro enc; rfl
  | cons e es ih => intro enc; obtain ⟨key, val⟩ := e; unfold encMapInt64Uint32.loop1 gEncLoop; simp only [ih] <;> rfl
theorem encMapInt64Uint32_shape (oracle : Nat → Bytes) (field : Int) (enc : Buf) (m : Go.Map (GoVal .int64) (GoVal .uint32)) :
    encMapInt64Uint32 oracle field enc m = gEnc oracle wInt64 wUint32 field enc m := by
  unfold encMapInt64Uint32 gEnc; simp only [encMapInt64Uint32_loop]

theorem encMapInt64Uint64_loop (oracle : Nat → Bytes) (field : Int) : ∀ es enc, encMapInt64Uint64.loop1 oracle field es enc = gEncLoop oracle field wInt64 wUint64 es enc := by
  intro es; induction es with
  | nil => intro enc; rfl
  | cons e es ih => intro enc; obtain ⟨key, val⟩ := e; unfold encMapInt64Uint64.loop1 gEncLoop; simp only [ih] <;> rfl
theorem encMapInt64Uint64_shape (oracle : Nat → Bytes) (field : Int) (enc : Buf) (m : Go.Map (GoVal .int64) (GoVal .uint64)) :
    encMapInt64Uint64 oracle field enc m = gEnc oracle wInt64 wUint64 field enc m := by
  unfold encMapInt64Uint64 gEnc; simp only [encMapInt64Uint64_loop]

theorem encMapInt64Sint32_loop (oracle : Nat → Bytes) (field : Int) : ∀ es enc, encMapInt64Sint32.loop1 oracle field es enc = gEncLoop oracle field wInt64 wSint32 es enc := by
  intro es; induction es with
  | nil => intro enc; rfl
  | cons e es ih => intro enc; obtain ⟨key, val⟩ := e; unfold encMapInt64Sint32.loop1 gEncLoop; simp only [ih] <;> rfl
theorem encMapInt64Sint32_shape (oracle : Nat → Bytes) (field : Int) (enc : Buf) (m : Go.Map (GoVal .int64) (GoVal .sint32)) :
    encMapInt64Sint32 oracle field enc m = gEnc oracle wInt64 wSint32 field enc m := by
  unfold encMapInt64Sint32 gEnc; simp only [encMapInt64Sint32_loop]

theorem encMapInt64Sint64_loop (oracle : Nat → Bytes) (field : Int) : ∀ es enc, encMapInt64Sint64.loop1 oracle field es enc = gEncLoop oracle field wInt64 wSint64 es enc := by
  intro es; induction es with
  | nil => intro enc; rfl
  | cons e es ih => intro enc; obtain ⟨key, val⟩ := e; unfold encMapInt64Sint64.loop1 gEncLoop; simp only [ih] <;> rfl
theorem encMapInt64Sint64_shape (oracle : Nat → Bytes) (field : Int) (enc : Buf) (m : Go.Map (GoVal .int64) (GoVal .sint64)) :
    encMapInt64Sint64 oracle field enc m = gEnc oracle wInt64 wSint64 field enc m := by
  unfold encMapInt64Sint64 gEnc; simp only [encMapInt64Sint64_loop]

theorem encMapInt64Fixed32_loop (oracle : Nat → Bytes) (field : Int) : ∀ es enc, encMapInt64Fixed32.loop1 oracle field es enc = gEncLoop oracle field wInt64 wFixed32 es enc := by
  intro es; induction es with
  | nil => intro enc; rfl
  | cons e es ih => intro enc; obtain ⟨key, val⟩ := e; unfold encMapInt64Fixed32.loop1 gEncLoop; simp only [ih] <;> rfl
theorem encMapInt64Fixed32_shape (oracle : Nat → Bytes) (field : Int) (enc : Buf) (m : Go.Map (GoVal .int64) (GoVal .fixed32)) :
    encMapInt64Fixed32 oracle field enc m = gEnc oracle wInt64 wFixed32 field enc m := by
  unfold encMapInt64Fixed32 gEnc; simp only [encMapInt64Fixed32_loop]

theorem encMapInt64Fixed64_loop (oracle : Nat → Bytes) (field : Int) : ∀ es enc, encMapInt64Fixed64.loop1 oracle field es enc = gEncLoop oracle field wInt64 wFixed64 es enc := by
  intro es; induction es with
  | nil => intro enc; rfl
  | cons e es ih => intro enc; obtain ⟨key, val⟩ := e; unfold encMapInt64Fixed64.loop1 gEncLoop; simp only [ih] <;> rfl
theorem encMapInt64Fixed64_shape (oracle : Nat → Bytes) (field : Int) (enc : Buf) (m : Go.Map (GoVal .int64) (GoVal .fixed64)) :
    encMapInt64Fixed64 oracle field enc m = gEnc oracle wInt64 wFixed64 field enc m := by
  unfold encMapInt64Fixed64 gEnc; simp only [encMapInt64Fixed64_loop]

theorem encMapInt64Sfixed32_loop (oracle : Nat → Bytes) (field : Int) : ∀ es enc, encMapInt64Sfixed32.loop1 oracle field es enc = gEncLoop oracle field wInt64 wSfixed32 es enc := by
  intro es; induction es with
  | nil => intro enc; rfl
  | cons e es ih => intro enc; obtain ⟨key, val⟩ := e; unfold encMapInt64Sfixed32.loop1 gEncLoop; simp only [ih] <;> rfl
theorem encMapInt64Sfixed32_shape (oracle : Nat → Bytes) (field : Int) (enc : Buf) (m : Go.Map (GoVal .int64) (GoVal .sfixed32)) :
    encMapInt64Sfixed32 oracle field enc m = gEnc oracle wInt64 wSfixed32 field enc m := by
  unfold encMapInt64Sfixed32 gEnc; simp only [encMapInt64Sfixed32_loop]

theorem encMapInt64Sfixed64_loop (oracle : Nat → Bytes) (field : Int) : ∀ es enc, encMapInt64Sfixed64.loop1 oracle field es enc = gEncLoop oracle field wInt64 wSfixed64 es enc := by
  intro es; induction es with
  | nil => intro enc; rfl
  | cons e es ih => intro enc; obtain ⟨key, val⟩ := e; unfold encMapInt64Sfixed64.loop1 gEncLoop; simp only [ih] <;> rfl
theorem encMapInt64Sfixed64_shape (oracle : Nat → Bytes) (field : Int) (enc : Buf) (m : Go.Map (GoVal .int64) (GoVal .sfixed64)) :
    encMapInt64Sfixed64 oracle field enc m = gEnc oracle wInt64 wSfixed64 field enc m := by
  unfold encMapInt64Sfixed64 gEnc; simp only [encMapInt64Sfixed64_loop]

theorem encMapInt64Float_loop (oracle : Nat → Bytes) (field : Int) : ∀ es enc, encMapInt64Float.loop1 oracle field es enc = gEncLoop oracle field wInt64 wFloat es enc := by
  intro es; induction es with
  | nil => intro enc; rfl
  | cons e es ih => intro enc; obtain ⟨key, val⟩ := e; unfold encMapInt64Float.loop1 gEncLoop; simp only [ih] <;> rfl
theorem encMapInt64Float_shape (oracle : Nat → Bytes) (field : Int) (enc : Buf) (m : Go.Map (GoVal .int64) (GoVal .float)) :
    encMapInt64Float oracle field enc m = gEnc oracle wInt64 wFloat field enc m := by
  unfold encMapInt64Float gEnc; simp only [encMapInt64Float_loop]

theorem encMapInt64Double_loop (oracle : Nat → Bytes) (field : Int) : ∀ es enc, encMapInt64Double.loop1 oracle field es enc = gEncLoop oracle field wInt64 wDouble es enc := by
  intro es; induction es with
  | nil => intro enc; rfl
  | cons e es ih => intro enc; obtain ⟨key, val⟩ := e; unfold encMapInt64Double.loop1 gEncLoop; simp only [ih] <;> rfl
theorem encMapInt64Double_shape (oracle : Nat → Bytes) (field : Int) (enc : Buf) (m : Go.Map (GoVal .int64) (GoVal .double)) :
    encMapInt64Double oracle field enc m = gEnc oracle wInt64 wDouble field enc m := by
  unfold encMapInt64Double gEnc; simp only [encMapInt64Double_loop]

theorem encMapInt64String_loop (oracle : Nat → Bytes) (field : Int) : ∀ es enc, encMapInt64String.loop1 oracle field es enc = gEncLoop oracle field wInt64 wString es enc := by
  intro es; induction es with
  | nil => intro enc; rfl
  | cons e es ih => intro enc; obtain ⟨key, val⟩ := e; unfold encMapInt64String.loop1 gEncLoop; simp only [ih] <;> rfl
theorem encMapInt64String_shape (oracle : Nat → Bytes) (field : Int) (enc : Buf) (m : Go.Map (GoVal .int64) (GoVal .string)) :
    encMapInt64String oracle field enc m = gEnc oracle wInt64 wString field enc m := by
  unfold encMapInt64String gEnc; simp only [encMapInt64String_loop]

theorem encMapInt64Bytes_loop (oracle : Nat → Bytes) (field : Int) : ∀ es enc, encMapInt64Bytes.loop1 oracle field es enc = gEncLoop oracle field wInt64 wBytes es enc := by
  intro es; induction es with
  | nil => intro enc; rfl
  | cons e es ih => intro enc; obtain ⟨key, val⟩ := e; unfold encMapInt64Bytes.loop1 gEncLoop; simp only [ih] <;> rfl
theorem encMapInt64Bytes_shape (oracle : Nat → Bytes) (field : Int) (enc : Buf) (m : Go.Map (GoVal .int64) (GoVal .bytes)) :
    encMapInt64Bytes oracle field enc m = gEnc oracle wInt64 wBytes field enc m := by
  unfold encMapInt64Bytes gEnc; simp only [encMapInt64Bytes_loop]

theorem encMapUint32Bool_loop (oracle : Nat → Bytes) (field : Int) : ∀ es enc, encMapUint32Bool.loop1 oracle field es enc = gEncLoop oracle field wUint32 wBool es enc := by
  intro es; induction es with
  | nil => intro enc; rfl
  | cons e es ih => intro enc; obtain ⟨key, val⟩ := e; unfold encMapUint32Bool.loop1 gEncLoop; simp only [ih] <;> rfl
theorem encMapUint32Bool_shape (oracle : Nat → Bytes) (field : Int) (enc : Buf) (m : Go.Map (GoVal .uint32) (GoVal .bool)) :
    encMapUint32Bool oracle field enc m = gEnc oracle wUint32 wBool field enc m := by
  unfold encMapUint32Bool gEnc; simp only [encMapUint32Bool_loop]

theorem encMapUint32Int32_loop (oracle : Nat → Bytes) (field : Int) : ∀ es enc, encMapUint32Int32.loop1 oracle field es enc = gEncLoop oracle field wUint32 wInt32 es enc := by
  intro es; induction es with
  | nil => intro enc; rfl
  | cons e es ih => intro enc; obtain ⟨key, val⟩ := e; unfold encMapUint32Int32.loop1 gEncLoop; simp only [ih] <;> rfl
theorem encMapUint32Int32_shape (oracle : Nat → Bytes) (field : Int) (enc : Buf) (m : Go.Map (GoVal .uint32) (GoVal .int32)) :
    encMapUint32Int32 oracle field enc m = gEnc oracle wUint32 wInt32 field enc m := by
  unfold encMapUint32Int32 gEnc; simp only [encMapUint32Int32_loop]

theorem encMapUint32Int64_loop (oracle : Nat → Bytes) (field : Int) : ∀ es enc, encMapUint32Int64.loop1 oracle field es enc = gEncLoop oracle field wUint32 wInt64 es enc := by
  intro es; induction es with
  | nil => intro enc; rfl
  | cons e es ih => intro enc; obtain ⟨key, val⟩ := e; unfold encMapUint32Int64.loop1 gEncLoop; simp only [ih] <;> rfl
theorem encMapUint32Int64_shape (oracle : Nat → Bytes) (field : Int) (enc : Buf) (m : Go.Map (GoVal .uint32) (GoVal .int64)) :
    encMapUint32Int64 oracle field enc m = gEnc oracle wUint32 wInt64 field enc m := by
  unfold encMapUint32Int64 gEnc; simp only [encMapUint32Int64_loop]

theorem encMapUint32Uint32_loop (oracle : Nat → Bytes) (field : Int) : ∀ es enc, encMapUint32Uint32.loop1 oracle field es enc = gEncLoop oracle field wUint32 wUint32 es enc := by
  intro es; induction es with
  | nil => intro enc; rfl
  | cons e es ih => intro enc; obtain ⟨key, val⟩ := e; unfold encMapUint32Uint32.loop1 gEncLoop; simp only [ih] <;> rfl
theorem encMapUint32Uint32_shape (oracle : Nat → Bytes) (field : Int) (enc : Buf) (m : Go.Map (GoVal .uint32) (GoVal .uint32)) :
    encMapUint32Uint32 oracle field enc m = gEnc oracle wUint32 wUint32 field enc m := by
  unfold encMapUint32Uint32 gEnc; simp only [encMapUint32Uint32_loop]

theorem encMapUint32Uint64_loop (oracle : Nat → Bytes) (field : Int) : ∀ es enc, encMapUint32Uint64.loop1 oracle field es enc = gEncLoop oracle field wUint32 wUint64 es enc := by
  intro es; induction es with
  | nil => intro enc; rfl
  | cons e es ih => intro enc; obtain ⟨key, val⟩ := e; unfold encMapUint32Uint64.loop1 gEncLoop; simp only [ih] <;> rfl
theorem encMapUint32Uint64_shape (oracle : Nat → Bytes) (field : Int) (enc : Buf) (m : Go.Map (GoVal .uint32) (GoVal .uint64)) :
    encMapUint32Uint64 oracle field enc m = gEnc oracle wUint32 wUint64 field enc m := by
  unfold encMapUint32Uint64 gEnc; simp only [encMapUint32Uint64_loop]

theorem encMapUint32Sint32_loop (oracle : Nat → Bytes) (field : Int) : ∀ es enc, encMapUint32Sint32.loop1 oracle field es enc = gEncLoop oracle field wUint32 wSint32 es enc := by
  intro es; induction es with
  | nil => intro enc; rfl
  | cons e es ih => intro enc; obtain ⟨key, val⟩ := e; unfold encMapUint32Sint32.loop1 gEncLoop; simp only [ih] <;> rfl
theorem encMapUint32Sint32_shape (oracle : Nat → Bytes) (field : Int) (enc : Buf) (m : Go.Map (GoVal .uint32) (GoVal .sint32)) :
    encMapUint32Sint32 oracle field enc m = gEnc oracle wUint32 wSint32 field enc m := by
  unfold encMapUint32Sint32 gEnc; simp only [encMapUint32Sint32_loop]

theorem encMapUint32Sint64_loop (oracle : Nat → Bytes) (field : Int) : ∀ es enc, encMapUint32Sint64.loop1 oracle field es enc = gEncLoop oracle field wUint32 wSint64 es enc := by
  intro es; induction es with
  | nil => intro enc; rfl
  | cons e es ih => intro enc; obtain ⟨key, val⟩ := e; unfold encMapUint32Sint64.loop1 gEncLoop; simp only [ih] <;> rfl
theorem encMapUint32Sint64_shape (oracle : Nat → Bytes) (field : Int) (enc : Buf) (m : Go.Map (GoVal .uint32) (GoVal .sint64)) :
    encMapUint32Sint64 oracle field enc m = gEnc oracle wUint32 wSint64 field enc m := by
  unfold encMapUint32Sint64 gEnc; simp only [encMapUint32Sint64_loop]

theorem encMapUint32Fixed32_loop (oracle : Nat → Bytes) (field : Int) : ∀ es enc, encMapUint32Fixed32.loop1 oracle field es enc = gEncLoop oracle field wUint32 wFixed32 es enc := by
  intro es; induction es with
  | nil => intro enc; rfl
  | cons e es ih => intro enc; obtain ⟨key, val⟩ := e; unfold encMapUint32Fixed32.loop1 gEncLoop; simp only [ih] <;> rfl
theorem encMapUint32Fixed32_shape (oracle : Nat → Bytes) (field : Int) (enc : Buf) (m : Go.Map (GoVal .uint32) (GoVal .fixed32)) :
    encMapUint32Fixed32 oracle field enc m = gEnc oracle wUint32 wFixed32 field enc m := by
  unfold encMapUint32Fixed32 gEnc; simp only [encMapUint32Fixed32_loop]

theorem encMapUint32Fixed64_loop (oracle : Nat → Bytes) (field : Int) : ∀ es enc, encMapUint32Fixed64.loop1 oracle field es enc = gEncLoop oracle field wUint32 wFixed64 es enc := by
  intro es; induction es with
  | nil => intro enc; rfl
  | cons e es ih => intro enc; obtain ⟨key, val⟩ := e; unfold encMapUint32Fixed64.loop1 gEncLoop; simp only [ih] <;> rfl
theorem encMapUint32Fixed64_shape (oracle : Nat → Bytes) (field : Int) (enc : Buf) (m : Go.Map (GoVal .uint32) (GoVal .fixed64)) :
    encMapUint32Fixed64 oracle field enc m = gEnc oracle wUint32 wFixed64 field enc m := by
  unfold encMapUint32Fixed64 gEnc; simp only [encMapUint32Fixed64_loop]

theorem encMapUint32Sfixed32_loop (oracle : Nat → Bytes) (field : Int) : ∀ es enc, encMapUint32Sfixed32.loop1 oracle field es enc = gEncLoop oracle field wUint32 wSfixed32 es enc := by
  intro es; induction es with
  | nil => intro enc; rfl
  | cons e es ih => intro enc; obtain ⟨key, val⟩ := e; unfold encMapUint32Sfixed32.loop1 gEncLoop; simp only [ih] <;> rfl
theorem encMapUint32Sfixed32_shape (oracle : Nat → Bytes) (field : Int) (enc : Buf) (m : Go.Map (GoVal .uint32) (GoVal .sfixed32)) :
    encMapUint32Sfixed32 oracle field enc m = gEnc oracle wUint32 wSfixed32 field enc m := by
  unfold encMapUint32Sfixed32 gEnc; simp only [encMapUint32Sfixed32_loop]

theorem encMapUint32Sfixed64_loop (oracle : Nat → Bytes) (field : Int) : ∀ es enc, encMapUint32Sfixed64.loop1 oracle field es enc = gEncLoop oracle field wUint32 wSfixed64 es enc := by
  intro es; induction es with
  | nil => intro enc; rfl
  | cons e es ih => intro enc; obtain ⟨key, val⟩ := e; unfold encMapUint32Sfixed64.loop1 gEncLoop; simp only [ih] <;> rfl
theorem encMapUint32Sfixed64_shape (oracle : Nat → Bytes) (field : Int) (enc : Buf) (m : Go.Map (GoVal .uint32) (GoVal .sfixed64)) :
    encMapUint32Sfixed64 oracle field enc m = gEnc oracle wUint32 wSfixed64 field enc m := by
  unfold encMapUint32Sfixed64 gEnc; simp only [encMapUint32Sfixed64_loop]

theorem encMapUint32Float_loop (oracle : Nat → Bytes) (field : Int) : ∀ es enc, encMapUint32Float.loop1 oracle field es enc = gEncLoop oracle field wUint32 wFloat es enc := by
  intro es; induction es with
  | nil => intro enc; rfl
  | cons e es ih => intro enc; obtain ⟨key, val⟩ := e; unfold encMapUint32Float.loop1 gEncLoop; simp only [ih] <;> rfl
theorem encMapUint32Float_shape (oracle : Nat → Bytes) (field : Int) (enc : Buf) (m : Go.Map (GoVal .uint32) (GoVal .float)) :
    encMapUint32Float oracle field enc m = gEnc oracle wUint32 wFloat field enc m := by
  unfold encMapUint32Float gEnc; simp only [encMapUint32Float_loop]

theorem encMapUint32Double_loop (oracle : Nat → Bytes) (field : Int) : ∀ es enc, encMapUint32Double.loop1 oracle field es enc = gEncLoop oracle field wUint32 wDouble es enc := by
  intro es; induction es with
  | nil => intro enc; rfl
  | cons e es ih => intro enc; obtain ⟨key, val⟩ := e; unfold encMapUint32Double.loop1 gEncLoop; simp only [ih] <;> rfl
theorem encMapUint32Double_shape (oracle : Nat → Bytes) (field : Int) (enc : Buf) (m : Go.Map (GoVal .uint32) (GoVal .double)) :
    encMapUint32Double oracle field enc m = gEnc oracle wUint32 wDouble field enc m := by
  unfold encMapUint32Double gEnc; simp only [encMapUint32Double_loop]

theorem encMapUint32String_loop (oracle : Nat → Bytes) (field : Int) : ∀ es enc, encMapUint32String.loop1 oracle field es enc = gEncLoop oracle field wUint32 wString es enc := by
  intro es; induction es with
  | nil => intro enc; rfl
  | cons e es ih => intro enc; obtain ⟨key, val⟩ := e; unfold encMapUint32String.loop1 gEncLoop; simp only [ih] <;> rfl
theorem encMapUint32String_shape (oracle : Nat → Bytes) (field : Int) (enc : Buf) (m : Go.Map (GoVal .uint32) (GoVal .string)) :
    encMapUint32String oracle field enc m = gEnc oracle wUint32 wString field enc m := by
  unfold encMapUint32String gEnc; simp only [encMapUint32String_loop]

theorem encMapUint32Bytes_loop (oracle : Nat → Bytes) (field : Int) : ∀ es enc, encMapUint32Bytes.loop1 oracle field es enc = gEncLoop oracle field wUint32 wBytes es enc := by
  intro es; induction es with
  | nil => intro enc; rfl
  | cons e es ih => intro enc; obtain ⟨key, val⟩ := e; unfold encMapUint32Bytes.loop1 gEncLoop; simp only [ih] <;> rfl
theorem encMapUint32Bytes_shape (oracle : Nat → Bytes) (field : Int) (enc : Buf) (m : Go.Map (GoVal .uint32) (GoVal .bytes)) :
    encMapUint32Bytes oracle field enc m = gEnc oracle wUint32 wBytes field enc m := by
  unfold encMapUint32Bytes gEnc; simp only [encMapUint32Bytes_loop]

theorem encMapUint64Bool_loop (oracle : Nat → Bytes) (field : Int) : ∀ es enc, encMapUint64Bool.loop1 oracle field es enc = gEncLoop oracle field wUint64 wBool es enc := by
  intro es; induction es with
  | nil => intro enc; rfl
  | cons e es ih => intro enc; obtain ⟨key, val⟩ := e; unfold encMapUint64Bool.loop1 gEncLoop; simp only [ih] <;> rfl
theorem encMapUint64Bool_shape (oracle : Nat → Bytes) (field : Int) (enc : Buf) (m : Go.Map (GoVal .uint64) (GoVal .bool)) :
    encMapUint64Bool oracle field enc m = gEnc oracle wUint64 wBool field enc m := by
  unfold encMapUint64Bool gEnc; simp only [encMapUint64Bool_loop]

theorem encMapUint64Int32_loop (oracle : Nat → Bytes) (field : Int) : ∀ es enc, encMapUint64Int32.loop1 oracle field es enc = gEncLoop oracle field wUint64 wInt32 es enc := by
  intro es; induction es with
  | nil => intro enc; rfl
  | cons e es ih => intro enc; obtain ⟨key, val⟩ := e; unfold encMapUint64Int32.loop1 gEncLoop; simp only [ih] <;> rfl
theorem encMapUint64Int32_shape (oracle : Nat → Bytes) (field : Int) (enc : Buf) (m : Go.Map (GoVal .uint64) (GoVal .int32)) :
    encMapUint64Int32 oracle field enc m = gEnc oracle wUint64 wInt32 field enc m := by
  unfold encMapUint64Int32 gEnc; simp only [encMapUint64Int32_loop]

theorem encMapUint64Int64_loop (oracle : Nat → Bytes) (field : Int) : ∀ es enc, encMapUint64Int64.loop1 oracle field es enc = gEncLoop oracle field wUint64 wInt64 es enc := by
  intro es; induction es with
  | nil => intro enc; rfl
  | cons e es ih => intro enc; obtain ⟨key, val⟩ := e; unfold encMapUint64Int64.loop1 gEncLoop; simp only [ih] <;> rfl
theorem encMapUint64Int64_shape (oracle : Nat → Bytes) (field : Int) (enc : Buf) (m : Go.Map (GoVal .uint64) (GoVal .int64)) :
    encMapUint64Int64 oracle field enc m = gEnc oracle wUint64 wInt64 field enc m := by
  unfold encMapUint64Int64 gEnc; simp only [encMapUint64Int64_loop]

theorem encMapUint64Uint32_loop (oracle : Nat → Bytes) (field : Int) : ∀ es enc, encMapUint64Uint32.loop1 oracle field es enc = gEncLoop oracle field wUint64 wUint32 es enc := by
  intro es; induction es with
  | nil => intro enc; rfl
  | cons e es ih => intro enc; obtain ⟨key, val⟩ := e; unfold encMapUint64Uint32.loop1 gEncLoop; simp only [ih] <;> rfl
theorem encMapUint64Uint32_shape (oracle : Nat → Bytes) (field : Int) (enc : Buf) (m : Go.Map (GoVal .uint64) (GoVal .uint32)) :
    encMapUint64Uint32 oracle field enc m = gEnc oracle wUint64 wUint32 field enc m := by
  unfold encMapUint64Uint32 gEnc; simp only [encMapUint64Uint32_loop]

theorem encMapUint64Uint64_loop (oracle : Nat → Bytes) (field : Int) : ∀ es enc, encMapUint64Uint64.loop1 oracle field es enc = gEncLoop oracle field wUint64 wUint64 es enc := by
  intro es; induction es with
  | nil => intro enc; rfl
  | cons e es ih => intro enc; obtain ⟨key, val⟩ := e; unfold encMapUint64Uint64.loop1 gEncLoop; simp only [ih] <;> rfl
theorem encMapUint64Uint64_shape (oracle : Nat → Bytes) (field : Int) (enc : Buf) (m : Go.Map (GoVal .uint64) (GoVal .uint64)) :
    encMapUint64Uint64 oracle field enc m = gEnc oracle wUint64 wUint64 field enc m := by
  unfold encMapUint64Uint64 gEnc; simp only [encMapUint64Uint64_loop]

theorem encMapUint64Sint32_loop (oracle : Nat → Bytes) (field : Int) : ∀ es enc, encMapUint64Sint32.loop1 oracle field es enc = gEncLoop oracle field wUint64 wSint32 es enc := by
  intro es; induction es with
  | nil => intro enc; rfl
  | cons e es ih => intro enc; obtain ⟨key, val⟩ := e; unfold encMapUint64Sint32.loop1 gEncLoop; simp only [ih] <;> rfl
theorem encMapUint64Sint32_shape (oracle : Nat → Bytes) (field : Int) (enc : Buf) (m : Go.Map (GoVal .uint64) (GoVal .sint32)) :
    encMapUint64Sint32 oracle field enc m = gEnc oracle wUint64 wSint32 field enc m := by
  unfold encMapUint64Sint32 gEnc; simp only [encMapUint64Sint32_loop]

theorem encMapUint64Sint64_loop (oracle : Nat → Bytes) (field : Int) : ∀ es enc, encMapUint64Sint64.loop1 oracle field es enc = gEncLoop oracle field wUint64 wSint64 es enc := by
  intro es; induction es with
  | nil => intro enc; rfl
  | cons e es ih => intro enc; obtain ⟨key, val⟩ := e; unfold encMapUint64Sint64.loop1 gEncLoop; simp only [ih] <;> rfl
theorem encMapUint64Sint64_shape (oracle : Nat → Bytes) (field : Int) (enc : Buf) (m : Go.Map (GoVal .uint64) (GoVal .sint64)) :
    encMapUint64Sint64 oracle field enc m = gEnc oracle wUint64 wSint64 field enc m := by
  unfold encMapUint64Sint64 gEnc; simp only [encMapUint64Sint64_loop]

theorem encMapUint64Fixed32_loop (oracle : Nat → Bytes) (field : Int) : ∀ es enc, encMapUint64Fixed32.loop1 oracle field es enc = gEncLoop oracle field wUint64 wFixed32 es enc := by
  intro es; induction es with
  | nil => intro enc; rfl
  | cons e es ih => intro enc; obtain ⟨key, val⟩ := e; unfold encMapUint64Fixed32.loop1 gEncLoop; simp only [ih] <;> rfl
theorem encMapUint64Fixed32_shape (oracle : Nat → Bytes) (field : Int) (enc : Buf) (m : Go.Map (GoVal .uint64) (GoVal .fixed32)) :
    encMapUint64Fixed32 oracle field enc m = gEnc oracle wUint64 wFixed32 field enc m := by
  unfold encMapUint64Fixed32 gEnc; simp only [encMapUint64Fixed32_loop]

theorem encMapUint64Fixed64_loop (oracle : Nat → Bytes) (field : Int) : ∀ es enc, encMapUint64Fixed64.loop1 oracle field es enc = gEncLoop oracle field wUint64 wFixed64 es enc := by
  intro es; induction es with
  | nil => intro enc; rfl
  | cons e es ih => intro enc; obtain ⟨key, val⟩ := e; unfold encMapUint64Fixed64.loop1 gEncLoop; simp only [ih] <;> rfl
theorem encMapUint64Fixed64_shape (oracle : Nat → Bytes) (field : Int) (enc : Buf) (m : Go.Map (GoVal .uint64) (GoVal .fixed64)) :
    encMapUint64Fixed64 oracle field enc m = gEnc oracle wUint64 wFixed64 field enc m := by
  unfold encMapUint64Fixed64 gEnc; simp only [encMapUint64Fixed64_loop]

theorem encMapUint64Sfixed32_loop (oracle : Nat → Bytes) (field : Int) : ∀ es enc, encMapUint64Sfixed32.loop1 oracle field es enc = gEncLoop oracle field wUint64 wSfixed32 es enc := by
  intro es; induction es with
  | nil => intro enc; rfl
  | cons e es ih => intro enc; obtain ⟨key, val⟩ := e; unfold encMapUint64Sfixed32.loop1 gEncLoop; simp only [ih] <;> rfl
theorem encMapUint64Sfixed32_shape (oracle : Nat → Bytes) (field : Int) (enc : Buf) (m : Go.Map (GoVal .uint64) (GoVal .sfixed32)) :
    encMapUint64Sfixed32 oracle field enc m = gEnc oracle wUint64 wSfixed32 field enc m := by
  unfold encMapUint64Sfixed32 gEnc; simp only [encMapUint64Sfixed32_loop]

theorem encMapUint64Sfixed64_loop (oracle : Nat → Bytes) (field : Int) : ∀ es enc, encMapUint64Sfixed64.loop1 oracle field es enc = gEncLoop oracle field wUint64 wSfixed64 es enc := by
  intro es; induction es with
  | nil => intro enc; rfl
  | cons e es ih => intro enc; obtain ⟨key, val⟩ := e; unfold encMapUint64Sfixed64.loop1 gEncLoop; simp only [ih] <;> rfl
theorem encMapUint64Sfixed64_shape (oracle : Nat → Bytes) (field : Int) (enc : Buf) (m : Go.Map (GoVal .uint64) (GoVal .sfixed64)) :
    encMapUint64Sfixed64 oracle field enc m = gEnc oracle wUint64 wSfixed64 field enc m := by
  unfold encMapUint64Sfixed64 gEnc; simp only [encMapUint64Sfixed64_loop]

theorem encMapUint64Float_loop (oracle : Nat → Bytes) (field : Int) : ∀ es enc, encMapUint64Float.loop1 oracle field es enc = gEncLoop oracle field wUint64 wFloat es enc := by
  intro es; induction es with
  | nil => intro enc; rfl
  | cons e es ih => intro enc; obtain ⟨key, val⟩ := e; unfold encMapUint64Float.loop1 gEncLoop; simp only [ih] <;> rfl
theorem encMapUint64Float_shape (oracle : Nat → Bytes) (field : Int) (enc : Buf) (m : Go.Map (GoVal .uint64) (GoVal .float)) :
    encMapUint64Float oracle field enc m = gEnc oracle wUint64 wFloat field enc m := by
  unfold encMapUint64Float gEnc; simp only [encMapUint64Float_loop]

theorem encMapUint64Double_loop (oracle : Nat → Bytes) (field : Int) : ∀ es enc, encMapUint64Double.loop1 oracle field es enc = gEncLoop oracle field wUint64 wDouble es enc := by
  intro es; induction es with
  | nil => intro enc; rfl
  | cons e es ih => intro enc; obtain ⟨key, val⟩ := e; unfold encMapUint64Double.loop1 gEncLoop; simp only [ih] <;> rfl
theorem encMapUint64Double_shape (oracle : Nat → Bytes) (field : Int) (enc : Buf) (m : Go.Map (GoVal .uint64) (GoVal .double)) :
    encMapUint64Double oracle field enc m = gEnc oracle wUint64 wDouble field enc m := by
  unfold encMapUint64Double gEnc; simp only [encMapUint64Double_loop]

theorem encMapUint64String_loop (oracle : Nat → Bytes) (field : Int) : ∀ es enc, encMapUint64String.loop1 oracle field es enc = gEncLoop oracle field wUint64 wString es enc := by
  intro es; induction es with
  | nil => intro enc; rfl
  | cons e es ih => intro enc; obtain ⟨key, val⟩ := e; unfold encMapUint64String.loop1 gEncLoop; simp only [ih] <;> rfl
theorem encMapUint64String_shape (oracle : Nat → Bytes) (field : Int) (enc : Buf) (m : Go.Map (GoVal .uint64) (GoVal .string)) :
    encMapUint64String oracle field enc m = gEnc oracle wUint64 wString field enc m := by
  unfold encMapUint64String gEnc; simp only [encMapUint64String_loop]

theorem encMapUint64Bytes_loop (oracle : Nat → Bytes) (field : Int) : ∀ es enc, encMapUint64Bytes.loop1 oracle field es enc = gEncLoop oracle field wUint64 wBytes es enc := by
  intro es; induction es with
  | nil => intro enc; rfl
  | cons e es ih => intro enc; obtain ⟨key, val⟩ := e; unfold encMapUint64Bytes.loop1 gEncLoop; simp only [ih] <;> rfl
theorem encMapUint64Bytes_shape (oracle : Nat → Bytes) (field : Int) (enc : Buf) (m : Go.Map (GoVal .uint64) (GoVal .bytes)) :
    encMapUint64Bytes oracle field enc m = gEnc oracle wUint64 wBytes field enc m := by
  unfold encMapUint64Bytes gEnc; simp only [encMapUint64Bytes_loop]

theorem encMapSint32Bool_loop (oracle : Nat → Bytes) (field : Int) : ∀ es enc, encMapSint32Bool.loop1 oracle field es enc = gEncLoop oracle field wSint32 wBool es enc := by
  intro es; induction es with
  | nil => intro enc; rfl
  | cons e es ih => intro enc; obtain ⟨key, val⟩ := e; unfold encMapSint32Bool.loop1 gEncLoop; simp only [ih] <;> rfl
theorem encMapSint32Bool_shape (oracle : Nat → Bytes) (field : Int) (enc : Buf) (m : Go.Map (GoVal .sint32) (GoVal .bool)) :
    encMapSint32Bool oracle field enc m = gEnc oracle wSint32 wBool field enc m := by
  unfold encMapSint32Bool gEnc; simp only [encMapSint32Bool_loop]

theorem encMapSint32Int32_loop (oracle : Nat → Bytes) (field : Int) : ∀ es enc, encMapSint32Int32.loop1 oracle field es enc = gEncLoop oracle field wSint32 wInt32 es enc := by
  intro es; induction es with
  | nil => intro enc; rfl
  | cons e es ih => intro enc; obtain ⟨key, val⟩ := e; unfold encMapSint32Int32.loop1 gEncLoop; simp only [ih] <;> rfl
theorem encMapSint32Int32_shape (oracle : Nat → Bytes) (field : Int) (enc : Buf) (m : Go.Map (GoVal .sint32) (GoVal .int32)) :
    encMapSint32Int32 oracle field enc m = gEnc oracle wSint32 wInt32 field enc m := by
  unfold encMapSint32Int32 gEnc; simp only [encMapSint32Int32_loop]

theorem encMapSint32Int64_loop (oracle : Nat → Bytes) (field : Int) : ∀ es enc, encMapSint32Int64.loop1 oracle field es enc = gEncLoop oracle field wSint32 wInt64 es enc := by
  intro es; induction es with
  | nil => intro enc; rfl
  | cons e es ih => intro enc; obtain ⟨key, val⟩ := e; unfold encMapSint32Int64.loop1 gEncLoop; simp only [ih] <;> rfl
theorem encMapSint32Int64_shape (oracle : Nat → Bytes) (field : Int) (enc : Buf) (m : Go.Map (GoVal .sint32) (GoVal .int64)) :
    encMapSint32Int64 oracle field enc m = gEnc oracle wSint32 wInt64 field enc m := by
  unfold encMapSint32Int64 gEnc; simp only [encMapSint32Int64_loop]

theorem encMapSint32Uint32_loop (oracle : Nat → Bytes) (field : Int) : ∀ es enc, encMapSint32Uint32.loop1 oracle field es enc = gEncLoop oracle field wSint32 wUint32 es enc := by
  intro es; induction es with
  | nil => intro enc; rfl
  | cons e es ih => intro enc; obtain ⟨key, val⟩ := e; unfold encMapSint32Uint32.loop1 gEncLoop; simp only [ih] <;> rfl
theorem encMapSint32Uint32_shape (oracle : Nat → Bytes) (field : Int) (enc : Buf) (m : Go.Map (GoVal .sint32) (GoVal .uint32)) :
    encMapSint32Uint32 oracle field enc m = gEnc oracle wSint32 wUint32 field enc m := by
  unfold encMapSint32Uint32 gEnc; simp only [encMapSint32Uint32_loop]

theorem encMapSint32Uint64_loop (oracle : Nat → Bytes) (field : Int) : ∀ es enc, encMapSint32Uint64.loop1 oracle field es enc = gEncLoop oracle field wSint32 wUint64 es enc := by
  intro es; induction es with
  | nil => intro enc; rfl
  | cons e es ih => intro enc; obtain ⟨key, val⟩ := e; unfold encMapSint32Uint64.loop1 gEncLoop; simp only [ih] <;> rfl
theorem encMapSint32Uint64_shape (oracle : Nat → Bytes) (field : Int) (enc : Buf) (m : Go.Map (GoVal .sint32) (GoVal .uint64)) :
    encMapSint32Uint64 oracle field enc m = gEnc oracle wSint32 wUint64 field enc m := by
  unfold encMapSint32Uint64 gEnc; simp only [encMapSint32Uint64_loop]

theorem encMapSint32Sint32_loop (oracle : Nat → Bytes) (field : Int) : ∀ es enc, encMapSint32Sint32.loop1 oracle field es enc = gEncLoop oracle field wSint32 wSint32 es enc := by
  intro es; induction es with
  | nil => intro enc; rfl
  | cons e es ih => intro enc; obtain ⟨key, val⟩ := e; unfold encMapSint32Sint32.loop1 gEncLoop; simp only [ih] <;> rfl
theorem encMapSint32Sint32_shape (oracle : Nat → Bytes) (field : Int) (enc : Buf) (m : Go.Map (GoVal .sint32) (GoVal .sint32)) :
    encMapSint32Sint32 oracle field enc m = gEnc oracle wSint32 wSint32 field enc m := by
  unfold encMapSint32Sint32 gEnc; simp only [encMapSint32Sint32_loop]

theorem encMapSint32Sint64_loop (oracle : Nat → Bytes) (field : Int) : ∀ es enc, encMapSint32Sint64.loop1 oracle field es enc = gEncLoop oracle field wSint32 wSint64 es enc := by
  intro es; induction es with
  | nil => intro enc; rfl
  | cons e es ih => intro enc; obtain ⟨key, val⟩ := e; unfold encMapSint32Sint64.loop1 gEncLoop; simp only [ih] <;> rfl
theorem encMapSint32Sint64_shape (oracle : Nat → Bytes) (field : Int) (enc : Buf) (m : Go.Map (GoVal .sint32) (GoVal .sint64)) :
    encMapSint32Sint64 oracle field enc m = gEnc oracle wSint32 wSint64 field enc m := by
  unfold encMapSint32Sint64 gEnc; simp only [encMapSint32Sint64_loop]

theorem encMapSint32Fixed32_loop (oracle : Nat → Bytes) (field : Int) : ∀ es enc, encMapSint32Fixed32.loop1 oracle field es enc = gEncLoop oracle field wSint32 wFixed32 es enc := by
  intro es; induction es with
  | nil => intro enc; rfl
  | cons e es ih => intro enc; obtain ⟨key, val⟩ := e; unfold encMapSint32Fixed32.loop1 gEncLoop; simp only [ih] <;> rfl
theorem encMapSint32Fixed32_shape (oracle : Nat → Bytes) (field : Int) (enc : Buf) (m : Go.Map (GoVal .sint32) (GoVal .fixed32)) :
    encMapSint32Fixed32 oracle field enc m = gEnc oracle wSint32 wFixed32 field enc m := by
  unfold encMapSint32Fixed32 gEnc; simp only [encMapSint32Fixed32_loop]

theorem encMapSint32Fixed64_loop (oracle : Nat → Bytes) (field : Int) : ∀ es enc, encMapSint32Fixed64.loop1 oracle field es enc = gEncLoop oracle field wSint32 wFixed64 es enc := by
  intro es; induction es with
  | nil => intro enc; rfl
  | cons e es ih => intro enc; obtain ⟨key, val⟩ := e; unfold encMapSint32Fixed64.loop1 gEncLoop; simp only [ih] <;> rfl
theorem encMapSint32Fixed64_shape (oracle : Nat → Bytes) (field : Int) (enc : Buf) (m : Go.Map (GoVal .sint32) (GoVal .fixed64)) :
    encMapSint32Fixed64 oracle field enc m = gEnc oracle wSint32 wFixed64 field enc m := by
  unfold encMapSint32Fixed64 gEnc; simp only [encMapSint32Fixed64_loop]

theorem encMapSint32Sfixed32_loop (oracle : Nat → Bytes) (field : Int) : ∀ es enc, encMapSint32Sfixed32.loop1 oracle field es enc = gEncLoop oracle field wSint32 wSfixed32 es enc := by
  intro es; induction es with
  | nil => intro enc; rfl
  | cons e es ih => intro enc; obtain ⟨key, val⟩ := e; unfold encMapSint32Sfixed32.loop1 gEncLoop; simp only [ih] <;> rfl
theorem encMapSint32Sfixed32_shape (oracle : Nat → Bytes) (field : Int) (enc : Buf) (m : Go.Map (GoVal .sint32) (GoVal .sfixed32)) :
    encMapSint32Sfixed32 oracle field enc m = gEnc oracle wSint32 wSfixed32 field enc m := by
  unfold encMapSint32Sfixed32 gEnc; simp only [encMapSint32Sfixed32_loop]

theorem encMapSint32Sfixed64_loop (oracle : Nat → Bytes) (field : Int) : ∀ es enc, encMapSint32Sfixed64.loop1 oracle field es enc = gEncLoop oracle field wSint32 wSfixed64 es enc := by
  intro es; induction es with
  | nil => intro enc; rfl
  | cons e es ih => intro enc; obtain ⟨key, val⟩ := e; unfold encMapSint32Sfixed64.loop1 gEncLoop; simp only [ih] <;> rfl
theorem encMapSint32Sfixed64_shape (oracle : Nat → Bytes) (field : Int) (enc : Buf) (m : Go.Map (GoVal .sint32) (GoVal .sfixed64)) :
    encMapSint32Sfixed64 oracle field enc m = gEnc oracle wSint32 wSfixed64 field enc m := by
  unfold encMapSint32Sfixed64 gEnc; simp only [encMapSint32Sfixed64_loop]

theorem encMapSint32Float_loop (oracle : Nat → Bytes) (field : Int) : ∀ es enc, encMapSint32Float.loop1 oracle field es enc = gEncLoop oracle field wSint32 wFloat es enc := by
  intro es; induction es with
  | nil => intro enc; rfl
  | cons e es ih => intro enc; obtain ⟨key, val⟩ := e; unfold encMapSint32Float.loop1 gEncLoop; simp only [ih] <;> rfl
theorem encMapSint32Float_shape (oracle : Nat → Bytes) (field : Int) (enc : Buf) (m : Go.Map (GoVal .sint32) (GoVal .float)) :
    encMapSint32Float oracle field enc m = gEnc oracle wSint32 wFloat field enc m := by
  unfold encMapSint32Float gEnc; simp only [encMapSint32Float_loop]

theorem encMapSint32Double_loop (oracle : Nat → Bytes) (field : Int) : ∀ es enc, encMapSint32Double.loop1 oracle field es enc = gEncLoop oracle field wSint32 wDouble es enc := by
  intro es; induction es with
  | nil => intro enc; rfl
  | cons e es ih => intro enc; obtain ⟨key, val⟩ := e; unfold encMapSint32Double.loop1 gEncLoop; simp only [ih] <;> rfl
theorem encMapSint32Double_shape (oracle : Nat → Bytes) (field : Int) (enc : Buf) (m : Go.Map (GoVal .sint32) (GoVal .double)) :
    encMapSint32Double oracle field enc m = gEnc oracle wSint32 wDouble field enc m := by
  unfold encMapSint32Double gEnc; simp only [encMapSint32Double_loop]

theorem encMapSint32String_loop (oracle : Nat → Bytes) (field : Int) : ∀ es enc, encMapSint32String.loop1 oracle field es enc = gEncLoop oracle field wSint32 wString es enc := by
  intro es; induction es with
  | nil => intro enc; rfl
  | cons e es ih => intro enc; obtain ⟨key, val⟩ := e; unfold encMapSint32String.loop1 gEncLoop; simp only [ih] <;> rfl
theorem encMapSint32String_shape (oracle : Nat → Bytes) (field : Int) (enc : Buf) (m : Go.Map (GoVal .sint32) (GoVal .string)) :
    encMapSint32String oracle field enc m = gEnc oracle wSint32 wString field enc m := by
  unfold encMapSint32String gEnc; simp only [encMapSint32String_loop]

theorem encMapSint32Bytes_loop (oracle : Nat → Bytes) (field : Int) : ∀ es enc, encMapSint32Bytes.loop1 oracle field es enc = gEncLoop oracle field wSint32 wBytes es enc := by
  intro es; induction es with
  | nil => intro enc; rfl
  | cons e es ih => intro enc; obtain ⟨key, val⟩ := e; unfold encMapSint32Bytes.loop1 gEncLoop; simp only [ih] <;> rfl
theorem encMapSint32Bytes_shape (oracle : Nat → Bytes) (field : Int) (enc : Buf) (m : Go.Map (GoVal .sint32) (GoVal .bytes)) :
    encMapSint32Bytes oracle field enc m = gEnc oracle wSint32 wBytes field enc m := by
  unfold encMapSint32Bytes gEnc; simp only [encMapSint32Bytes_loop]

theorem encMapSint64Bool_loop (oracle : Nat → Bytes) (field : Int) : ∀ es enc, encMapSint64Bool.loop1 oracle field es enc = gEncLoop oracle field wSint64 wBool es enc := by
  intro es; induction es with
  | nil => intro enc; rfl
  | cons e es ih => intro enc; obtain ⟨key, val⟩ := e; unfold encMapSint64Bool.loop1 gEncLoop; simp only [ih] <;> rfl
theorem encMapSint64Bool_shape (oracle : Nat → Bytes) (field : Int) (enc : Buf) (m : Go.Map (GoVal .sint64) (GoVal .bool)) :
    encMapSint64Bool oracle field enc m = gEnc oracle wSint64 wBool field enc m := by
  unfold encMapSint64Bool gEnc; simp only [encMapSint64Bool_loop]

theorem encMapSint64Int32_loop (oracle : Nat → Bytes) (field : Int) : ∀ es enc, encMapSint64Int32.loop1 oracle field es enc = gEncLoop oracle field wSint64 wInt32 es enc := by
  intro es; induction es with
  | nil => intro enc; rfl
  | cons e es ih => intro enc; obtain ⟨key, val⟩ := e; unfold encMapSint64Int32.loop1 gEncLoop; simp only [ih] <;> rfl
theorem encMapSint64Int32_shape (oracle : Nat → Bytes) (field : Int) (enc : Buf) (m : Go.Map (GoVal .sint64) (GoVal .int32)) :
    encMapSint64Int32 oracle field enc m = gEnc oracle wSint64 wInt32 field enc m := by
  unfold encMapSint64Int32 gEnc; simp only [encMapSint64Int32_loop]

theorem encMapSint64Int64_loop (oracle : Nat → Bytes) (field : Int) : ∀ es enc, encMapSint64Int64.loop1 oracle field es enc = gEncLoop oracle field wSint64 wInt64 es enc := by
  intro es; induction es with
  | nil => intro enc; rfl
  | cons e es ih => intro enc; obtain ⟨key, val⟩ := e; unfold encMapSint64Int64.loop1 gEncLoop; simp only [ih] <;> rfl
theorem encMapSint64Int64_shape (oracle : Nat → Bytes) (field : Int) (enc : Buf) (m : Go.Map (GoVal .sint64) (GoVal .int64)) :
    encMapSint64Int64 oracle field enc m = gEnc oracle wSint64 wInt64 field enc m := by
  unfold encMapSint64Int64 gEnc; simp only [encMapSint64Int64_loop]

theorem encMapSint64Uint32_loop (oracle : Nat → Bytes) (field : Int) : ∀ es enc, encMapSint64Uint32.loop1 oracle field es enc = gEncLoop oracle field wSint64 wUint32 es enc := by
  intro es; induction es with
  | nil => intro enc; rfl
  | cons e es ih => intro enc; obtain ⟨key, val⟩ := e; unfold encMapSint64Uint32.loop1 gEncLoop; simp only [ih] <;> rfl
theorem encMapSint64Uint32_shape (oracle : Nat → Bytes) (field : Int) (enc : Buf) (m : Go.Map (GoVal .sint64) (GoVal .uint32)) :
    encMapSint64Uint32 oracle field enc m = gEnc oracle wSint64 wUint32 field enc m := by
  unfold encMapSint64Uint32 gEnc; simp only [encMapSint64Uint32_loop]

theorem encMapSint64Uint64_loop (oracle : Nat → Bytes) (field : Int) : ∀ es enc, encMapSint64Uint64.loop1 oracle field es enc = gEncLoop oracle field wSint64 wUint64 es enc := by
  intro es; induction es with
  | nil => intro enc; rfl
  | cons e es ih => intro enc; obtain ⟨key, val⟩ := e; unfold encMapSint64Uint64.loop1 gEncLoop; simp only [ih] <;> rfl
theorem encMapSint64Uint64_shape (oracle : Nat → Bytes) (field : Int) (enc : Buf) (m : Go.Map (GoVal .sint64) (GoVal .uint64)) :
    encMapSint64Uint64 oracle field enc m = gEnc oracle wSint64 wUint64 field enc m := by
  unfold encMapSint64Uint64 gEnc; simp only [encMapSint64Uint64_loop]

theorem encMapSint64Sint32_loop (oracle : Nat → Bytes) (field : Int) : ∀ es enc, encMapSint64Sint32.loop1 oracle field es enc = gEncLoop oracle field wSint64 wSint32 es enc := by
  intro es; induction es with
  | nil => intro enc; rfl
  | cons e es ih => intro enc; obtain ⟨key, val⟩ := e; unfold encMapSint64Sint32.loop1 gEncLoop; simp only [ih] <;> rfl
theorem encMapSint64Sint32_shape (oracle : Nat → Bytes) (field : Int) (enc : Buf) (m : Go.Map (GoVal .sint64) (GoVal .sint32)) :
    encMapSint64Sint32 oracle field enc m = gEnc oracle wSint64 wSint32 field enc m := by
  unfold encMapSint64Sint32 gEnc; simp only [encMapSint64Sint32_loop]

theorem encMapSint64Sint64_loop (oracle : Nat → Bytes) (field : Int) : ∀ es enc, encMapSint64Sint64.loop1 oracle field es enc = gEncLoop oracle field wSint64 wSint64 es enc := by
  intro es; induction es with
  | nil => intro enc; rfl
  | cons e es ih => intro enc; obtain ⟨key, val⟩ := e; unfold encMapSint64Sint64.loop1 gEncLoop; simp only [ih] <;> rfl
theorem encMapSint64Sint64_shape (oracle : Nat → Bytes) (field : Int) (enc : Buf) (m : Go.Map (GoVal .sint64) (GoVal .sint64)) :
    encMapSint64Sint64 oracle field enc m = gEnc oracle wSint64 wSint64 field enc m := by
  unfold encMapSint64Sint64 gEnc; simp only [encMapSint64Sint64_loop]

theorem encMapSint64Fixed32_loop (oracle : Nat → Bytes) (field : Int) : ∀ es enc, encMapSint64Fixed32.loop1 oracle field es enc = gEncLoop oracle field wSint64 wFixed32 es enc := by
  intro es; induction es with
  | nil => intro enc; rfl
  | cons e es ih => intro enc; obtain ⟨key, val⟩ := e; unfold encMapSint64Fixed32.loop1 gEncLoop; simp only [ih] <;> rfl
theorem encMapSint64Fixed32_shape (oracle : Nat → Bytes) (field : Int) (enc : Buf) (m : Go.Map (GoVal .sint64) (GoVal .fixed32)) :
    encMapSint64Fixed32 oracle field enc m = gEnc oracle wSint64 wFixed32 field enc m := by
  unfold encMapSint64Fixed32 gEnc; simp only [encMapSint64Fixed32_loop]

theorem encMapSint64Fixed64_loop (oracle : Nat → Bytes) (field : Int) : ∀ es enc, encMapSint64Fixed64.loop1 oracle field es enc = gEncLoop oracle field wSint64 wFixed64 es enc := by
  intro es; induction es with
  | nil => intro enc; rfl
  | cons e es ih => intro enc; obtain ⟨key, val⟩ := e; unfold encMapSint64Fixed64.loop1 gEncLoop; simp only [ih] <;> rfl
theorem encMapSint64Fixed64_shape (oracle : Nat → Bytes) (field : Int) (enc : Buf) (m : Go.Map (GoVal .sint64) (GoVal .fixed64)) :
    encMapSint64Fixed64 oracle field enc m = gEnc oracle wSint64 wFixed64 field enc m := by
  unfold encMapSint64Fixed64 gEnc; simp only [encMapSint64Fixed64_loop]

theorem encMapSint64Sfixed32_loop (oracle : Nat → Bytes) (field : Int) : ∀ es enc, encMapSint64Sfixed32.loop1 oracle field es enc = gEncLoop oracle field wSint64 wSfixed32 es enc := by
  intro es; induction es with
  | nil => intro enc; rfl
  | cons e es ih => intro enc; obtain ⟨key, val⟩ := e; unfold encMapSint64Sfixed32.loop1 gEncLoop; simp only [ih] <;> rfl
theorem encMapSint64Sfixed32_shape (oracle : Nat → Bytes) (field : Int) (enc : Buf) (m : Go.Map (GoVal .sint64) (GoVal .sfixed32)) :
    encMapSint64Sfixed32 oracle field enc m = gEnc oracle wSint64 wSfixed32 field enc m := by
  unfold encMapSint64Sfixed32 gEnc; simp only [encMapSint64Sfixed32_loop]

theorem encMapSint64Sfixed64_loop (oracle : Nat → Bytes) (field : Int) : ∀ es enc, encMapSint64Sfixed64.loop1 oracle field es enc = gEncLoop oracle field wSint64 wSfixed64 es enc := by
  intro es; induction es with
  | nil => intro enc; rfl
  | cons e es ih => intro enc; obtain ⟨key, val⟩ := e; unfold encMapSint64Sfixed64.loop1 gEncLoop; simp only [ih] <;> rfl
theorem encMapSint64Sfixed64_shape (oracle : Nat → Bytes) (field : Int) (enc : Buf) (m : Go.Map (GoVal .sint64) (GoVal .sfixed64)) :
    encMapSint64Sfixed64 oracle field enc m = gEnc oracle wSint64 wSfixed64 field enc m := by
  unfold encMapSint64Sfixed64 gEnc; simp only [encMapSint64Sfixed64_loop]

theorem encMapSint64Float_loop (oracle : Nat → Bytes) (field : Int) : ∀ es enc, encMapSint64Float.loop1 oracle field es enc = gEncLoop oracle field wSint64 wFloat es enc := by
  intro es; induction es with
  | nil => intro enc; rfl
  | cons e es ih => intro enc; obtain ⟨key, val⟩ := e; unfold encMapSint64Float.loop1 gEncLoop; simp only [ih] <;> rfl
theorem encMapSint64Float_shape (oracle : Nat → Bytes) (field : Int) (enc : Buf) (m : Go.Map (GoVal .sint64) (GoVal .float)) :
    encMapSint64Float oracle field enc m = gEnc oracle wSint64 wFloat field enc m := by
  unfold encMapSint64Float gEnc; simp only [encMapSint64Float_loop]

theorem encMapSint64Double_loop (oracle : Nat → Bytes) (field : Int) : ∀ es enc, encMapSint64Double.loop1 oracle field es enc = gEncLoop oracle field wSint64 wDouble es enc := by
  intro es; induction es with
  | nil => intro enc; rfl
  | cons e es ih => intro enc; obtain ⟨key, val⟩ := e; unfold encMapSint64Double.loop1 gEncLoop; simp only [ih] <;> rfl
theorem encMapSint64Double_shape (oracle : Nat → Bytes) (field : Int) (enc : Buf) (m : Go.Map (GoVal .sint64) (GoVal .double)) :
    encMapSint64Double oracle field enc m = gEnc oracle wSint64 wDouble field enc m := by
  unfold encMapSint64Double gEnc; simp only [encMapSint64Double_loop]

theorem encMapSint64String_loop (oracle : Nat → Bytes) (field : Int) : ∀ es enc, encMapSint64String.loop1 oracle field es enc = gEncLoop oracle field wSint64 wString es enc := by
  intro es; induction es with
  | nil => intro enc; rfl
  | cons e es ih => intro enc; obtain ⟨key, val⟩ := e; unfold encMapSint64String.loop1 gEncLoop; simp only [ih] <;> rfl
theorem encMapSint64String_shape (oracle : Nat → Bytes) (field : Int) (enc : Buf) (m : Go.Map (GoVal .sint64) (GoVal .string)) :
    encMapSint64String oracle field enc m = gEnc oracle wSint64 wString field enc m := by
  unfold encMapSint64String gEnc; simp only [encMapSint64String_loop]

theorem encMapSint64Bytes_loop (oracle : Nat → Bytes) (field : Int) : ∀ es enc, encMapSint64Bytes.loop1 oracle field es enc = gEncLoop oracle field wSint64 wBytes es enc := by
  intro es; induction es with
  | nil => intro enc; rfl
  | cons e es ih => intro enc; obtain ⟨key, val⟩ := e; unfold encMapSint64Bytes.loop1 gEncLoop; simp only [ih] <;> rfl
theorem encMapSint64Bytes_shape (oracle : Nat → Bytes) (field : Int) (enc : Buf) (m : Go.Map (GoVal .sint64) (GoVal .bytes)) :
    encMapSint64Bytes oracle field enc m = gEnc oracle wSint64 wBytes field enc m := by
  unfold encMapSint64Bytes gEnc; simp only [encMapSint64Bytes_loop]

theorem encMapFixed32Bool_loop (oracle : Nat → Bytes) (field : Int) : ∀ es enc, encMapFixed32Bool.loop1 oracle field es enc = gEncLoop oracle field wFixed32 wBool es enc := by
  intro es; induction es with
  | nil => intro enc; rfl
  | cons e es ih => intro enc; obtain ⟨key, val⟩ := e; unfold encMapFixed32Bool.loop1 gEncLoop; simp only [ih] <;> rfl
theorem encMapFixed32Bool_shape (oracle : Nat → Bytes) (field : Int) (enc : Buf) (m : Go.Map (GoVal .fixed32) (GoVal .bool)) :
    encMapFixed32Bool oracle field enc m = gEnc oracle wFixed32 wBool field enc m := by
  unfold encMapFixed32Bool gEnc; simp only [encMapFixed32Bool_loop]

theorem encMapFixed32Int32_loop (oracle : Nat → Bytes) (field : Int) : ∀ es enc, encMapFixed32Int32.loop1 oracle field es enc = gEncLoop oracle field wFixed32 wInt32 es enc := by
  intro es; induction es with
  | nil => intro enc; rfl
  | cons e es ih => intro enc; obtain ⟨key, val⟩ := e; unfold encMapFixed32Int32.loop1 gEncLoop; simp only [ih] <;> rfl
theorem encMapFixed32Int32_shape (oracle : Nat → Bytes) (field : Int) (enc : Buf) (m : Go.Map (GoVal .fixed32) (GoVal .int32)) :
    encMapFixed32Int32 oracle field enc m = gEnc oracle wFixed32 wInt32 field enc m := by
  unfold encMapFixed32Int32 gEnc; simp only [encMapFixed32Int32_loop]

theorem encMapFixed32Int64_loop (oracle : Nat → Bytes) (field : Int) : ∀ es enc, encMapFixed32Int64.loop1 oracle field es enc = gEncLoop oracle field wFixed32 wInt64 es enc := by
  intro es; induction es with
  | nil => intro enc; rfl
  | cons e es ih => intro enc; obtain ⟨key, val⟩ := e; unfold encMapFixed32Int64.loop1 gEncLoop; simp only [ih] <;> rfl
theorem encMapFixed32Int64_shape (oracle : Nat → Bytes) (field : Int) (enc : Buf) (m : Go.Map (GoVal .fixed32) (GoVal .int64)) :
    encMapFixed32Int64 oracle field enc m = gEnc oracle wFixed32 wInt64 field enc m := by
  unfold encMapFixed32Int64 gEnc; simp only [encMapFixed32Int64_loop]

theorem encMapFixed32Uint32_loop (oracle : Nat → Bytes) (field : Int) : ∀ es enc, encMapFixed32Uint32.loop1 oracle field es enc = gEncLoop oracle field wFixed32 wUint32 es enc := by
  intro es; induction es with
  | nil => intro enc; rfl
  | cons e es ih => intro enc; obtain ⟨key, val⟩ := e; unfold encMapFixed32Uint32.loop1 gEncLoop; simp only [ih] <;> rfl
theorem encMapFixed32Uint32_shape (oracle : Nat → Bytes) (field : Int) (enc : Buf) (m : Go.Map (GoVal .fixed32) (GoVal .uint32)) :
    encMapFixed32Uint32 oracle field enc m = gEnc oracle wFixed32 wUint32 field enc m := by
  unfold encMapFixed32Uint32 gEnc; simp only [encMapFixed32Uint32_loop]

theorem encMapFixed32Uint64_loop (oracle : Nat → Bytes) (field : Int) : ∀ es enc, encMapFixed32Uint64.loop1 oracle field es enc = gEncLoop oracle field wFixed32 wUint64 es enc := by
  intro es; induction es with
  | nil => intro enc; rfl
  | cons e es ih => intro enc; obtain ⟨key, val⟩ := e; unfold encMapFixed32Uint64.loop1 gEncLoop; simp only [ih] <;> rfl
theorem encMapFixed32Uint64_shape (oracle : Nat → Bytes) (field : Int) (enc : Buf) (m : Go.Map (GoVal .fixed32) (GoVal .uint64)) :
    encMapFixed32Uint64 oracle field enc m = gEnc oracle wFixed32 wUint64 field enc m := by
  unfold encMapFixed32Uint64 gEnc; simp only [encMapFixed32Uint64_loop]

theorem encMapFixed32Sint32_loop (oracle : Nat → Bytes) (field : Int) : ∀ es enc, encMapFixed32Sint32.loop1 oracle field es enc = gEncLoop oracle field wFixed32 wSint32 es enc := by
  intro es; induction es with
  | nil => intro enc; rfl
  | cons e es ih => intro enc; obtain ⟨key, val⟩ := e; unfold encMapFixed32Sint32.loop1 gEncLoop; simp only [ih] <;> rfl
theorem encMapFixed32Sint32_shape (oracle : Nat → Bytes) (field : Int) (enc : Buf) (m : Go.Map (GoVal .fixed32) (GoVal .sint32)) :
    encMapFixed32Sint32 oracle field enc m = gEnc oracle wFixed32 wSint32 field enc m := by
  unfold encMapFixed32Sint32 gEnc; simp only [encMapFixed32Sint32_loop]

theorem encMapFixed32Sint64_loop (oracle : Nat → Bytes) (field : Int) : ∀ es enc, encMapFixed32Sint64.loop1 oracle field es enc = gEncLoop oracle field wFixed32 wSint64 es enc := by
  intro es; induction es with
  | nil => intro enc; rfl
  | cons e es ih => intro enc; obtain ⟨key, val⟩ := e; unfold encMapFixed32Sint64.loop1 gEncLoop; simp only [ih] <;> rfl
theorem encMapFixed32Sint64_shape (oracle : Nat → Bytes) (field : Int) (enc : Buf) (m : Go.Map (GoVal .fixed32) (GoVal .sint64)) :
    encMapFixed32Sint64 oracle field enc m = gEnc oracle wFixed32 wSint64 field enc m := by
  unfold encMapFixed32Sint64 gEnc; simp only [encMapFixed32Sint64_loop]

theorem encMapFixed32Fixed32_loop (oracle : Nat → Bytes) (field : Int) : ∀ es enc, encMapFixed32Fixed32.loop1 oracle field es enc = gEncLoop oracle field wFixed32 wFixed32 es enc := by
  intro es; induction es with
  | nil => intro enc; rfl
  | cons e es ih => intro enc; obtain ⟨key, val⟩ := e; unfold encMapFixed32Fixed32.loop1 gEncLoop; simp only [ih] <;> rfl
theorem encMapFixed32Fixed32_shape (oracle : Nat → Bytes) (field : Int) (enc : Buf) (m : Go.Map (GoVal .fixed32) (GoVal .fixed32)) :
    encMapFixed32Fixed32 oracle field enc m = gEnc oracle wFixed32 wFixed32 field enc m := by
  unfold encMapFixed32Fixed32 gEnc; simp only [encMapFixed32Fixed32_loop]

theorem encMapFixed32Fixed64_loop (oracle : Nat → Bytes) (field : Int) : ∀ es enc, encMapFixed32Fixed64.loop1 oracle field es enc = gEncLoop oracle field wFixed32 wFixed64 es enc := by
  intro es; induction es with
  | nil => intro enc; rfl
  | cons e es ih => intro enc; obtain ⟨key, val⟩ := e; unfold encMapFixed32Fixed64.loop1 gEncLoop; simp only [ih] <;> rfl
theorem encMapFixed32Fixed64_shape (oracle : Nat → Bytes) (field : Int) (enc : Buf) (m : Go.Map (GoVal .fixed32) (GoVal .fixed64)) :
    encMapFixed32Fixed64 oracle field enc m = gEnc oracle wFixed32 wFixed64 field enc m := by
  unfold encMapFixed32Fixed64 gEnc; simp only [encMapFixed32Fixed64_loop]

theorem encMapFixed32Sfixed32_loop (oracle : Nat → Bytes) (field : Int) : ∀ es enc, encMapFixed32Sfixed32.loop1 oracle field es enc = gEncLoop oracle field wFixed32 wSfixed32 es enc := by
  intro es; induction es with
  | nil => intro enc; rfl
  | cons e es ih => intro enc; obtain ⟨key, val⟩ := e; unfold encMapFixed32Sfixed32.loop1 gEncLoop; simp only [ih] <;> rfl
theorem encMapFixed32Sfixed32_shape (oracle : Nat → Bytes) (field : Int) (enc : Buf) (m : Go.Map (GoVal .fixed32) (GoVal .sfixed32)) :
    encMapFixed32Sfixed32 oracle field enc m = gEnc oracle wFixed32 wSfixed32 field enc m := by
  unfold encMapFixed32Sfixed32 gEnc; simp only [encMapFixed32Sfixed32_loop]

theorem encMapFixed32Sfixed64_loop (oracle : Nat → Bytes) (field : Int) : ∀ es enc, encMapFixed32Sfixed64.loop1 oracle field es enc = gEncLoop oracle field wFixed32 wSfixed64 es enc := by
  intro es; induction es with
  | nil => intro enc; rfl
  | cons e es ih => intro enc; obtain ⟨key, val⟩ := e; unfold encMapFixed32Sfixed64.loop1 gEncLoop; simp only [ih] <;> rfl
theorem encMapFixed32Sfixed64_shape (oracle : Nat → Bytes) (field : Int) (enc : Buf) (m : Go.Map (GoVal .fixed32) (GoVal .sfixed64)) :
    encMapFixed32Sfixed64 oracle field enc m = gEnc oracle wFixed32 wSfixed64 field enc m := by
  unfold encMapFixed32Sfixed64 gEnc; simp only [encMapFixed32Sfixed64_loop]

theorem encMapFixed32Float_loop (oracle : Nat → Bytes) (field : Int) : ∀ es enc, encMapFixed32Float.loop1 oracle field es enc = gEncLoop oracle field wFixed32 wFloat es enc := by
  intro es; induction es with
  | nil => intro enc; rfl
  | cons e es ih => intro enc; obtain ⟨key, val⟩ := e; unfold encMapFixed32Float.loop1 gEncLoop; simp only [ih] <;> rfl
theorem encMapFixed32Float_shape (oracle : Nat → Bytes) (field : Int) (enc : Buf) (m : Go.Map (GoVal .fixed32) (GoVal .float)) :
    encMapFixed32Float oracle field enc m = gEnc oracle wFixed32 wFloat field enc m := by
  unfold encMapFixed32Float gEnc; simp only [encMapFixed32Float_loop]

theorem encMapFixed32Double_loop (oracle : Nat → Bytes) (field : Int) : ∀ es enc, encMapFixed32Double.loop1 oracle field es enc = gEncLoop oracle field wFixed32 wDouble es enc := by
  intro es; induction es with
  | nil => intro enc; rfl
  | cons e es ih => intro enc; obtain ⟨key, val⟩ := e; unfold encMapFixed32Double.loop1 gEncLoop; simp only [ih] <;> rfl
theorem encMapFixed32Double_shape (oracle : Nat → Bytes) (field : Int) (enc : Buf) (m : Go.Map (GoVal .fixed32) (GoVal .double)) :
    encMapFixed32Double oracle field enc m = gEnc oracle wFixed32 wDouble field enc m := by
  unfold encMapFixed32Double gEnc; simp only [encMapFixed32Double_loop]

theorem encMapFixed32String_loop (oracle : Nat → Bytes) (field : Int) : ∀ es enc, encMapFixed32String.loop1 oracle field es enc = gEncLoop oracle field wFixed32 wString es enc := by
  intro es; induction es with
  | nil => intro enc; rfl
  | cons e es ih => intro enc; obtain ⟨key, val⟩ := e; unfold encMapFixed32String.loop1 gEncLoop; simp only [ih] <;> rfl
theorem encMapFixed32String_shape (oracle : Nat → Bytes) (field : Int) (enc : Buf) (m : Go.Map (GoVal .fixed32) (GoVal .string)) :
    encMapFixed32String oracle field enc m = gEnc oracle wFixed32 wString field enc m := by
  unfold encMapFixed32String gEnc; simp only [encMapFixed32String_loop]

theorem encMapFixed32Bytes_loop (oracle : Nat → Bytes) (field : Int) : ∀ es enc, encMapFixed32Bytes.loop1 oracle field es enc = gEncLoop oracle field wFixed32 wBytes es enc := by
  intro es; induction es with
  | nil => intro enc; rfl
  | cons e es ih => intro enc; obtain ⟨key, val⟩ := e; unfold encMapFixed32Bytes.loop1 gEncLoop; simp only [ih] <;> rfl
theorem encMapFixed32Bytes_shape (oracle : Nat → Bytes) (field : Int) (enc : Buf) (m : Go.Map (GoVal .fixed32) (GoVal .bytes)) :
    encMapFixed32Bytes oracle field enc m = gEnc oracle wFixed32 wBytes field enc m := by
  unfold encMapFixed32Bytes gEnc; simp only [encMapFixed32Bytes_loop]

theorem encMapFixed64Bool_loop (oracle : Nat → Bytes) (field : Int) : ∀ es enc, encMapFixed64Bool.loop1 oracle field es enc = gEncLoop oracle field wFixed64 wBool es enc := by
  intro es; induction es with
  | nil => intro enc; rfl
  | cons e es ih => intro enc; obtain ⟨key, val⟩ := e; unfold encMapFixed64Bool.loop1 gEncLoop; simp only [ih] <;> rfl
theorem encMapFixed64Bool_shape (oracle : Nat → Bytes) (field : Int) (enc : Buf) (m : Go.Map (GoVal .fixed64) (GoVal .bool)) :
    encMapFixed64Bool oracle field enc m = gEnc oracle wFixed64 wBool field enc m := by
  unfold encMapFixed64Bool gEnc; simp only [encMapFixed64Bool_loop]

theorem encMapFixed64Int32_loop (oracle : Nat → Bytes) (field : Int) : ∀ es enc, encMapFixed64Int32.loop1 oracle field es enc = gEncLoop oracle field wFixed64 wInt32 es enc := by
  intro es; induction es with
  | nil => intro enc; rfl
  | cons e es ih => intro enc; obtain ⟨key, val⟩ := e; unfold encMapFixed64Int32.loop1 gEncLoop; simp only [ih] <;> rfl
theorem encMapFixed64Int32_shape (oracle : Nat → Bytes) (field : Int) (enc : Buf) (m : Go.Map (GoVal .fixed64) (GoVal .int32)) :
    encMapFixed64Int32 oracle field enc m = gEnc oracle wFixed64 wInt32 field enc m := by
  unfold encMapFixed64Int32 gEnc; simp only [encMapFixed64Int32_loop]

theorem encMapFixed64Int64_loop (oracle : Nat → Bytes) (field : Int) : ∀ es enc, encMapFixed64Int64.loop1 oracle field es enc = gEncLoop oracle field wFixed64 wInt64 es enc := by
  intro es; induction es with
  | nil => intro enc; rfl
  | cons e es ih => intro enc; obtain ⟨key, val⟩ := e; unfold encMapFixed64Int64.loop1 gEncLoop; simp only [ih] <;> rfl
theorem encMapFixed64Int64_shape (oracle : Nat → Bytes) (field : Int) (enc : Buf) (m : Go.Map (GoVal .fixed64) (GoVal .int64)) :
    encMapFixed64Int64 oracle field enc m = gEnc oracle wFixed64 wInt64 field enc m := by
  unfold encMapFixed64Int64 gEnc; simp only [encMapFixed64Int64_loop]

theorem encMapFixed64Uint32_loop (oracle : Nat → Bytes) (field : Int) : ∀ es enc, encMapFixed64Uint32.loop1 oracle field es enc = gEncLoop oracle field wFixed64 wUint32 es enc := by
  intro es; induction es with
  | nil => intro enc; rfl
  | cons e es ih => intro enc; obtain ⟨key, val⟩ := e; unfold encMapFixed64Uint32.loop1 gEncLoop; simp only [ih] <;> rfl
theorem encMapFixed64Uint32_shape (oracle : Nat → Bytes) (field : Int) (enc : Buf) (m : Go.Map (GoVal .fixed64) (GoVal .uint32)) :
    encMapFixed64Uint32 oracle field enc m = gEnc oracle wFixed64 wUint32 field enc m := by
  unfold encMapFixed64Uint32 gEnc; simp only [encMapFixed64Uint32_loop]

theorem encMapFixed64Uint64_loop (oracle : Nat → Bytes) (field : Int) : ∀ es enc, encMapFixed64Uint64.loop1 oracle field es enc = gEncLoop oracle field wFixed64 wUint64 es enc := by
  intro es; induction es with
  | nil => intro enc; rfl
  | cons e es ih => intro enc; obtain ⟨key, val⟩ := e; unfold encMapFixed64Uint64.loop1 gEncLoop; simp only [ih] <;> rfl
theorem encMapFixed64Uint64_shape (oracle : Nat → Bytes) (field : Int) (enc : Buf) (m : Go.Map (GoVal .fixed64) (GoVal .uint64)) :
    encMapFixed64Uint64 oracle field enc m = gEnc oracle wFixed64 wUint64 field enc m := by
  unfold encMapFixed64Uint64 gEnc; simp only [encMapFixed64Uint64_loop]

theorem encMapFixed64Sint32_loop (oracle : Nat → Bytes) (field : Int) : ∀ es enc, encMapFixed64Sint32.loop1 oracle field es enc = gEncLoop oracle field wFixed64 wSint32 es enc := by
  intro es; induction es with
  | nil => intro enc; rfl
  | cons e es ih => intro enc; obtain ⟨key, val⟩ := e; unfold encMapFixed64Sint32.loop1 gEncLoop; simp only [ih] <;> rfl
theorem encMapFixed64Sint32_shape (oracle : Nat → Bytes) (field : Int) (enc : Buf) (m : Go.Map (GoVal .fixed64) (GoVal .sint32)) :
    encMapFixed64Sint32 oracle field enc m = gEnc oracle wFixed64 wSint32 field enc m := by
  unfold encMapFixed64Sint32 gEnc; simp only [encMapFixed64Sint32_loop]

theorem encMapFixed64Sint64_loop (oracle : Nat → Bytes) (field : Int) : ∀ es enc, encMapFixed64Sint64.loop1 oracle field es enc = gEncLoop oracle field wFixed64 wSint64 es enc := by
  intro es; induction es with
  | nil => intro enc; rfl
  | cons e es ih => intro enc; obtain ⟨key, val⟩ := e; unfold encMapFixed64Sint64.loop1 gEncLoop; simp only [ih] <;> rfl
theorem encMapFixed64Sint64_shape (oracle : Nat → Bytes) (field : Int) (enc : Buf) (m : Go.Map (GoVal .fixed64) (GoVal .sint64)) :
    encMapFixed64Sint64 oracle field enc m = gEnc oracle wFixed64 wSint64 field enc m := by
  unfold encMapFixed64Sint64 gEnc; simp only [encMapFixed64Sint64_loop]

theorem encMapFixed64Fixed32_loop (oracle : Nat → Bytes) (field : Int) : ∀ es enc, encMapFixed64Fixed32.loop1 oracle field es enc = gEncLoop oracle field wFixed64 wFixed32 es enc := by
  intro es; induction es with
  | nil => intro enc; rfl
  | cons e es ih => intro enc; obtain ⟨key, val⟩ := e; unfold encMapFixed64Fixed32.loop1 gEncLoop; simp only [ih] <;> rfl
theorem encMapFixed64Fixed32_shape (oracle : Nat → Bytes) (field : Int) (enc : Buf) (m : Go.Map (GoVal .fixed64) (GoVal .fixed32)) :
    encMapFixed64Fixed32 oracle field enc m = gEnc oracle wFixed64 wFixed32 field enc m := by
  unfold encMapFixed64Fixed32 gEnc; simp only [encMapFixed64Fixed32_loop]

theorem encMapFixed64Fixed64_loop (oracle : Nat → Bytes) (field : Int) : ∀ es enc, encMapFixed64Fixed64.loop1 oracle field es enc = gEncLoop oracle field wFixed64 wFixed64 es enc := by
  intro es; induction es with
  | nil => intro enc; rfl
  | cons e es ih => intro enc; obtain ⟨key, val⟩ := e; unfold encMapFixed64Fixed64.loop1 gEncLoop; simp only [ih] <;> rfl
theorem encMapFixed64Fixed64_shape (oracle : Nat → Bytes) (field : Int) (enc : Buf) (m : Go.Map (GoVal .fixed64) (GoVal .fixed64)) :
    encMapFixed64Fixed64 oracle field enc m = gEnc oracle wFixed64 wFixed64 field enc m := by
  unfold encMapFixed64Fixed64 gEnc; simp only [encMapFixed64Fixed64_loop]

theorem encMapFixed64Sfixed32_loop (oracle : Nat → Bytes) (field : Int) : ∀ es enc, encMapFixed64Sfixed32.loop1 oracle field es enc = gEncLoop oracle field wFixed64 wSfixed32 es enc := by
  intro es; induction es with
  | nil => intro enc; rfl
  | cons e es ih => intro enc; obtain ⟨key, val⟩ := e; unfold encMapFixed64Sfixed32.loop1 gEncLoop; simp only [ih] <;> rfl
theorem encMapFixed64Sfixed32_shape (oracle : Nat → Bytes) (field : Int) (enc : Buf) (m : Go.Map (GoVal .fixed64) (GoVal .sfixed32)) :
    encMapFixed64Sfixed32 oracle field enc m = gEnc oracle wFixed64 wSfixed32 field enc m := by
  unfold encMapFixed64Sfixed32 gEnc; simp only [encMapFixed64Sfixed32_loop]

theorem encMapFixed64Sfixed64_loop (oracle : Nat → Bytes) (field : Int) : ∀ es enc, encMapFixed64Sfixed64.loop1 oracle field es enc = gEncLoop oracle field wFixed64 wSfixed64 es enc := by
  intro es; induction es with
  | nil => intro enc; rfl
  | cons e es ih => intro enc; obtain ⟨key, val⟩ := e; unfold encMapFixed64Sfixed64.loop1 gEncLoop; simp only [ih] <;> rfl
theorem encMapFixed64Sfixed64_shape (oracle : Nat → Bytes) (field : Int) (enc : Buf) (m : Go.Map (GoVal .fixed64) (GoVal .sfixed64)) :
    encMapFixed64Sfixed64 oracle field enc m = gEnc oracle wFixed64 wSfixed64 field enc m := by
  unfold encMapFixed64Sfixed64 gEnc; simp only [encMapFixed64Sfixed64_loop]

theorem encMapFixed64Float_loop (oracle : Nat → Bytes) (field : Int) : ∀ es enc, encMapFixed64Float.loop1 oracle field es enc = gEncLoop oracle field wFixed64 wFloat es enc := by
  intro es; induction es with
  | nil => intro enc; rfl
  | cons e es ih => intro enc; obtain ⟨key, val⟩ := e; unfold encMapFixed64Float.loop1 gEncLoop; simp only [ih] <;> rfl
theorem encMapFixed64Float_shape (oracle : Nat → Bytes) (field : Int) (enc : Buf) (m : Go.Map (GoVal .fixed64) (GoVal .float)) :
    encMapFixed64Float oracle field enc m = gEnc oracle wFixed64 wFloat field enc m := by
  unfold encMapFixed64Float gEnc; simp only [encMapFixed64Float_loop]

theorem encMapFixed64Double_loop (oracle : Nat → Bytes) (field : Int) : ∀ es enc, encMapFixed64Double.loop1 oracle field es enc = gEncLoop oracle field wFixed64 wDouble es enc := by
  intro es; induction es with
  | nil => intro enc; rfl
  | cons e es ih => intro enc; obtain ⟨key, val⟩ := e; unfold encMapFixed64Double.loop1 gEncLoop; simp only [ih] <;> rfl
theorem encMapFixed64Double_shape (oracle : Nat → Bytes) (field : Int) (enc : Buf) (m : Go.Map (GoVal .fixed64) (GoVal .double)) :
    encMapFixed64Double oracle field enc m = gEnc oracle wFixed64 wDouble field enc m := by
  unfold encMapFixed64Double gEnc; simp only [encMapFixed64Double_loop]

theorem encMapFixed64String_loop (oracle : Nat → Bytes) (field : Int) : ∀ es enc, encMapFixed64String.loop1 oracle field es enc = gEncLoop oracle field wFixed64 wString es enc := by
  intro es; induction es with
  | nil => intro enc; rfl
  | cons e es ih => intro enc; obtain ⟨key, val⟩ := e; unfold encMapFixed64String.loop1 gEncLoop; simp only [ih] <;> rfl
theorem encMapFixed64String_shape (oracle : Nat → Bytes) (field : Int) (enc : Buf) (m : Go.Map (GoVal .fixed64) (GoVal .string)) :
    encMapFixed64String oracle field enc m = gEnc oracle wFixed64 wString field enc m := by
  unfold encMapFixed64String gEnc; simp only [encMapFixed64String_loop]

theorem encMapFixed64Bytes_loop (oracle : Nat → Bytes) (field : Int) : ∀ es enc, encMapFixed64Bytes.loop1 oracle field es enc = gEncLoop oracle field wFixed64 wBytes es enc := by
  intro es; induction es with
  | nil => intro enc; rfl
  | cons e es ih => intro enc; obtain ⟨key, val⟩ := e; unfold encMapFixed64Bytes.loop1 gEncLoop; simp only [ih] <;> rfl
theorem encMapFixed64Bytes_shape (oracle : Nat → Bytes) (field : Int) (enc : Buf) (m : Go.Map (GoVal .fixed64) (GoVal .bytes)) :
    encMapFixed64Bytes oracle field enc m = gEnc oracle wFixed64 wBytes field enc m := by
  unfold encMapFixed64Bytes gEnc; simp only [encMapFixed64Bytes_loop]

theorem encMapSfixed32Bool_loop (oracle : Nat → Bytes) (field : Int) : ∀ es enc, encMapSfixed32Bool.loop1 oracle field es enc = gEncLoop oracle field wSfixed32 wBool es enc := by
  intro es; induction es with
  | nil => intro enc; rfl
  | cons e es ih => intro enc; obtain ⟨key, val⟩ := e; unfold encMapSfixed32Bool.loop1 gEncLoop; simp only [ih] <;> rfl
theorem encMapSfixed32Bool_shape (oracle : Nat → Bytes) (field : Int) (enc : Buf) (m : Go.Map (GoVal .sfixed32) (GoVal .bool)) :
    encMapSfixed32Bool oracle field enc m = gEnc oracle wSfixed32 wBool field enc m := by
  unfold encMapSfixed32Bool gEnc; simp only [encMapSfixed32Bool_loop]

theorem encMapSfixed32Int32_loop (oracle : Nat → Bytes) (field : Int) : ∀ es enc, encMapSfixed32Int32.loop1 oracle field es enc = gEncLoop oracle field wSfixed32 wInt32 es enc := by
  intro es; induction es with
  | nil => intro enc; rfl
  | cons e es ih => intro enc; obtain ⟨key, val⟩ := e; unfold encMapSfixed32Int32.loop1 gEncLoop; simp only [ih] <;> rfl
theorem encMapSfixed32Int32_shape (oracle : Nat → Bytes) (field : Int) (enc : Buf) (m : Go.Map (GoVal .sfixed32) (GoVal .int32)) :
    encMapSfixed32Int32 oracle field enc m = gEnc oracle wSfixed32 wInt32 field enc m := by
  unfold encMapSfixed32Int32 gEnc; simp only [encMapSfixed32Int32_loop]

theorem encMapSfixed32Int64_loop (oracle : Nat → Bytes) (field : Int) : ∀ es enc, encMapSfixed32Int64.loop1 oracle field es enc = gEncLoop oracle field wSfixed32 wInt64 es enc := by
  intro es; induction es with
  | nil => intro enc; rfl
  | cons e es ih => intro enc; obtain ⟨key, val⟩ := e; unfold encMapSfixed32Int64.loop1 gEncLoop; simp only [ih] <;> rfl
theorem encMapSfixed32Int64_shape (oracle : Nat → Bytes) (field : Int) (enc : Buf) (m : Go.Map (GoVal .sfixed32) (GoVal .int64)) :
    encMapSfixed32Int64 oracle field enc m = gEnc oracle wSfixed32 wInt64 field enc m := by
  unfold encMapSfixed32Int64 gEnc; simp only [encMapSfixed32Int64_loop]

theorem encMapSfixed32Uint32_loop (oracle : Nat → Bytes) (field : Int) : ∀ es enc, encMapSfixed32Uint32.loop1 oracle field es enc = gEncLoop oracle field wSfixed32 wUint32 es enc := by
  intro es; induction es with
  | nil => intro enc; rfl
  | cons e es ih => intro enc; obtain ⟨key, val⟩ := e; unfold encMapSfixed32Uint32.loop1 gEncLoop; simp only [ih] <;> rfl
theorem encMapSfixed32Uint32_shape (oracle : Nat → Bytes) (field : Int) (enc : Buf) (m : Go.Map (GoVal .sfixed32) (GoVal .uint32)) :
    encMapSfixed32Uint32 oracle field enc m = gEnc oracle wSfixed32 wUint32 field enc m := by
  unfold encMapSfixed32Uint32 gEnc; simp only [encMapSfixed32Uint32_loop]

theorem encMapSfixed32Uint64_loop (oracle : Nat → Bytes) (field : Int) : ∀ es enc, encMapSfixed32Uint64.loop1 oracle field es enc = gEncLoop oracle field wSfixed32 wUint64 es enc := by
  intro es; induction es with
  | nil => intro enc; rfl
  | cons e es ih => intro enc; obtain ⟨key, val⟩ := e; unfold encMapSfixed32Uint64.loop1 gEncLoop; simp only [ih] <;> rfl
theorem encMapSfixed32Uint64_shape (oracle : Nat → Bytes) (field : Int) (enc : Buf) (m : Go.Map (GoVal .sfixed32) (GoVal .uint64)) :
    encMapSfixed32Uint64 oracle field enc m = gEnc oracle wSfixed32 wUint64 field enc m := by
  unfold encMapSfixed32Uint64 gEnc; simp only [encMapSfixed32Uint64_loop]

theorem encMapSfixed32Sint32_loop (oracle : Nat → Bytes) (field : Int) : ∀ es enc, encMapSfixed32Sint32.loop1 oracle field es enc = gEncLoop oracle field wSfixed32 wSint32 es enc := by
  intro es; induction es with
  | nil => intro enc; rfl
  | cons e es ih => intro enc; obtain ⟨key, val⟩ := e; unfold encMapSfixed32Sint32.loop1 gEncLoop; simp only [ih] <;> rfl
theorem encMapSfixed32Sint32_shape (oracle : Nat → Bytes) (field : Int) (enc : Buf) (m : Go.Map (GoVal .sfixed32) (GoVal .sint32)) :
    encMapSfixed32Sint32 oracle field enc m = gEnc oracle wSfixed32 wSint32 field enc m := by
  unfold encMapSfixed32Sint32 gEnc; simp only [encMapSfixed32Sint32_loop]

theorem encMapSfixed32Sint64_loop (oracle : Nat → Bytes) (field : Int) : ∀ es enc, encMapSfixed32Sint64.loop1 oracle field es enc = gEncLoop oracle field wSfixed32 wSint64 es enc := by
  intro es; induction es with
  | nil => intro enc; rfl
  | cons e es ih => intro enc; obtain ⟨key, val⟩ := e; unfold encMapSfixed32Sint64.loop1 gEncLoop; simp only [ih] <;> rfl
theorem encMapSfixed32Sint64_shape (oracle : Nat → Bytes) (field : Int) (enc : Buf) (m : Go.Map (GoVal .sfixed32) (GoVal .sint64)) :
    encMapSfixed32Sint64 oracle field enc m = gEnc oracle wSfixed32 wSint64 field enc m := by
  unfold encMapSfixed32Sint64 gEnc; simp only [encMapSfixed32Sint64_loop]

theorem encMapSfixed32Fixed32_loop (oracle : Nat → Bytes) (field : Int) : ∀ es enc, encMapSfixed32Fixed32.loop1 oracle field es enc = gEncLoop oracle field wSfixed32 wFixed32 es enc := by
  intro es; induction es with
  | nil => intro enc; rfl
  | cons e es ih => intro enc; obtain ⟨key, val⟩ := e; unfold encMapSfixed32Fixed32.loop1 gEncLoop; simp only [ih] <;> rfl
theorem encMapSfixed32Fixed32_shape (oracle : Nat → Bytes) (field : Int) (enc : Buf) (m : Go.Map (GoVal .sfixed32) (GoVal .fixed32)) :
    encMapSfixed32Fixed32 oracle field enc m = gEnc oracle wSfixed32 wFixed32 field enc m := by
  unfold encMapSfixed32Fixed32 gEnc; simp only [encMapSfixed32Fixed32_loop]

theorem encMapSfixed32Fixed64_loop (oracle : Nat → Bytes) (field : Int) : ∀ es enc, encMapSfixed32Fixed64.loop1 oracle field es enc = gEncLoop oracle field wSfixed32 wFixed64 es enc := by
  intro es; induction es with
  | nil => intro enc; rfl
  | cons e es ih => intro enc; obtain ⟨key, val⟩ := e; unfold encMapSfixed32Fixed64.loop1 gEncLoop; simp only [ih] <;> rfl
theorem encMapSfixed32Fixed64_shape (oracle : Nat → Bytes) (field : Int) (enc : Buf) (m : Go.Map (GoVal .sfixed32) (GoVal .fixed64)) :
    encMapSfixed32Fixed64 oracle field enc m = gEnc oracle wSfixed32 wFixed64 field enc m := by
  unfold encMapSfixed32Fixed64 gEnc; simp only [encMapSfixed32Fixed64_loop]

theorem encMapSfixed32Sfixed32_loop (oracle : Nat → Bytes) (field : Int) : ∀ es enc, encMapSfixed32Sfixed32.loop1 oracle field es enc = gEncLoop oracle field wSfixed32 wSfixed32 es enc := by
  intro es; induction es with
  | nil => intro enc; rfl
  | cons e es ih => intro enc; obtain ⟨key, val⟩ := e; unfold encMapSfixed32Sfixed32.loop1 gEncLoop; simp only [ih] <;> rfl
theorem encMapSfixed32Sfixed32_shape (oracle : Nat → Bytes) (field : Int) (enc : Buf) (m : Go.Map (GoVal .sfixed32) (GoVal .sfixed32)) :
    encMapSfixed32Sfixed32 oracle field enc m = gEnc oracle wSfixed32 wSfixed32 field enc m := by
  unfold encMapSfixed32Sfixed32 gEnc; simp only [encMapSfixed32Sfixed32_loop]

theorem encMapSfixed32Sfixed64_loop (oracle : Nat → Bytes) (field : Int) : ∀ es enc, encMapSfixed32Sfixed64.loop1 oracle field es enc = gEncLoop oracle field wSfixed32 wSfixed64 es enc := by
  intro es; induction es with
  | nil => intro enc; rfl
  | cons e es ih => intro enc; obtain ⟨key, val⟩ := e; unfold encMapSfixed32Sfixed64.loop1 gEncLoop; simp only [ih] <;> rfl
theorem encMapSfixed32Sfixed64_shape (oracle : Nat → Bytes) (field : Int) (enc : Buf) (m : Go.Map (GoVal .sfixed32) (GoVal .sfixed64)) :
    encMapSfixed32Sfixed64 oracle field enc m = gEnc oracle wSfixed32 wSfixed64 field enc m := by
  unfold encMapSfixed32Sfixed64 gEnc; simp only [encMapSfixed32Sfixed64_loop]

theorem encMapSfixed32Float_loop (oracle : Nat → Bytes) (field : Int) : ∀ es enc, encMapSfixed32Float.loop1 oracle field es enc = gEncLoop oracle field wSfixed32 wFloat es enc := by
  intro es; induction es with
  | nil => intro enc; rfl
  | cons e es ih => intro enc; obtain ⟨key, val⟩ := e; unfold encMapSfixed32Float.loop1 gEncLoop; simp only [ih] <;> rfl
theorem encMapSfixed32Float_shape (oracle : Nat → Bytes) (field : Int) (enc : Buf) (m : Go.Map (GoVal .sfixed32) (GoVal .float)) :
    encMapSfixed32Float oracle field enc m = gEnc oracle wSfixed32 wFloat field enc m := by
  unfold encMapSfixed32Float gEnc; simp only [encMapSfixed32Float_loop]

theorem encMapSfixed32Double_loop (oracle : Nat → Bytes) (field : Int) : ∀ es enc, encMapSfixed32Double.loop1 oracle field es enc = gEncLoop oracle field wSfixed32 wDouble es enc := by
  intro es; induction es with
  | nil => intro enc; rfl
  | cons e es ih => intro enc; obtain ⟨key, val⟩ := e; unfold encMapSfixed32Double.loop1 gEncLoop; simp only [ih] <;> rfl
theorem encMapSfixed32Double_shape (oracle : Nat → Bytes) (field : Int) (enc : Buf) (m : Go.Map (GoVal .sfixed32) (GoVal .double)) :
    encMapSfixed32Double oracle field enc m = gEnc oracle wSfixed32 wDouble field enc m := by
  unfold encMapSfixed32Double gEnc; simp only [encMapSfixed32Double_loop]

theorem encMapSfixed32String_loop (oracle : Nat → Bytes) (field : Int) : ∀ es enc, encMapSfixed32String.loop1 oracle field es enc = gEncLoop oracle field wSfixed32 wString es enc := by
  intro es; induction es with
  | nil => intro enc; rfl
  | cons e es ih => intro enc; obtain ⟨key, val⟩ := e; unfold encMapSfixed32String.loop1 gEncLoop; simp only [ih] <;> rfl
theorem encMapSfixed32String_shape (oracle : Nat → Bytes) (field : Int) (enc : Buf) (m : Go.Map (GoVal .sfixed32) (GoVal .string)) :
    encMapSfixed32String oracle field enc m = gEnc oracle wSfixed32 wString field enc m := by
  unfold encMapSfixed32String gEnc; simp only [encMapSfixed32String_loop]

theorem encMapSfixed32Bytes_loop (oracle : Nat → Bytes) (field : Int) : ∀ es enc, encMapSfixed32Bytes.loop1 oracle field es enc = gEncLoop oracle field wSfixed32 wBytes es enc := by
  intro es; induction es with
  | nil => intro enc; rfl
  | cons e es ih => intro enc; obtain ⟨key, val⟩ := e; unfold encMapSfixed32Bytes.loop1 gEncLoop; simp only [ih] <;> rfl
theorem encMapSfixed32Bytes_shape (oracle : Nat → Bytes) (field : Int) (enc : Buf) (m : Go.Map (GoVal .sfixed32) (GoVal .bytes)) :
    encMapSfixed32Bytes oracle field enc m = gEnc oracle wSfixed32 wBytes field enc m := by
  unfold encMapSfixed32Bytes gEnc; simp only [encMapSfixed32Bytes_loop]

theorem encMapSfixed64Bool_loop (oracle : Nat → Bytes) (field : Int) : ∀ es enc, encMapSfixed64Bool.loop1 oracle field es enc = gEncLoop oracle field wSfixed64 wBool es enc := by
  intro es; induction es with
  | nil => intro enc; rfl
  | cons e es ih => intro enc; obtain ⟨key, val⟩ := e; unfold encMapSfixed64Bool.loop1 gEncLoop; simp only [ih] <;> rfl
theorem encMapSfixed64Bool_shape (oracle : Nat → Bytes) (field : Int) (enc : Buf) (m : Go.Map (GoVal .sfixed64) (GoVal .bool)) :
    encMapSfixed64Bool oracle field enc m = gEnc oracle wSfixed64 wBool field enc m := by
  unfold encMapSfixed64Bool gEnc; simp only [encMapSfixed64Bool_loop]

theorem encMapSfixed64Int32_loop (oracle : Nat → Bytes) (field : Int) : ∀ es enc, encMapSfixed64Int32.loop1 oracle field es enc = gEncLoop oracle field wSfixed64 wInt32 es enc := by
  intro es; induction es with
  | nil => intro enc; rfl
  | cons e es ih => intro enc; obtain ⟨key, val⟩ := e; unfold encMapSfixed64Int32.loop1 gEncLoop; simp only [ih] <;> rfl
theorem encMapSfixed64Int32_shape (oracle : Nat → Bytes) (field : Int) (enc : Buf) (m : Go.Map (GoVal .sfixed64) (GoVal .int32)) :
    encMapSfixed64Int32 oracle field enc m = gEnc oracle wSfixed64 wInt32 field enc m := by
  unfold encMapSfixed64Int32 gEnc; simp only [encMapSfixed64Int32_loop]

theorem encMapSfixed64Int64_loop (oracle : Nat → Bytes) (field : Int) : ∀ es enc, encMapSfixed64Int64.loop1 oracle field es enc = gEncLoop oracle field wSfixed64 wInt64 es enc := by
  intro es; induction es with
  | nil => intro enc; rfl
  | cons e es ih => intro enc; obtain ⟨key, val⟩ := e; unfold encMapSfixed64Int64.loop1 gEncLoop; simp only [ih] <;> rfl
theorem encMapSfixed64Int64_shape (oracle : Nat → Bytes) (field : Int) (enc : Buf) (m : Go.Map (GoVal .sfixed64) (GoVal .int64)) :
    encMapSfixed64Int64 oracle field enc m = gEnc oracle wSfixed64 wInt64 field enc m := by
  unfold encMapSfixed64Int64 gEnc; simp only [encMapSfixed64Int64_loop]

theorem encMapSfixed64Uint32_loop (oracle : Nat → Bytes) (field : Int) : ∀ es enc, encMapSfixed64Uint32.loop1 oracle field es enc = gEncLoop oracle field wSfixed64 wUint32 es enc := by
  intro es; induction es with
  | nil => intro enc; rfl
  | cons e es ih => intro enc; obtain ⟨key, val⟩ := e; unfold encMapSfixed64Uint32.loop1 gEncLoop; simp only [ih] <;> rfl
theorem encMapSfixed64Uint32_shape (oracle : Nat → Bytes) (field : Int) (enc : Buf) (m : Go.Map (GoVal .sfixed64) (GoVal .uint32)) :
    encMapSfixed64Uint32 oracle field enc m = gEnc oracle wSfixed64 wUint32 field enc m := by
  unfold encMapSfixed64Uint32 gEnc; simp only [encMapSfixed64Uint32_loop]

theorem encMapSfixed64Uint64_loop (oracle : Nat → Bytes) (field : Int) : ∀ es enc, encMapSfixed64Uint64.loop1 oracle field es enc = gEncLoop oracle field wSfixed64 wUint64 es enc := by
  intro es; induction es with
  | nil => intro enc; rfl
  | cons e es ih => intro enc; obtain ⟨key, val⟩ := e; unfold encMapSfixed64Uint64.loop1 gEncLoop; simp only [ih] <;> rfl
theorem encMapSfixed64Uint64_shape (oracle : Nat → Bytes) (field : Int) (enc : Buf) (m : Go.Map (GoVal .sfixed64) (GoVal .uint64)) :
    encMapSfixed64Uint64 oracle field enc m = gEnc oracle wSfixed64 wUint64 field enc m := by
  unfold encMapSfixed64Uint64 gEnc; simp only [encMapSfixed64Uint64_loop]

theorem encMapSfixed64Sint32_loop (oracle : Nat → Bytes) (field : Int) : ∀ es enc, encMapSfixed64Sint32.loop1 oracle field es enc = gEncLoop oracle field wSfixed64 wSint32 es enc := by
  intro es; induction es with
  | nil => intro enc; rfl
  | cons e es ih => intro enc; obtain ⟨key, val⟩ := e; unfold encMapSfixed64Sint32.loop1 gEncLoop; simp only [ih] <;> rfl
theorem encMapSfixed64Sint32_shape (oracle : Nat → Bytes) (field : Int) (enc : Buf) (m : Go.Map (GoVal .sfixed64) (GoVal .sint32)) :
    encMapSfixed64Sint32 oracle field enc m = gEnc oracle wSfixed64 wSint32 field enc m := by
  unfold encMapSfixed64Sint32 gEnc; simp only [encMapSfixed64Sint32_loop]

theorem encMapSfixed64Sint64_loop (oracle : Nat → Bytes) (field : Int) : ∀ es enc, encMapSfixed64Sint64.loop1 oracle field es enc = gEncLoop oracle field wSfixed64 wSint64 es enc := by
  intro es; induction es with
  | nil => intro enc; rfl
  | cons e es ih => intro enc; obtain ⟨key, val⟩ := e; unfold encMapSfixed64Sint64.loop1 gEncLoop; simp only [ih] <;> rfl
theorem encMapSfixed64Sint64_shape (oracle : Nat → Bytes) (field : Int) (enc : Buf) (m : Go.Map (GoVal .sfixed64) (GoVal .sint64)) :
    encMapSfixed64Sint64 oracle field enc m = gEnc oracle wSfixed64 wSint64 field enc m := by
  unfold encMapSfixed64Sint64 gEnc; simp only [encMapSfixed64Sint64_loop]

theorem encMapSfixed64Fixed32_loop (oracle : Nat → Bytes) (field : Int) : ∀ es enc, encMapSfixed64Fixed32.loop1 oracle field es enc = gEncLoop oracle field wSfixed64 wFixed32 es enc := by
  intro es; induction es with
  | nil => intro enc; rfl
  | cons e es ih => intro enc; obtain ⟨key, val⟩ := e; unfold encMapSfixed64Fixed32.loop1 gEncLoop; simp only [ih] <;> rfl
theorem encMapSfixed64Fixed32_shape (oracle : Nat → Bytes) (field : Int) (enc : Buf) (m : Go.Map (GoVal .sfixed64) (GoVal .fixed32)) :
    encMapSfixed64Fixed32 oracle field enc m = gEnc oracle wSfixed64 wFixed32 field enc m := by
  unfold encMapSfixed64Fixed32 gEnc; simp only [encMapSfixed64Fixed32_loop]

theorem encMapSfixed64Fixed64_loop (oracle : Nat → Bytes) (field : Int) : ∀ es enc, encMapSfixed64Fixed64.loop1 oracle field es enc = gEncLoop oracle field wSfixed64 wFixed64 es enc := by
  intro es; induction es with
  | nil => intro enc; rfl
  | cons e es ih => intro enc; obtain ⟨key, val⟩ := e; unfold encMapSfixed64Fixed64.loop1 gEncLoop; simp only [ih] <;> rfl
theorem encMapSfixed64Fixed64_shape (oracle : Nat → Bytes) (field : Int) (enc : Buf) (m : Go.Map (GoVal .sfixed64) (GoVal .fixed64)) :
    encMapSfixed64Fixed64 oracle field enc m = gEnc oracle wSfixed64 wFixed64 field enc m := by
  unfold encMapSfixed64Fixed64 gEnc; simp only [encMapSfixed64Fixed64_loop]

theorem encMapSfixed64Sfixed32_loop (oracle : Nat → Bytes) (field : Int) : ∀ es enc, encMapSfixed64Sfixed32.loop1 oracle field es enc = gEncLoop oracle field wSfixed64 wSfixed32 es enc := by
  intro es; induction es with
  | nil => intro enc; rfl
  | cons e es ih => intro enc; obtain ⟨key, val⟩ := e; unfold encMapSfixed64Sfixed32.loop1 gEncLoop; simp only [ih] <;> rfl
theorem encMapSfixed64Sfixed32_shape (oracle : Nat → Bytes) (field : Int) (enc : Buf) (m : Go.Map (GoVal .sfixed64) (GoVal .sfixed32)) :
    encMapSfixed64Sfixed32 oracle field enc m = gEnc oracle wSfixed64 wSfixed32 field enc m := by
  unfold encMapSfixed64Sfixed32 gEnc; simp only [encMapSfixed64Sfixed32_loop]

theorem encMapSfixed64Sfixed64_loop (oracle : Nat → Bytes) (field : Int) : ∀ es enc, encMapSfixed64Sfixed64.loop1 oracle field es enc = gEncLoop oracle field wSfixed64 wSfixed64 es enc := by
  intro es; induction es with
  | nil => intro enc; rfl
  | cons e es ih => intro enc; obtain ⟨key, val⟩ := e; unfold encMapSfixed64Sfixed64.loop1 gEncLoop; simp only [ih] <;> rfl
theorem encMapSfixed64Sfixed64_shape (oracle : Nat → Bytes) (field : Int) (enc : Buf) (m : Go.Map (GoVal .sfixed64) (GoVal .sfixed64)) :
    encMapSfixed64Sfixed64 oracle field enc m = gEnc oracle wSfixed64 wSfixed64 field enc m := by
  unfold encMapSfixed64Sfixed64 gEnc; simp only [encMapSfixed64Sfixed64_loop]

theorem encMapSfixed64Float_loop (oracle : Nat → Bytes) (field : Int) : ∀ es enc, encMapSfixed64Float.loop1 oracle field es enc = gEncLoop oracle field wSfixed64 wFloat es enc := by
  intro es; induction es with
  | nil => intro enc; rfl
  | cons e es ih => intro enc; obtain ⟨key, val⟩ := e; unfold encMapSfixed64Float.loop1 gEncLoop; simp only [ih] <;> rfl
theorem encMapSfixed64Float_shape (oracle : Nat → Bytes) (field : Int) (enc : Buf) (m : Go.Map (GoVal .sfixed64) (GoVal .float)) :
    encMapSfixed64Float oracle field enc m = gEnc oracle wSfixed64 wFloat field enc m := by
  unfold encMapSfixed64Float gEnc; simp only [encMapSfixed64Float_loop]

theorem encMapSfixed64Double_loop (oracle : Nat → Bytes) (field : Int) : ∀ es enc, encMapSfixed64Double.loop1 oracle field es enc = gEncLoop oracle field wSfixed64 wDouble es enc := by
  intro es; induction es with
  | nil => intro enc; rfl
  | cons e es ih => intro enc; obtain ⟨key, val⟩ := e; unfold encMapSfixed64Double.loop1 gEncLoop; simp only [ih] <;> rfl
theorem encMapSfixed64Double_shape (oracle : Nat → Bytes) (field : Int) (enc : Buf) (m : Go.Map (GoVal .sfixed64) (GoVal .double)) :
    encMapSfixed64Double oracle field enc m = gEnc oracle wSfixed64 wDouble field enc m := by
  unfold encMapSfixed64Double gEnc; simp only [encMapSfixed64Double_loop]

theorem encMapSfixed64String_loop (oracle : Nat → Bytes) (field : Int) : ∀ es enc, encMapSfixed64String.loop1 oracle field es enc = gEncLoop oracle field wSfixed64 wString es enc := by
  intro es; induction es with
  | nil => intro enc; rfl
  | cons e es ih => intro enc; obtain ⟨key, val⟩ := e; unfold encMapSfixed64String.loop1 gEncLoop; simp only [ih] <;> rfl
theorem encMapSfixed64String_shape (oracle : Nat → Bytes) (field : Int) (enc : Buf) (m : Go.Map (GoVal .sfixed64) (GoVal .string)) :
    encMapSfixed64String oracle field enc m = gEnc oracle wSfixed64 wString field enc m := by
  unfold encMapSfixed64String gEnc; simp only [encMapSfixed64String_loop]

theorem encMapSfixed64Bytes_loop (oracle : Nat → Bytes) (field : Int) : ∀ es enc, encMapSfixed64Bytes.loop1 oracle field es enc = gEncLoop oracle field wSfixed64 wBytes es enc := by
  intro es; induction es with
  | nil => intro enc; rfl
  | cons e es ih => intro enc; obtain ⟨key, val⟩ := e; unfold encMapSfixed64Bytes.loop1 gEncLoop; simp only [ih] <;> rfl
theorem encMapSfixed64Bytes_shape (oracle : Nat → Bytes) (field : Int) (enc : Buf) (m : Go.Map (GoVal .sfixed64) (GoVal .bytes)) :
    encMapSfixed64Bytes oracle field enc m = gEnc oracle wSfixed64 wBytes field enc m := by
  unfold encMapSfixed64Bytes gEnc; simp only [encMapSfixed64Bytes_loop]

theorem encMapStringBool_loop (oracle : Nat → Bytes) (field : Int) : ∀ es enc, encMapStringBool.loop1 oracle field es enc = gEncLoop oracle field wString wBool es enc := by
  intro es; induction es with
  | nil => intro enc; rfl
  | cons e es ih => intro enc; obtain ⟨key, val⟩ := e; unfold encMapStringBool.loop1 gEncLoop; simp only [ih] <;> rfl
theorem encMapStringBool_shape (oracle : Nat → Bytes) (field : Int) (enc : Buf) (m : Go.Map (GoVal .string) (GoVal .bool)) :
    encMapStringBool oracle field enc m = gEnc oracle wString wBool field enc m := by
  unfold encMapStringBool gEnc; simp only [encMapStringBool_loop]

theorem encMapStringInt32_loop (oracle : Nat → Bytes) (field : Int) : ∀ es enc, encMapStringInt32.loop1 oracle field es enc = gEncLoop oracle field wString wInt32 es enc := by
  intro es; induction es with
  | nil => intro enc; rfl
  | cons e es ih => intro enc; obtain ⟨key, val⟩ := e; unfold encMapStringInt32.loop1 gEncLoop; simp only [ih] <;> rfl
theorem encMapStringInt32_shape (oracle : Nat → Bytes) (field : Int) (enc : Buf) (m : Go.Map (GoVal .string) (GoVal .int32)) :
    encMapStringInt32 oracle field enc m = gEnc oracle wString wInt32 field enc m := by
  unfold encMapStringInt32 gEnc; simp only [encMapStringInt32_loop]

theorem encMapStringInt64_loop (oracle : Nat → Bytes) (field : Int) : ∀ es enc, encMapStringInt64.loop1 oracle field es enc = gEncLoop oracle field wString wInt64 es enc := by
  intro es; induction es with
  | nil => intro enc; rfl
  | cons e es ih => intro enc; obtain ⟨key, val⟩ := e; unfold encMapStringInt64.loop1 gEncLoop; simp only [ih] <;> rfl
theorem encMapStringInt64_shape (oracle : Nat → Bytes) (field : Int) (enc : Buf) (m : Go.Map (GoVal .string) (GoVal .int64)) :
    encMapStringInt64 oracle field enc m = gEnc oracle wString wInt64 field enc m := by
  unfold encMapStringInt64 gEnc; simp only [encMapStringInt64_loop]

theorem encMapStringUint32_loop (oracle : Nat → Bytes) (field : Int) : ∀ es enc, encMapStringUint32.loop1 oracle field es enc = gEncLoop oracle field wString wUint32 es enc := by
  intro es; induction es with
  | nil => intro enc; rfl
  | cons e es ih => intro enc; obtain ⟨key, val⟩ := e; unfold encMapStringUint32.loop1 gEncLoop; simp only [ih] <;> rfl
theorem encMapStringUint32_shape (oracle : Nat → Bytes) (field : Int) (enc : Buf) (m : Go.Map (GoVal .string) (GoVal .uint32)) :
    encMapStringUint32 oracle field enc m = gEnc oracle wString wUint32 field enc m := by
  unfold encMapStringUint32 gEnc; simp only [encMapStringUint32_loop]

theorem encMapStringUint64_loop (oracle : Nat → Bytes) (field : Int) : ∀ es enc, encMapStringUint64.loop1 oracle field es enc = gEncLoop oracle field wString wUint64 es enc := by
  intro es; induction es with
  | nil => intro enc; rfl
  | cons e es ih => intro enc; obtain ⟨key, val⟩ := e; unfold encMapStringUint64.loop1 gEncLoop; simp only [ih] <;> rfl
theorem encMapStringUint64_shape (oracle : Nat → Bytes) (field : Int) (enc : Buf) (m : Go.Map (GoVal .string) (GoVal .uint64)) :
    encMapStringUint64 oracle field enc m = gEnc oracle wString wUint64 field enc m := by
  unfold encMapStringUint64 gEnc; simp only [encMapStringUint64_loop]

theorem encMapStringSint32_loop (oracle : Nat → Bytes) (field : Int) : ∀ es enc, encMapStringSint32.loop1 oracle field es enc = gEncLoop oracle field wString wSint32 es enc := by
  intro es; induction es with
  | nil => intro enc; rfl
  | cons e es ih => intro enc; obtain ⟨key, val⟩ := e; unfold encMapStringSint32.loop1 gEncLoop; simp only [ih] <;> rfl
theorem encMapStringSint32_shape (oracle : Nat → Bytes) (field : Int) (enc : Buf) (m : Go.Map (GoVal .string) (GoVal .sint32)) :
    encMapStringSint32 oracle field enc m = gEnc oracle wString wSint32 field enc m := by
  unfold encMapStringSint32 gEnc; simp only [encMapStringSint32_loop]

theorem encMapStringSint64_loop (oracle : Nat → Bytes) (field : Int) : ∀ es enc, encMapStringSint64.loop1 oracle field es enc = gEncLoop oracle field wString wSint64 es enc := by
  intro es; induction es with
  | nil => intro enc; rfl
  | cons e es ih => intro enc; obtain ⟨key, val⟩ := e; unfold encMapStringSint64.loop1 gEncLoop; simp only [ih] <;> rfl
theorem encMapStringSint64_shape (oracle : Nat → Bytes) (field : Int) (enc : Buf) (m : Go.Map (GoVal .string) (GoVal .sint64)) :
    encMapStringSint64 oracle field enc m = gEnc oracle wString wSint64 field enc m := by
  unfold encMapStringSint64 gEnc; simp only [encMapStringSint64_loop]

theorem encMapStringFixed32_loop (oracle : Nat → Bytes) (field : Int) : ∀ es enc, encMapStringFixed32.loop1 oracle field es enc = gEncLoop oracle field wString wFixed32 es enc := by
  intro es; induction es with
  | nil => intro enc; rfl
  | cons e es ih => intro enc; obtain ⟨key, val⟩ := e; unfold encMapStringFixed32.loop1 gEncLoop; simp only [ih] <;> rfl
theorem encMapStringFixed32_shape (oracle : Nat → Bytes) (field : Int) (enc : Buf) (m : Go.Map (GoVal .string) (GoVal .fixed32)) :
    encMapStringFixed32 oracle field enc m = gEnc oracle wString wFixed32 field enc m := by
  unfold encMapStringFixed32 gEnc; simp only [encMapStringFixed32_loop]

theorem encMapStringFixed64_loop (oracle : Nat → Bytes) (field : Int) : ∀ es enc, encMapStringFixed64.loop1 oracle field es enc = gEncLoop oracle field wString wFixed64 es enc := by
  intro es; induction es with
  | nil => intro enc; rfl
  | cons e es ih => intro enc; obtain ⟨key, val⟩ := e; unfold encMapStringFixed64.loop1 gEncLoop; simp only [ih] <;> rfl
theorem encMapStringFixed64_shape (oracle : Nat → Bytes) (field : Int) (enc : Buf) (m : Go.Map (GoVal .string) (GoVal .fixed64)) :
    encMapStringFixed64 oracle field enc m = gEnc oracle wString wFixed64 field enc m := by
  unfold encMapStringFixed64 gEnc; simp only [encMapStringFixed64_loop]

theorem encMapStringSfixed32_loop (oracle : Nat → Bytes) (field : Int) : ∀ es enc, encMapStringSfixed32.loop1 oracle field es enc = gEncLoop oracle field wString wSfixed32 es enc := by
  intro es; induction es with
  | nil => intro enc; rfl
  | cons e es ih => intro enc; obtain ⟨key, val⟩ := e; unfold encMapStringSfixed32.loop1 gEncLoop; simp only [ih] <;> rfl
theorem encMapStringSfixed32_shape (oracle : Nat → Bytes) (field : Int) (enc : Buf) (m : Go.Map (GoVal .string) (GoVal .sfixed32)) :
    encMapStringSfixed32 oracle field enc m = gEnc oracle wString wSfixed32 field enc m := by
  unfold encMapStringSfixed32 gEnc; simp only [encMapStringSfixed32_loop]

theorem encMapStringSfixed64_loop (oracle : Nat → Bytes) (field : Int) : ∀ es enc, encMapStringSfixed64.loop1 oracle field es enc = gEncLoop oracle field wString wSfixed64 es enc := by
  intro es; induction es with
  | nil => intro enc; rfl
  | cons e es ih => intro enc; obtain ⟨key, val⟩ := e; unfold encMapStringSfixed64.loop1 gEncLoop; simp only [ih] <;> rfl
theorem encMapStringSfixed64_shape (oracle : Nat → Bytes) (field : Int) (enc : Buf) (m : Go.Map (GoVal .string) (GoVal .sfixed64)) :
    encMapStringSfixed64 oracle field enc m = gEnc oracle wString wSfixed64 field enc m := by
  unfold encMapStringSfixed64 gEnc; simp only [encMapStringSfixed64_loop]

theorem encMapStringFloat_loop (oracle : Nat → Bytes) (field : Int) : ∀ es enc, encMapStringFloat.loop1 oracle field es enc = gEncLoop oracle field wString wFloat es enc := by
  intro es; induction es with
  | nil => intro enc; rfl
  | cons e es ih => intro enc; obtain ⟨key, val⟩ := e; unfold encMapStringFloat.loop1 gEncLoop; simp only [ih] <;> rfl
theorem encMapStringFloat_shape (oracle : Nat → Bytes) (field : Int) (enc : Buf) (m : Go.Map (GoVal .string) (GoVal .float)) :
    encMapStringFloat oracle field enc m = gEnc oracle wString wFloat field enc m := by
  unfold encMapStringFloat gEnc; simp only [encMapStringFloat_loop]

theorem encMapStringDouble_loop (oracle : Nat → Bytes) (field : Int) : ∀ es enc, encMapStringDouble.loop1 oracle field es enc = gEncLoop oracle field wString wDouble es enc := by
  intro es; induction es with
  | nil => intro enc; rfl
  | cons e es ih => intro enc; obtain ⟨key, val⟩ := e; unfold encMapStringDouble.loop1 gEncLoop; simp only [ih] <;> rfl
theorem encMapStringDouble_shape (oracle : Nat → Bytes) (field : Int) (enc : Buf) (m : Go.Map (GoVal .string) (GoVal .double)) :
    encMapStringDouble oracle field enc m = gEnc oracle wString wDouble field enc m := by
  unfold encMapStringDouble gEnc; simp only [encMapStringDouble_loop]

theorem encMapStringString_loop (oracle : Nat → Bytes) (field : Int) : ∀ es enc, encMapStringString.loop1 oracle field es enc = gEncLoop oracle field wString wString es enc := by
  intro es; induction es with
  | nil => intro enc; rfl
  | cons e es ih => intro enc; obtain ⟨key, val⟩ := e; unfold encMapStringString.loop1 gEncLoop; simp only [ih] <;> rfl
theorem encMapStringString_shape (oracle : Nat → Bytes) (field : Int) (enc : Buf) (m : Go.Map (GoVal .string) (GoVal .string)) :
    encMapStringString oracle field enc m = gEnc oracle wString wString field enc m := by
  unfold encMapStringString gEnc; simp only [encMapStringString_loop]

theorem encMapStringBytes_loop (oracle : Nat → Bytes) (field : Int) : ∀ es enc, encMapStringBytes.loop1 oracle field es enc = gEncLoop oracle field wString wBytes es enc := by
  intro es; induction es with
  | nil => intro enc; rfl
  | cons e es ih => intro enc; obtain ⟨key, val⟩ := e; unfold encMapStringBytes.loop1 gEncLoop; simp only [ih] <;> rfl
theorem encMapStringBytes_shape (oracle : Nat → Bytes) (field : Int) (enc : Buf) (m : Go.Map (GoVal .string) (GoVal .bytes)) :
    encMapStringBytes oracle field enc m = gEnc oracle wString wBytes field enc m := by
  unfold encMapStringBytes gEnc; simp only [encMapStringBytes_loop]

end instances

/-- is there a map codec with this key kind? (protobuf map keys: integral kinds, bool, string) -/
def isKeyKind : Scalar → Bool
  | .float | .double | .bytes => false
  | _ => true

open GoSrc.Map in
/-- the translated `(*picowire.Map<K><V>).PicoEncode` -/
def srcMapEncode (oracle : Nat → Bytes) : (k v : Scalar) → Int → Buf → Go.Map (GoVal k) (GoVal v) → Res (Buf × Go.Map (GoVal k) (GoVal v))
  | .bool, .bool => encMapBoolBool oracle
  | .bool, .int32 => encMapBoolInt32 oracle
  | .bool, .int64 => encMapBoolInt64 oracle
  | .bool, .uint32 => encMapBoolUint32 oracle
  | .bool, .uint64 => encMapBoolUint64 oracle
  | .bool, .sint32 => encMapBoolSint32 oracle
  | .bool, .sint64 => encMapBoolSint64 oracle
  | .bool, .fixed32 => encMapBoolFixed32 oracle
  | .bool, .fixed64 => encMapBoolFixed64 oracle
  | .bool, .sfixed32 => encMapBoolSfixed32 oracle
  | .bool, .sfixed64 => encMapBoolSfixed64 oracle
  | .bool, .float => encMapBoolFloat oracle
  | .bool, .double => encMapBoolDouble oracle
  | .bool, .string => encMapBoolString oracle
  | .bool, .bytes => encMapBoolBytes oracle
  | .int32, .bool => encMapInt32Bool oracle
  | .int32, .int32 => encMapInt32Int32 oracle
  | .int32, .int64 => encMapInt32Int64 oracle
  | .int32, .uint32 => encMapInt32Uint32 oracle
  | .int32, .uint64 => encMapInt32Uint64 oracle
  | .int32, .sint32 => encMapInt32Sint32 oracle
  | .int32, .sint64 => encMapInt32Sint64 oracle
  | .int32, .fixed32 => encMapInt32Fixed32 oracle
  | .int32, .fixed64 => encMapInt32Fixed64 oracle
  | .int32, .sfixed32 => encMapInt32Sfixed32 oracle
  | .int32, .sfixed64 => encMapInt32Sfixed64 oracle
  | .int32, .float => encMapInt32Float oracle
  | .int32, .double => encMapInt32Double oracle
  | .int32, .string => encMapInt32String oracle
  | .int32, .bytes => encMapInt32Bytes oracle
  | .int64, .bool => encMapInt64Bool oracle
  | .int64, .int32 => encMapInt64Int32 oracle
  | .int64, .int64 => encMapInt64Int64 oracle
  | .int64, .uint32 => encMapInt64Uint32 oracle
  | .int64, .uint64 => encMapInt64Uint64 oracle
  | .int64, .sint32 => encMapInt64Sint32 oracle
  | .int64, .sint64 => encMapInt64Sint64 oracle
  | .int64, .fixed32 => encMapInt64Fixed32 oracle
  | .int64, .fixed64 => encMapInt64Fixed64 oracle
  | .int64, .sfixed32 => encMapInt64Sfixed32 oracle
  | .int64, .sfixed64 => encMapInt64Sfixed64 oracle
  | .int64, .float => encMapInt64Float oracle
  | .int64, .double => encMapInt64Double oracle
  | .int64, .string => encMapInt64String oracle
  | .int64, .bytes => encMapInt64Bytes oracle
  | .uint32, .bool => encMapUint32Bool oracle
  | .uint32, .int32 => encMapUint32Int32 oracle
  | .uint32, .int64 => encMapUint32Int64 oracle
  | .uint32, .uint32 => encMapUint32Uint32 oracle
  | .uint32, .uint64 => encMapUint32Uint64 oracle
  | .uint32, .sint32 => encMapUint32Sint32 oracle
  | .uint32, .sint64 => encMapUint32Sint64 oracle
  | .uint32, .fixed32 => encMapUint32Fixed32 oracle
  | .uint32, .fixed64 => encMapUint32Fixed64 oracle
  | .uint32, .sfixed32 => encMapUint32Sfixed32 oracle
  | .uint32, .sfixed64 => encMapUint32Sfixed64 oracle
  | .uint32, .float => encMapUint32Float oracle
  | .uint32, .double => encMapUint32Double oracle
  | .uint32, .string => encMapUint32String oracle
  | .uint32, .bytes => encMapUint32Bytes oracle
  | .uint64, .bool => encMapUint64Bool oracle
  | .uint64, .int32 => encMapUint64Int32 oracle
  | .uint64, .int64 => encMapUint64Int64 oracle
  | .uint64, .uint32 => encMapUint64Uint32 oracle
  | .uint64, .uint64 => encMapUint64Uint64 oracle
  | .uint64, .sint32 => encMapUint64Sint32 oracle
  | .uint64, .sint64 => encMapUint64Sint64 oracle
  | .uint64, .fixed32 => encMapUint64Fixed32 oracle
  | .uint64, .fixed64 => encMapUint64Fixed64 oracle
  | .uint64, .sfixed32 => encMapUint64Sfixed32 oracle
  | .uint64, .sfixed64 => encMapUint64Sfixed64 oracle
  | .uint64, .float => encMapUint64Float oracle
  | .uint64, .double => encMapUint64Double oracle
  | .uint64, .string => encMapUint64String oracle
  | .uint64, .bytes => encMapUint64Bytes oracle
  | .sint32, .bool => encMapSint32Bool oracle
  | .sint32, .int32 => encMapSint32Int32 oracle
  | .sint32, .int64 => encMapSint32Int64 oracle
  | .sint32, .uint32 => encMapSint32Uint32 oracle
  | .sint32, .uint64 => encMapSint32Uint64 oracle
  | .sint32, .sint32 => encMapSint32Sint32 oracle
  | .sint32, .sint64 => encMapSint32Sint64 oracle
  | .sint32, .fixed32 => encMapSint32Fixed32 oracle
  | .sint32, .fixed64 => encMapSint32Fixed64 oracle
  | .sint32, .sfixed32 => encMapSint32Sfixed32 oracle
  | .sint32, .sfixed64 => encMapSint32Sfixed64 oracle
  | .sint32, .float => encMapSint32Float oracle
  | .sint32, .double => encMapSint32Double oracle
  | .sint32, .string => encMapSint32String oracle
  | .sint32, .bytes => encMapSint32Bytes oracle
  | .sint64, .bool => encMapSint64Bool oracle
  | .sint64, .int32 => encMapSint64Int32 oracle
  | .sint64, .int64 => encMapSint64Int64 oracle
  | .sint64, .uint32 => encMapSint64Uint32 oracle
  | .sint64, .uint64 => encMapSint64Uint64 oracle
  | .sint64, .sint32 => encMapSint64Sint32 oracle
  | .sint64, .sint64 => encMapSint64Sint64 oracle
  | .sint64, .fixed32 => encMapSint64Fixed32 oracle
  | .sint64, .fixed64 => encMapSint64Fixed64 oracle
  | .sint64, .sfixed32 => encMapSint64Sfixed32 oracle
  | .sint64, .sfixed64 => encMapSint64Sfixed64 oracle
  | .sint64, .float => encMapSint64Float oracle
  | .sint64, .double => encMapSint64Double oracle
  | .sint64, .string => encMapSint64String oracle
  | .sint64, .bytes => encMapSint64Bytes oracle
  | .fixed32, .bool => encMapFixed32Bool oracle
  | .fixed32, .int32 => encMapFixed32Int32 oracle
  | .fixed32, .int64 => encMapFixed32Int64 oracle
  | .fixed32, .uint32 => encMapFixed32Uint32 oracle
  | .fixed32, .uint64 => encMapFixed32Uint64 oracle
  | .fixed32, .sint32 => encMapFixed32Sint32 oracle
  | .fixed32, .sint64 => encMapFixed32Sint64 oracle
  | .fixed32, .fixed32 => encMapFixed32Fixed32 oracle
  | .fixed32, .fixed64 => encMapFixed32Fixed64 oracle
  | .fixed32, .sfixed32 => encMapFixed32Sfixed32 oracle
  | .fixed32, .sfixed64 => encMapFixed32Sfixed64 oracle
  | .fixed32, .float => encMapFixed32Float oracle
  | .fixed32, .double => encMapFixed32Double oracle
  | .fixed32, .string => encMapFixed32String oracle
  | .fixed32, .bytes => encMapFixed32Bytes oracle
  | .fixed64, .bool => encMapFixed64Bool oracle
  | .fixed64, .int32 => encMapFixed64Int32 oracle
  | .fixed64, .int64 => encMapFixed64Int64 oracle
  | .fixed64, .uint32 => encMapFixed64Uint32 oracle
  | .fixed64, .uint64 => encMapFixed64Uint64 oracle
  | .fixed64, .sint32 => encMapFixed64Sint32 oracle
  | .fixed64, .sint64 => encMapFixed64Sint64 oracle
  | .fixed64, .fixed32 => encMapFixed64Fixed32 oracle
  | .fixed64, .fixed64 => encMapFixed64Fixed64 oracle
  | .fixed64, .sfixed32 => encMapFixed64Sfixed32 oracle
  | .fixed64, .sfixed64 => encMapFixed64Sfixed64 oracle
  | .fixed64, .float => encMapFixed64Float oracle
  | .fixed64, .double => encMapFixed64Double oracle
  | .fixed64, .string => encMapFixed64String oracle
  | .fixed64, .bytes => encMapFixed64Bytes oracle
  | .sfixed32, .bool => encMapSfixed32Bool oracle
  | .sfixed32, .int32 => encMapSfixed32Int32 oracle
  | .sfixed32, .int64 => encMapSfixed32Int64 oracle
  | .sfixed32, .uint32 => encMapSfixed32Uint32 oracle
  | .sfixed32, .uint64 => encMapSfixed32Uint64 oracle
  | .sfixed32, .sint32 => encMapSfixed32Sint32 oracle
  | .sfixed32, .sint64 => encMapSfixed32Sint64 oracle
  | .sfixed32, .fixed32 => encMapSfixed32Fixed32 oracle
  | .sfixed32, .fixed64 => encMapSfixed32Fixed64 oracle
  | .sfixed32, .sfixed32 => encMapSfixed32Sfixed32 oracle
  | .sfixed32, .sfixed64 => encMapSfixed32Sfixed64 oracle
  | .sfixed32, .float => encMapSfixed32Float oracle
  | .sfixed32, .double => encMapSfixed32Double oracle
  | .sfixed32, .string => encMapSfixed32String oracle
  | .sfixed32, .bytes => encMapSfixed32Bytes oracle
  | .sfixed64, .bool => encMapSfixed64Bool oracle
  | .sfixed64, .int32 => encMapSfixed64Int32 oracle
  | .sfixed64, .int64 => encMapSfixed64Int64 oracle
  | .sfixed64, .uint32 => encMapSfixed64Uint32 oracle
  | .sfixed64, .uint64 => encMapSfixed64Uint64 oracle
  | .sfixed64, .sint32 => encMapSfixed64Sint32 oracle
  | .sfixed64, .sint64 => encMapSfixed64Sint64 oracle
  | .sfixed64, .fixed32 => encMapSfixed64Fixed32 oracle
  | .sfixed64, .fixed64 => encMapSfixed64Fixed64 oracle
  | .sfixed64, .sfixed32 => encMapSfixed64Sfixed32 oracle
  | .sfixed64, .sfixed64 => encMapSfixed64Sfixed64 oracle
  | .sfixed64, .float => encMapSfixed64Float oracle
  | .sfixed64, .double => encMapSfixed64Double oracle
  | .sfixed64, .string => encMapSfixed64String oracle
  | .sfixed64, .bytes => encMapSfixed64Bytes oracle
  | .string, .bool => encMapStringBool oracle
  | .string, .int32 => encMapStringInt32 oracle
  | .string, .int64 => encMapStringInt64 oracle
  | .string, .uint32 => encMapStringUint32 oracle
  | .string, .uint64 => encMapStringUint64 oracle
  | .string, .sint32 => encMapStringSint32 oracle
  | .string, .sint64 => encMapStringSint64 oracle
  | .string, .fixed32 => encMapStringFixed32 oracle
  | .string, .fixed64 => encMapStringFixed64 oracle
  | .string, .sfixed32 => encMapStringSfixed32 oracle
  | .string, .sfixed64 => encMapStringSfixed64 oracle
  | .string, .float => encMapStringFloat oracle
  | .string, .double => encMapStringDouble oracle
  | .string, .string => encMapStringString oracle
  | .string, .bytes => encMapStringBytes oracle
  | .float, _ => fun _ _ _ => .panic "no map codec with a float key"
  | .double, _ => fun _ _ _ => .panic "no map codec with a double key"
  | .bytes, _ => fun _ _ _ => .panic "no map codec with a bytes key"

/-- the model's entries of a Go map: bit patterns of keys and values, in iteration order -/
def toEntries (k v : Scalar) (m : Go.Map (GoVal k) (GoVal v)) : List (Val × Val) :=
  (Go.mapRange m).map fun e => (Val.ofSVal (toS k e.1), Val.ofSVal (toS v e.2))

theorem toSVal_ofSVal (s : Enc.SVal) : (Val.ofSVal s).toSVal = s := by cases s <;> rfl

theorem mapEncode_entries (k v : Scalar) (field : Int) (m : Go.Map (GoVal k) (GoVal v)) :
    Gen2.mapEncode k v field (toEntries k v m)
      = ((Go.mapRange m).map fun e => Enc.alwaysAnyBytes field
          (Enc.writeSingle false k 1 (toS k e.1) ++ Enc.writeSingle false v 2 (toS v e.2))).flatten := by
  unfold Gen2.mapEncode toEntries
  simp only [List.map_map]
  congr 1
  apply List.map_congr_left
  intro e _
  simp [Function.comp, toSVal_ofSVal]

/-- TIE (picowire/map.go, PicoEncode, all 180 types): for every key kind, value kind, field number,
buffer and map — entries visited in any order — the translated `PicoEncode` returns normally,
hands the map back unchanged and appends exactly the model's `mapEncode` of the entries in that
order, whatever the buffer's capacity and the re-allocation oracle. -/
theorem mapEncode_tie (oracle : Nat → Bytes) (k v : Scalar) (hk : isKeyKind k = true) (field : Int) (enc : Buf)
    (m : Go.Map (GoVal k) (GoVal v)) (hok : ∀ e ∈ Go.mapRange m, InRange k e.1 ∧ InRange v e.2)
    (hsz : enc.len + (Gen2.mapEncode k v field (toEntries k v m)).length + 2 < 9223372036854775808) :
    ∃ t, srcMapEncode oracle k v field enc m
      = .ok (⟨enc.data ++ Gen2.mapEncode k v field (toEntries k v m), t⟩, m) := by
  rw [mapEncode_entries] at hsz ⊢
  cases k <;> first | cases hk | skip
  case bool =>
    cases v
    case bool => show ∃ t, GoSrc.Map.encMapBoolBool oracle field enc m = _; rw [encMapBoolBool_shape]; exact gEnc_data oracle _ _ _ _ _ _ (writer_spec .bool) (writer_spec .bool) field enc m hok hsz
    case int32 => show ∃ t, GoSrc.Map.encMapBoolInt32 oracle field enc m = _; rw [encMapBoolInt32_shape]; exact gEnc_data oracle _ _ _ _ _ _ (writer_spec .bool) (writer_spec .int32) field enc m hok hsz
    case int64 => show ∃ t, GoSrc.Map.encMapBoolInt64 oracle field enc m = _; rw [encMapBoolInt64_shape]; exact gEnc_data oracle _ _ _ _ _ _ (writer_spec .bool) (writer_spec .int64) field enc m hok hsz
    case uint32 => show ∃ t, GoSrc.Map.encMapBoolUint32 oracle field enc m = _; rw [encMapBoolUint32_shape]; exact gEnc_data oracle _ _ _ _ _ _ (writer_spec .bool) (writer_spec .uint32) field enc m hok hsz
    case uint64 => show ∃ t, GoSrc.Map.encMapBoolUint64 oracle field enc m = _; rw [encMapBoolUint64_shape]; exact gEnc_data oracle _ _ _ _ _ _ (writer_spec .bool) (writer_spec .uint64) field enc m hok hsz
    case sint32 => show ∃ t, GoSrc.Map.encMapBoolSint32 oracle field enc m = _; rw [encMapBoolSint32_shape]; exact gEnc_data oracle _ _ _ _ _ _ (writer_spec .bool) (writer_spec .sint32) field enc m hok hsz
    case sint64 => show ∃ t, GoSrc.Map.encMapBoolSint64 oracle field enc m = _; rw [encMapBoolSint64_shape]; exact gEnc_data oracle _ _ _ _ _ _ (writer_spec .bool) (writer_spec .sint64) field enc m hok hsz
    case fixed32 => show ∃ t, GoSrc.Map.encMapBoolFixed32 oracle field enc m = _; rw [encMapBoolFixed32_shape]; exact gEnc_data oracle _ _ _ _ _ _ (writer_spec .bool) (writer_spec .fixed32) field enc m hok hsz
    case fixed64 => show ∃ t, GoSrc.Map.encMapBoolFixed64 oracle field enc m = _; rw [encMapBoolFixed64_shape]; exact gEnc_data oracle _ _ _ _ _ _ (writer_spec .bool) (writer_spec .fixed64) field enc m hok hsz
    case sfixed32 => show ∃ t, GoSrc.Map.encMapBoolSfixed32 oracle field enc m = _; rw [encMapBoolSfixed32_shape]; exact gEnc_data oracle _ _ _ _ _ _ (writer_spec .bool) (writer_spec .sfixed32) field enc m hok hsz
    case sfixed64 => show ∃ t, GoSrc.Map.encMapBoolSfixed64 oracle field enc m = _; rw [encMapBoolSfixed64_shape]; exact gEnc_data oracle _ _ _ _ _ _ (writer_spec .bool) (writer_spec .sfixed64) field enc m hok hsz
    case float => show ∃ t, GoSrc.Map.encMapBoolFloat oracle field enc m = _; rw [encMapBoolFloat_shape]; exact gEnc_data oracle _ _ _ _ _ _ (writer_spec .bool) (writer_spec .float) field enc m hok hsz
    case double => show ∃ t, GoSrc.Map.encMapBoolDouble oracle field enc m = _; rw [encMapBoolDouble_shape]; exact gEnc_data oracle _ _ _ _ _ _ (writer_spec .bool) (writer_spec .double) field enc m hok hsz
    case string => show ∃ t, GoSrc.Map.encMapBoolString oracle field enc m = _; rw [encMapBoolString_shape]; exact gEnc_data oracle _ _ _ _ _ _ (writer_spec .bool) (writer_spec .string) field enc m hok hsz
    case bytes => show ∃ t, GoSrc.Map.encMapBoolBytes oracle field enc m = _; rw [encMapBoolBytes_shape]; exact gEnc_data oracle _ _ _ _ _ _ (writer_spec .bool) (writer_spec .bytes) field enc m hok hsz
  case int32 =>
    cases v
    case bool => show ∃ t, GoSrc.Map.encMapInt32Bool oracle field enc m = _; rw [encMapInt32Bool_shape]; exact gEnc_data oracle _ _ _ _ _ _ (writer_spec .int32) (writer_spec .bool) field enc m hok hsz
    case int32 => show ∃ t, GoSrc.Map.encMapInt32Int32 oracle field enc m = _; rw [encMapInt32Int32_shape]; exact gEnc_data oracle _ _ _ _ _ _ (writer_spec .int32) (writer_spec .int32) field enc m hok hsz
    case int64 => show ∃ t, GoSrc.Map.encMapInt32Int64 oracle field enc m = _; rw [encMapInt32Int64_shape]; exact gEnc_data oracle _ _ _ _ _ _ (writer_spec .int32) (writer_spec .int64) field enc m hok hsz
    case uint32 => show ∃ t, GoSrc.Map.encMapInt32Uint32 oracle field enc m = _; rw [encMapInt32Uint32_shape]; exact gEnc_data oracle _ _ _ _ _ _ (writer_spec .int32) (writer_spec .uint32) field enc m hok hsz
    case uint64 => show ∃ t, GoSrc.Map.encMapInt32Uint64 oracle field enc m = _; rw [encMapInt32Uint64_shape]; exact gEnc_data oracle _ _ _ _ _ _ (writer_spec .int32) (writer_spec .uint64) field enc m hok hsz
    case sint32 => show ∃ t, GoSrc.Map.encMapInt32Sint32 oracle field enc m = _; rw [encMapInt32Sint32_shape]; exact gEnc_data oracle _ _ _ _ _ _ (writer_spec .int32) (writer_spec .sint32) field enc m hok hsz
    case sint64 => show ∃ t, GoSrc.Map.encMapInt32Sint64 oracle field enc m = _; rw [encMapInt32Sint64_shape]; exact gEnc_data oracle _ _ _ _ _ _ (writer_spec .int32) (writer_spec .sint64) field enc m hok hsz
    case fixed32 => show ∃ t, GoSrc.Map.encMapInt32Fixed32 oracle field enc m = _; rw [encMapInt32Fixed32_shape]; exact gEnc_data oracle _ _ _ _ _ _ (writer_spec .int32) (writer_spec .fixed32) field enc m hok hsz
    case fixed64 => show ∃ t, GoSrc.Map.encMapInt32Fixed64 oracle field enc m = _; rw [encMapInt32Fixed64_shape]; exact gEnc_data oracle _ _ _ _ _ _ (writer_spec .int32) (writer_spec .fixed64) field enc m hok hsz
    case sfixed32 => show ∃ t, GoSrc.Map.encMapInt32Sfixed32 oracle field enc m = _; rw [encMapInt32Sfixed32_shape]; exact gEnc_data oracle _ _ _ _ _ _ (writer_spec .int32) (writer_spec .sfixed32) field enc m hok hsz
    case sfixed64 => show ∃ t, GoSrc.Map.encMapInt32Sfixed64 oracle field enc m = _; rw [encMapInt32Sfixed64_shape]; exact gEnc_data oracle _ _ _ _ _ _ (writer_spec .int32) (writer_spec .sfixed64) field enc m hok hsz
    case float => show ∃ t, GoSrc.Map.encMapInt32Float oracle field enc m = _; rw [encMapInt32Float_shape]; exact gEnc_data oracle _ _ _ _ _ _ (writer_spec .int32) (writer_spec .float) field enc m hok hsz
    case double => show ∃ t, GoSrc.Map.encMapInt32Double oracle field enc m = _; rw [encMapInt32Double_shape]; exact gEnc_data oracle _ _ _ _ _ _ (writer_spec .int32) (writer_spec .double) field enc m hok hsz
    case string => show ∃ t, GoSrc.Map.encMapInt32String oracle field enc m = _; rw [encMapInt32String_shape]; exact gEnc_data oracle _ _ _ _ _ _ (writer_spec .int32) (writer_spec .string) field enc m hok hsz
    case bytes => show ∃ t, GoSrc.Map.encMapInt32Bytes oracle field enc m = _; rw [encMapInt32Bytes_shape]; exact gEnc_data oracle _ _ _ _ _ _ (writer_spec .int32) (writer_spec .bytes) field enc m hok hsz
  case int64 =>
    cases v
    case bool => show ∃ t, GoSrc.Map.encMapInt64Bool oracle field enc m = _; rw [encMapInt64Bool_shape]; exact gEnc_data oracle _ _ _ _ _ _ (writer_spec .int64) (writer_spec .bool) field enc m hok hsz
    case int32 => show ∃ t, GoSrc.Map.encMapInt64Int32 oracle field enc m = _; rw [encMapInt64Int32_shape]; exact gEnc_data oracle _ _ _ _ _ _ (writer_spec .int64) (writer_spec .int32) field enc m hok hsz
    case int64 => show ∃ t, GoSrc.Map.encMapInt64Int64 oracle field enc m = _; rw [encMapInt64Int64_shape]; exact gEnc_data oracle _ _ _ _ _ _ (writer_spec .int64) (writer_spec .int64) field enc m hok hsz
    case uint32 => show ∃ t, GoSrc.Map.encMapInt64Uint32 oracle field enc m = _; rw [encMapInt64Uint32_shape]; exact gEnc_data oracle _ _ _ _ _ _ (writer_spec .int64) (writer_spec .uint32) field enc m hok hsz
    case uint64 => show ∃ t, GoSrc.Map.encMapInt64Uint64 oracle field enc m = _; rw [encMapInt64Uint64_shape]; exact gEnc_data oracle _ _ _ _ _ _ (writer_spec .int64) (writer_spec .uint64) field enc m hok hsz
    case sint32 => show ∃ t, GoSrc.Map.encMapInt64Sint32 oracle field enc m = _; rw [encMapInt64Sint32_shape]; exact gEnc_data oracle _ _ _ _ _ _ (writer_spec .int64) (writer_spec .sint32) field enc m hok hsz
    case sint64 => show ∃ t, GoSrc.Map.encMapInt64Sint64 oracle field enc m = _; rw [encMapInt64Sint64_shape]; exact gEnc_data oracle _ _ _ _ _ _ (writer_spec .int64) (writer_spec .sint64) field enc m hok hsz
    case fixed32 => show ∃ t, GoSrc.Map.encMapInt64Fixed32 oracle field enc m = _; rw [encMapInt64Fixed32_shape]; exact gEnc_data oracle _ _ _ _ _ _ (writer_spec .int64) (writer_spec .fixed32) field enc m hok hsz
    case fixed64 => show ∃ t, GoSrc.Map.encMapInt64Fixed64 oracle field enc m = _; rw [encMapInt64Fixed64_shape]; exact gEnc_data oracle _ _ _ _ _ _ (writer_spec .int64) (writer_spec .fixed64) field enc m hok hsz
    case sfixed32 => show ∃ t, GoSrc.Map.encMapInt64Sfixed32 oracle field enc m = _; rw [encMapInt64Sfixed32_shape]; exact gEnc_data oracle _ _ _ _ _ _ (writer_spec .int64) (writer_spec .sfixed32) field enc m hok hsz
    case sfixed64 => show ∃ t, GoSrc.Map.encMapInt64Sfixed64 oracle field enc m = _; rw [encMapInt64Sfixed64_shape]; exact gEnc_data oracle _ _ _ _ _ _ (writer_spec .int64) (writer_spec .sfixed64) field enc m hok hsz
    case float => show ∃ t, GoSrc.Map.encMapInt64Float oracle field enc m = _; rw [encMapInt64Float_shape]; exact gEnc_data oracle _ _ _ _ _ _ (writer_spec .int64) (writer_spec .float) field enc m hok hsz
    case double => show ∃ t, GoSrc.Map.encMapInt64Double oracle field enc m = _; rw [encMapInt64Double_shape]; exact gEnc_data oracle _ _ _ _ _ _ (writer_spec .int64) (writer_spec .double) field enc m hok hsz
    case string => show ∃ t, GoSrc.Map.encMapInt64String oracle field enc m = _; rw [encMapInt64String_shape]; exact gEnc_data oracle _ _ _ _ _ _ (writer_spec .int64) (writer_spec .string) field enc m hok hsz
    case bytes => show ∃ t, GoSrc.Map.encMapInt64Bytes oracle field enc m = _; rw [encMapInt64Bytes_shape]; exact gEnc_data oracle _ _ _ _ _ _ (writer_spec .int64) (writer_spec .bytes) field enc m hok hsz
  case uint32 =>
    cases v
    case bool => show ∃ t, GoSrc.Map.encMapUint32Bool oracle field enc m = _; rw [encMapUint32Bool_shape]; exact gEnc_data oracle _ _ _ _ _ _ (writer_spec .uint32) (writer_spec .bool) field enc m hok hsz
    case int32 => show ∃ t, GoSrc.Map.encMapUint32Int32 oracle field enc m = _; rw [encMapUint32Int32_shape]; exact gEnc_data oracle _ _ _ _ _ _ (writer_spec .uint32) (writer_spec .int32) field enc m hok hsz
    case int64 => show ∃ t, GoSrc.Map.encMapUint32Int64 oracle field enc m = _; rw [encMapUint32Int64_shape]; exact gEnc_data oracle _ _ _ _ _ _ (writer_spec .uint32) (writer_spec .int64) field enc m hok hsz
    case uint32 => show ∃ t, GoSrc.Map.encMapUint32Uint32 oracle field enc m = _; rw [encMapUint32Uint32_shape]; exact gEnc_data oracle _ _ _ _ _ _ (writer_spec .uint32) (writer_spec .uint32) field enc m hok hsz
    case uint64 => show ∃ t, GoSrc.Map.encMapUint32Uint64 oracle field enc m = _; rw [encMapUint32Uint64_shape]; exact gEnc_data oracle _ _ _ _ _ _ (writer_spec .uint32) (writer_spec .uint64) field enc m hok hsz
    case sint32 => show ∃ t, GoSrc.Map.encMapUint32Sint32 oracle field enc m = _; rw [encMapUint32Sint32_shape]; exact gEnc_data oracle _ _ _ _ _ _ (writer_spec .uint32) (writer_spec .sint32) field enc m hok hsz
    case sint64 => show ∃ t, GoSrc.Map.encMapUint32Sint64 oracle field enc m = _; rw [encMapUint32Sint64_shape]; exact gEnc_data oracle _ _ _ _ _ _ (writer_spec .uint32) (writer_spec .sint64) field enc m hok hsz
    case fixed32 => show ∃ t, GoSrc.Map.encMapUint32Fixed32 oracle field enc m = _; rw [encMapUint32Fixed32_shape]; exact gEnc_data oracle _ _ _ _ _ _ (writer_spec .uint32) (writer_spec .fixed32) field enc m hok hsz
    case fixed64 => show ∃ t, GoSrc.Map.encMapUint32Fixed64 oracle field enc m = _; rw [encMapUint32Fixed64_shape]; exact gEnc_data oracle _ _ _ _ _ _ (writer_spec .uint32) (writer_spec .fixed64) field enc m hok hsz
    case sfixed32 => show ∃ t, GoSrc.Map.encMapUint32Sfixed32 oracle field enc m = _; rw [encMapUint32Sfixed32_shape]; exact gEnc_data oracle _ _ _ _ _ _ (writer_spec .uint32) (writer_spec .sfixed32) field enc m hok hsz
    case sfixed64 => show ∃ t, GoSrc.Map.encMapUint32Sfixed64 oracle field enc m = _; rw [encMapUint32Sfixed64_shape]; exact gEnc_data oracle _ _ _ _ _ _ (writer_spec .uint32) (writer_spec .sfixed64) field enc m hok hsz
    case float => show ∃ t, GoSrc.Map.encMapUint32Float oracle field enc m = _; rw [encMapUint32Float_shape]; exact gEnc_data oracle _ _ _ _ _ _ (writer_spec .uint32) (writer_spec .float) field enc m hok hsz
    case double => show ∃ t, GoSrc.Map.encMapUint32Double oracle field enc m = _; rw [encMapUint32Double_shape]; exact gEnc_data oracle _ _ _ _ _ _ (writer_spec .uint32) (writer_spec .double) field enc m hok hsz
    case string => show ∃ t, GoSrc.Map.encMapUint32String oracle field enc m = _; rw [encMapUint32String_shape]; exact gEnc_data oracle _ _ _ _ _ _ (writer_spec .uint32) (writer_spec .string) field enc m hok hsz
    case bytes => show ∃ t, GoSrc.Map.encMapUint32Bytes oracle field enc m = _; rw [encMapUint32Bytes_shape]; exact gEnc_data oracle _ _ _ _ _ _ (writer_spec .uint32) (writer_spec .bytes) field enc m hok hsz
  case uint64 =>
    cases v
    case bool => show ∃ t, GoSrc.Map.encMapUint64Bool oracle field enc m = _; rw [encMapUint64Bool_shape]; exact gEnc_data oracle _ _ _ _ _ _ (writer_spec .uint64) (writer_spec .bool) field enc m hok hsz
    case int32 => show ∃ t, GoSrc.Map.encMapUint64Int32 oracle field enc m = _; rw [encMapUint64Int32_shape]; exact gEnc_data oracle _ _ _ _ _ _ (writer_spec .uint64) (writer_spec .int32) field enc m hok hsz
    case int64 => show ∃ t, GoSrc.Map.encMapUint64Int64 oracle field enc m = _; rw [encMapUint64Int64_shape]; exact gEnc_data oracle _ _ _ _ _ _ (writer_spec .uint64) (writer_spec .int64) field enc m hok hsz
    case uint32 => show ∃ t, GoSrc.Map.encMapUint64Uint32 oracle field enc m = _; rw [encMapUint64Uint32_shape]; exact gEnc_data oracle _ _ _ _ _ _ (writer_spec .uint64) (writer_spec .uint32) field enc m hok hsz
    case uint64 => show ∃ t, GoSrc.Map.encMapUint64Uint64 oracle field enc m = _; rw [encMapUint64Uint64_shape]; exact gEnc_data oracle _ _ _ _ _ _ (writer_spec .uint64) (writer_spec .uint64) field enc m hok hsz
    case sint32 => show ∃ t, GoSrc.Map.encMapUint64Sint32 oracle field enc m = _; rw [encMapUint64Sint32_shape]; exact gEnc_data oracle _ _ _ _ _ _ (writer_spec .uint64) (writer_spec .sint32) field enc m hok hsz
    case sint64 => show ∃ t, GoSrc.Map.encMapUint64Sint64 oracle field enc m = _; rw [encMapUint64Sint64_shape]; exact gEnc_data oracle _ _ _ _ _ _ (writer_spec .uint64) (writer_spec .sint64) field enc m hok hsz
    case fixed32 => show ∃ t, GoSrc.Map.encMapUint64Fixed32 oracle field enc m = _; rw [encMapUint64Fixed32_shape]; exact gEnc_data oracle _ _ _ _ _ _ (writer_spec .uint64) (writer_spec .fixed32) field enc m hok hsz
    case fixed64 => show ∃ t, GoSrc.Map.encMapUint64Fixed64 oracle field enc m = _; rw [encMapUint64Fixed64_shape]; exact gEnc_data oracle _ _ _ _ _ _ (writer_spec .uint64) (writer_spec .fixed64) field enc m hok hsz
    case sfixed32 => show ∃ t, GoSrc.Map.encMapUint64Sfixed32 oracle field enc m = _; rw [encMapUint64Sfixed32_shape]; exact gEnc_data oracle _ _ _ _ _ _ (writer_spec .uint64) (writer_spec .sfixed32) field enc m hok hsz
    case sfixed64 => show ∃ t, GoSrc.Map.encMapUint64Sfixed64 oracle field enc m = _; rw [encMapUint64Sfixed64_shape]; exact gEnc_data oracle _ _ _ _ _ _ (writer_spec .uint64) (writer_spec .sfixed64) field enc m hok hsz
    case float => show ∃ t, GoSrc.Map.encMapUint64Float oracle field enc m = _; rw [encMapUint64Float_shape]; exact gEnc_data oracle _ _ _ _ _ _ (writer_spec .uint64) (writer_spec .float) field enc m hok hsz
    case double => show ∃ t, GoSrc.Map.encMapUint64Double oracle field enc m = _; rw [encMapUint64Double_shape]; exact gEnc_data oracle _ _ _ _ _ _ (writer_spec .uint64) (writer_spec .double) field enc m hok hsz
    case string => show ∃ t, GoSrc.Map.encMapUint64String oracle field enc m = _; rw [encMapUint64String_shape]; exact gEnc_data oracle _ _ _ _ _ _ (writer_spec .uint64) (writer_spec .string) field enc m hok hsz
    case bytes => show ∃ t, GoSrc.Map.encMapUint64Bytes oracle field enc m = _; rw [encMapUint64Bytes_shape]; exact gEnc_data oracle _ _ _ _ _ _ (writer_spec .uint64) (writer_spec .bytes) field enc m hok hsz
  case sint32 =>
    cases v
    case bool => show ∃ t, GoSrc.Map.encMapSint32Bool oracle field enc m = _; rw [encMapSint32Bool_shape]; exact gEnc_data oracle _ _ _ _ _ _ (writer_spec .sint32) (writer_spec .bool) field enc m hok hsz
    case int32 => show ∃ t, GoSrc.Map.encMapSint32Int32 oracle field enc m = _; rw [encMapSint32Int32_shape]; exact gEnc_data oracle _ _ _ _ _ _ (writer_spec .sint32) (writer_spec .int32) field enc m hok hsz
    case int64 => show ∃ t, GoSrc.Map.encMapSint32Int64 oracle field enc m = _; rw [encMapSint32Int64_shape]; exact gEnc_data oracle _ _ _ _ _ _ (writer_spec .sint32) (writer_spec .int64) field enc m hok hsz
    case uint32 => show ∃ t, GoSrc.Map.encMapSint32Uint32 oracle field enc m = _; rw [encMapSint32Uint32_shape]; exact gEnc_data oracle _ _ _ _ _ _ (writer_spec .sint32) (writer_spec .uint32) field enc m hok hsz
    case uint64 => show ∃ t, GoSrc.Map.encMapSint32Uint64 oracle field enc m = _; rw [encMapSint32Uint64_shape]; exact gEnc_data oracle _ _ _ _ _ _ (writer_spec .sint32) (writer_spec .uint64) field enc m hok hsz
    case sint32 => show ∃ t, GoSrc.Map.encMapSint32Sint32 oracle field enc m = _; rw [encMapSint32Sint32_shape]; exact gEnc_data oracle _ _ _ _ _ _ (writer_spec .sint32) (writer_spec .sint32) field enc m hok hsz
    case sint64 => show ∃ t, GoSrc.Map.encMapSint32Sint64 oracle field enc m = _; rw [encMapSint32Sint64_shape]; exact gEnc_data oracle _ _ _ _ _ _ (writer_spec .sint32) (writer_spec .sint64) field enc m hok hsz
    case fixed32 => show ∃ t, GoSrc.Map.encMapSint32Fixed32 oracle field enc m = _; rw [encMapSint32Fixed32_shape]; exact gEnc_data oracle _ _ _ _ _ _ (writer_spec .sint32) (writer_spec .fixed32) field enc m hok hsz
    case fixed64 => show ∃ t, GoSrc.Map.encMapSint32Fixed64 oracle field enc m = _; rw [encMapSint32Fixed64_shape]; exact gEnc_data oracle _ _ _ _ _ _ (writer_spec .sint32) (writer_spec .fixed64) field enc m hok hsz
    case sfixed32 => show ∃ t, GoSrc.Map.encMapSint32Sfixed32 oracle field enc m = _; rw [encMapSint32Sfixed32_shape]; exact gEnc_data oracle _ _ _ _ _ _ (writer_spec .sint32) (writer_spec .sfixed32) field enc m hok hsz
    case sfixed64 => show ∃ t, GoSrc.Map.encMapSint32Sfixed64 oracle field enc m = _; rw [encMapSint32Sfixed64_shape]; exact gEnc_data oracle _ _ _ _ _ _ (writer_spec .sint32) (writer_spec .sfixed64) field enc m hok hsz
    case float => show ∃ t, GoSrc.Map.encMapSint32Float oracle field enc m = _; rw [encMapSint32Float_shape]; exact gEnc_data oracle _ _ _ _ _ _ (writer_spec .sint32) (writer_spec .float) field enc m hok hsz
    case double => show ∃ t, GoSrc.Map.encMapSint32Double oracle field enc m = _; rw [encMapSint32Double_shape]; exact gEnc_data oracle _ _ _ _ _ _ (writer_spec .sint32) (writer_spec .double) field enc m hok hsz
    case string => show ∃ t, GoSrc.Map.encMapSint32String oracle field enc m = _; rw [encMapSint32String_shape]; exact gEnc_data oracle _ _ _ _ _ _ (writer_spec .sint32) (writer_spec .string) field enc m hok hsz
    case bytes => show ∃ t, GoSrc.Map.encMapSint32Bytes oracle field enc m = _; rw [encMapSint32Bytes_shape]; exact gEnc_data oracle _ _ _ _ _ _ (writer_spec .sint32) (writer_spec .bytes) field enc m hok hsz
  case sint64 =>
    cases v
    case bool => show ∃ t, GoSrc.Map.encMapSint64Bool oracle field enc m = _; rw [encMapSint64Bool_shape]; exact gEnc_data oracle _ _ _ _ _ _ (writer_spec .sint64) (writer_spec .bool) field enc m hok hsz
    case int32 => show ∃ t, GoSrc.Map.encMapSint64Int32 oracle field enc m = _; rw [encMapSint64Int32_shape]; exact gEnc_data oracle _ _ _ _ _ _ (writer_spec .sint64) (writer_spec .int32) field enc m hok hsz
    case int64 => show ∃ t, GoSrc.Map.encMapSint64Int64 oracle field enc m = _; rw [encMapSint64Int64_shape]; exact gEnc_data oracle _ _ _ _ _ _ (writer_spec .sint64) (writer_spec .int64) field enc m hok hsz
    case uint32 => show ∃ t, GoSrc.Map.encMapSint64Uint32 oracle field enc m = _; rw [encMapSint64Uint32_shape]; exact gEnc_data oracle _ _ _ _ _ _ (writer_spec .sint64) (writer_spec .uint32) field enc m hok hsz
    case uint64 => show ∃ t, GoSrc.Map.encMapSint64Uint64 oracle field enc m = _; rw [encMapSint64Uint64_shape]; exact gEnc_data oracle _ _ _ _ _ _ (writer_spec .sint64) (writer_spec .uint64) field enc m hok hsz
    case sint32 => show ∃ t, GoSrc.Map.encMapSint64Sint32 oracle field enc m = _; rw [encMapSint64Sint32_shape]; exact gEnc_data oracle _ _ _ _ _ _ (writer_spec .sint64) (writer_spec .sint32) field enc m hok hsz
    case sint64 => show ∃ t, GoSrc.Map.encMapSint64Sint64 oracle field enc m = _; rw [encMapSint64Sint64_shape]; exact gEnc_data oracle _ _ _ _ _ _ (writer_spec .sint64) (writer_spec .sint64) field enc m hok hsz
    case fixed32 => show ∃ t, GoSrc.Map.encMapSint64Fixed32 oracle field enc m = _; rw [encMapSint64Fixed32_shape]; exact gEnc_data oracle _ _ _ _ _ _ (writer_spec .sint64) (writer_spec .fixed32) field enc m hok hsz
    case fixed64 => show ∃ t, GoSrc.Map.encMapSint64Fixed64 oracle field enc m = _; rw [encMapSint64Fixed64_shape]; exact gEnc_data oracle _ _ _ _ _ _ (writer_spec .sint64) (writer_spec .fixed64) field enc m hok hsz
    case sfixed32 => show ∃ t, GoSrc.Map.encMapSint64Sfixed32 oracle field enc m = _; rw [encMapSint64Sfixed32_shape]; exact gEnc_data oracle _ _ _ _ _ _ (writer_spec .sint64) (writer_spec .sfixed32) field enc m hok hsz
    case sfixed64 => show ∃ t, GoSrc.Map.encMapSint64Sfixed64 oracle field enc m = _; rw [encMapSint64Sfixed64_shape]; exact gEnc_data oracle _ _ _ _ _ _ (writer_spec .sint64) (writer_spec .sfixed64) field enc m hok hsz
    case float => show ∃ t, GoSrc.Map.encMapSint64Float oracle field enc m = _; rw [encMapSint64Float_shape]; exact gEnc_data oracle _ _ _ _ _ _ (writer_spec .sint64) (writer_spec .float) field enc m hok hsz
    case double => show ∃ t, GoSrc.Map.encMapSint64Double oracle field enc m = _; rw [encMapSint64Double_shape]; exact gEnc_data oracle _ _ _ _ _ _ (writer_spec .sint64) (writer_spec .double) field enc m hok hsz
    case string => show ∃ t, GoSrc.Map.encMapSint64String oracle field enc m = _; rw [encMapSint64String_shape]; exact gEnc_data oracle _ _ _ _ _ _ (writer_spec .sint64) (writer_spec .string) field enc m hok hsz
    case bytes => show ∃ t, GoSrc.Map.encMapSint64Bytes oracle field enc m = _; rw [encMapSint64Bytes_shape]; exact gEnc_data oracle _ _ _ _ _ _ (writer_spec .sint64) (writer_spec .bytes) field enc m hok hsz
  case fixed32 =>
    cases v
    case bool => show ∃ t, GoSrc.Map.encMapFixed32Bool oracle field enc m = _; rw [encMapFixed32Bool_shape]; exact gEnc_data oracle _ _ _ _ _ _ (writer_spec .fixed32) (writer_spec .bool) field enc m hok hsz
    case int32 => show ∃ t, GoSrc.Map.encMapFixed32Int32 oracle field enc m = _; rw [encMapFixed32Int32_shape]; exact gEnc_data oracle _ _ _ _ _ _ (writer_spec .fixed32) (writer_spec .int32) field enc m hok hsz
    case int64 => show ∃ t, GoSrc.Map.encMapFixed32Int64 oracle field enc m = _; rw [encMapFixed32Int64_shape]; exact gEnc_data oracle _ _ _ _ _ _ (writer_spec .fixed32) (writer_spec .int64) field enc m hok hsz
    case uint32 => show ∃ t, GoSrc.Map.encMapFixed32Uint32 oracle field enc m = _; rw [encMapFixed32Uint32_shape]; exact gEnc_data oracle _ _ _ _ _ _ (writer_spec .fixed32) (writer_spec .uint32) field enc m hok hsz
    case uint64 => show ∃ t, GoSrc.Map.encMapFixed32Uint64 oracle field enc m = _; rw [encMapFixed32Uint64_shape]; exact gEnc_data oracle _ _ _ _ _ _ (writer_spec .fixed32) (writer_spec .uint64) field enc m hok hsz
    case sint32 => show ∃ t, GoSrc.Map.encMapFixed32Sint32 oracle field enc m = _; rw [encMapFixed32Sint32_shape]; exact gEnc_data oracle _ _ _ _ _ _ (writer_spec .fixed32) (writer_spec .sint32) field enc m hok hsz
    case sint64 => show ∃ t, GoSrc.Map.encMapFixed32Sint64 oracle field enc m = _; rw [encMapFixed32Sint64_shape]; exact gEnc_data oracle _ _ _ _ _ _ (writer_spec .fixed32) (writer_spec .sint64) field enc m hok hsz
    case fixed32 => show ∃ t, GoSrc.Map.encMapFixed32Fixed32 oracle field enc m = _; rw [encMapFixed32Fixed32_shape]; exact gEnc_data oracle _ _ _ _ _ _ (writer_spec .fixed32) (writer_spec .fixed32) field enc m hok hsz
    case fixed64 => show ∃ t, GoSrc.Map.encMapFixed32Fixed64 oracle field enc m = _; rw [encMapFixed32Fixed64_shape]; exact gEnc_data oracle _ _ _ _ _ _ (writer_spec .fixed32) (writer_spec .fixed64) field enc m hok hsz
    case sfixed32 => show ∃ t, GoSrc.Map.encMapFixed32Sfixed32 oracle field enc m = _; rw [encMapFixed32Sfixed32_shape]; exact gEnc_data oracle _ _ _ _ _ _ (writer_spec .fixed32) (writer_spec .sfixed32) field enc m hok hsz
    case sfixed64 => show ∃ t, GoSrc.Map.encMapFixed32Sfixed64 oracle field enc m = _; rw [encMapFixed32Sfixed64_shape]; exact gEnc_data oracle _ _ _ _ _ _ (writer_spec .fixed32) (writer_spec .sfixed64) field enc m hok hsz
    case float => show ∃ t, GoSrc.Map.encMapFixed32Float oracle field enc m = _; rw [encMapFixed32Float_shape]; exact gEnc_data oracle _ _ _ _ _ _ (writer_spec .fixed32) (writer_spec .float) field enc m hok hsz
    case double => show ∃ t, GoSrc.Map.encMapFixed32Double oracle field enc m = _; rw [encMapFixed32Double_shape]; exact gEnc_data oracle _ _ _ _ _ _ (writer_spec .fixed32) (writer_spec .double) field enc m hok hsz
    case string => show ∃ t, GoSrc.Map.encMapFixed32String oracle field enc m = _; rw [encMapFixed32String_shape]; exact gEnc_data oracle _ _ _ _ _ _ (writer_spec .fixed32) (writer_spec .string) field enc m hok hsz
    case bytes => show ∃ t, GoSrc.Map.encMapFixed32Bytes oracle field enc m = _; rw [encMapFixed32Bytes_shape]; exact gEnc_data oracle _ _ _ _ _ _ (writer_spec .fixed32) (writer_spec .bytes) field enc m hok hsz
  case fixed64 =>
    cases v
    case bool => show ∃ t, GoSrc.Map.encMapFixed64Bool oracle field enc m = _; rw [encMapFixed64Bool_shape]; exact gEnc_data oracle _ _ _ _ _ _ (writer_spec .fixed64) (writer_spec .bool) field enc m hok hsz
    case int32 => show ∃ t, GoSrc.Map.encMapFixed64Int32 oracle field enc m = _; rw [encMapFixed64Int32_shape]; exact gEnc_data oracle _ _ _ _ _ _ (writer_spec .fixed64) (writer_spec .int32) field enc m hok hsz
    case int64 => show ∃ t, GoSrc.Map.encMapFixed64Int64 oracle field enc m = _; rw [encMapFixed64Int64_shape]; exact gEnc_data oracle _ _ _ _ _ _ (writer_spec .fixed64) (writer_spec .int64) field enc m hok hsz
    case uint32 => show ∃ t, GoSrc.Map.encMapFixed64Uint32 oracle field enc m = _; rw [encMapFixed64Uint32_shape]; exact gEnc_data oracle _ _ _ _ _ _ (writer_spec .fixed64) (writer_spec .uint32) field enc m hok hsz
    case uint64 => show ∃ t, GoSrc.Map.encMapFixed64Uint64 oracle field enc m = _; rw [encMapFixed64Uint64_shape]; exact gEnc_data oracle _ _ _ _ _ _ (writer_spec .fixed64) (writer_spec .uint64) field enc m hok hsz
    case sint32 => show ∃ t, GoSrc.Map.encMapFixed64Sint32 oracle field enc m = _; rw [encMapFixed64Sint32_shape]; exact gEnc_data oracle _ _ _ _ _ _ (writer_spec .fixed64) (writer_spec .sint32) field enc m hok hsz
    case sint64 => show ∃ t, GoSrc.Map.encMapFixed64Sint64 oracle field enc m = _; rw [encMapFixed64Sint64_shape]; exact gEnc_data oracle _ _ _ _ _ _ (writer_spec .fixed64) (writer_spec .sint64) field enc m hok hsz
    case fixed32 => show ∃ t, GoSrc.Map.encMapFixed64Fixed32 oracle field enc m = _; rw [encMapFixed64Fixed32_shape]; exact gEnc_data oracle _ _ _ _ _ _ (writer_spec .fixed64) (writer_spec .fixed32) field enc m hok hsz
    case fixed64 => show ∃ t, GoSrc.Map.encMapFixed64Fixed64 oracle field enc m = _; rw [encMapFixed64Fixed64_shape]; exact gEnc_data oracle _ _ _ _ _ _ (writer_spec .fixed64) (writer_spec .fixed64) field enc m hok hsz
    case sfixed32 => show ∃ t, GoSrc.Map.encMapFixed64Sfixed32 oracle field enc m = _; rw [encMapFixed64Sfixed32_shape]; exact gEnc_data oracle _ _ _ _ _ _ (writer_spec .fixed64) (writer_spec .sfixed32) field enc m hok hsz
    case sfixed64 => show ∃ t, GoSrc.Map.encMapFixed64Sfixed64 oracle field enc m = _; rw [encMapFixed64Sfixed64_shape]; exact gEnc_data oracle _ _ _ _ _ _ (writer_spec .fixed64) (writer_spec .sfixed64) field enc m hok hsz
    case float => show ∃ t, GoSrc.Map.encMapFixed64Float oracle field enc m = _; rw [encMapFixed64Float_shape]; exact gEnc_data oracle _ _ _ _ _ _ (writer_spec .fixed64) (writer_spec .float) field enc m hok hsz
    case double => show ∃ t, GoSrc.Map.encMapFixed64Double oracle field enc m = _; rw [encMapFixed64Double_shape]; exact gEnc_data oracle _ _ _ _ _ _ (writer_spec .fixed64) (writer_spec .double) field enc m hok hsz
    case string => show ∃ t, GoSrc.Map.encMapFixed64String oracle field enc m = _; rw [encMapFixed64String_shape]; exact gEnc_data oracle _ _ _ _ _ _ (writer_spec .fixed64) (writer_spec .string) field enc m hok hsz
    case bytes => show ∃ t, GoSrc.Map.encMapFixed64Bytes oracle field enc m = _; rw [encMapFixed64Bytes_shape]; exact gEnc_data oracle _ _ _ _ _ _ (writer_spec .fixed64) (writer_spec .bytes) field enc m hok hsz
  case sfixed32 =>
    cases v
    case bool => show ∃ t, GoSrc.Map.encMapSfixed32Bool oracle field enc m = _; rw [encMapSfixed32Bool_shape]; exact gEnc_data oracle _ _ _ _ _ _ (writer_spec .sfixed32) (writer_spec .bool) field enc m hok hsz
    case int32 => show ∃ t, GoSrc.Map.encMapSfixed32Int32 oracle field enc m = _; rw [encMapSfixed32Int32_shape]; exact gEnc_data oracle _ _ _ _ _ _ (writer_spec .sfixed32) (writer_spec .int32) field enc m hok hsz
    case int64 => show ∃ t, GoSrc.Map.encMapSfixed32Int64 oracle field enc m = _; rw [encMapSfixed32Int64_shape]; exact gEnc_data oracle _ _ _ _ _ _ (writer_spec .sfixed32) (writer_spec .int64) field enc m hok hsz
    case uint32 => show ∃ t, GoSrc.Map.encMapSfixed32Uint32 oracle field enc m = _; rw [encMapSfixed32Uint32_shape]; exact gEnc_data oracle _ _ _ _ _ _ (writer_spec .sfixed32) (writer_spec .uint32) field enc m hok hsz
    case uint64 => show ∃ t, GoSrc.Map.encMapSfixed32Uint64 oracle field enc m = _; rw [encMapSfixed32Uint64_shape]; exact gEnc_data oracle _ _ _ _ _ _ (writer_spec .sfixed32) (writer_spec .uint64) field enc m hok hsz
    case sint32 => show ∃ t, GoSrc.Map.encMapSfixed32Sint32 oracle field enc m = _; rw [encMapSfixed32Sint32_shape]; exact gEnc_data oracle _ _ _ _ _ _ (writer_spec .sfixed32) (writer_spec .sint32) field enc m hok hsz
    case sint64 => show ∃ t, GoSrc.Map.encMapSfixed32Sint64 oracle field enc m = _; rw [encMapSfixed32Sint64_shape]; exact gEnc_data oracle _ _ _ _ _ _ (writer_spec .sfixed32) (writer_spec .sint64) field enc m hok hsz
    case fixed32 => show ∃ t, GoSrc.Map.encMapSfixed32Fixed32 oracle field enc m = _; rw [encMapSfixed32Fixed32_shape]; exact gEnc_data oracle _ _ _ _ _ _ (writer_spec .sfixed32) (writer_spec .fixed32) field enc m hok hsz
    case fixed64 => show ∃ t, GoSrc.Map.encMapSfixed32Fixed64 oracle field enc m = _; rw [encMapSfixed32Fixed64_shape]; exact gEnc_data oracle _ _ _ _ _ _ (writer_spec .sfixed32) (writer_spec .fixed64) field enc m hok hsz
    case sfixed32 => show ∃ t, GoSrc.Map.encMapSfixed32Sfixed32 oracle field enc m = _; rw [encMapSfixed32Sfixed32_shape]; exact gEnc_data oracle _ _ _ _ _ _ (writer_spec .sfixed32) (writer_spec .sfixed32) field enc m hok hsz
    case sfixed64 => show ∃ t, GoSrc.Map.encMapSfixed32Sfixed64 oracle field enc m = _; rw [encMapSfixed32Sfixed64_shape]; exact gEnc_data oracle _ _ _ _ _ _ (writer_spec .sfixed32) (writer_spec .sfixed64) field enc m hok hsz
    case float => show ∃ t, GoSrc.Map.encMapSfixed32Float oracle field enc m = _; rw [encMapSfixed32Float_shape]; exact gEnc_data oracle _ _ _ _ _ _ (writer_spec .sfixed32) (writer_spec .float) field enc m hok hsz
    case double => show ∃ t, GoSrc.Map.encMapSfixed32Double oracle field enc m = _; rw [encMapSfixed32Double_shape]; exact gEnc_data oracle _ _ _ _ _ _ (writer_spec .sfixed32) (writer_spec .double) field enc m hok hsz
    case string => show ∃ t, GoSrc.Map.encMapSfixed32String oracle field enc m = _; rw [encMapSfixed32String_shape]; exact gEnc_data oracle _ _ _ _ _ _ (writer_spec .sfixed32) (writer_spec .string) field enc m hok hsz
    case bytes => show ∃ t, GoSrc.Map.encMapSfixed32Bytes oracle field enc m = _; rw [encMapSfixed32Bytes_shape]; exact gEnc_data oracle _ _ _ _ _ _ (writer_spec .sfixed32) (writer_spec .bytes) field enc m hok hsz
  case sfixed64 =>
    cases v
    case bool => show ∃ t, GoSrc.Map.encMapSfixed64Bool oracle field enc m = _; rw [encMapSfixed64Bool_shape]; exact gEnc_data oracle _ _ _ _ _ _ (writer_spec .sfixed64) (writer_spec .bool) field enc m hok hsz
    case int32 => show ∃ t, GoSrc.Map.encMapSfixed64Int32 oracle field enc m = _; rw [encMapSfixed64Int32_shape]; exact gEnc_data oracle _ _ _ _ _ _ (writer_spec .sfixed64) (writer_spec .int32) field enc m hok hsz
    case int64 => show ∃ t, GoSrc.Map.encMapSfixed64Int64 oracle field enc m = _; rw [encMapSfixed64Int64_shape]; exact gEnc_data oracle _ _ _ _ _ _ (writer_spec .sfixed64) (writer_spec .int64) field enc m hok hsz
    case uint32 => show ∃ t, GoSrc.Map.encMapSfixed64Uint32 oracle field enc m = _; rw [encMapSfixed64Uint32_shape]; exact gEnc_data oracle _ _ _ _ _ _ (writer_spec .sfixed64) (writer_spec .uint32) field enc m hok hsz
    case uint64 => show ∃ t, GoSrc.Map.encMapSfixed64Uint64 oracle field enc m = _; rw [encMapSfixed64Uint64_shape]; exact gEnc_data oracle _ _ _ _ _ _ (writer_spec .sfixed64) (writer_spec .uint64) field enc m hok hsz
    case sint32 => show ∃ t, GoSrc.Map.encMapSfixed64Sint32 oracle field enc m = _; rw [encMapSfixed64Sint32_shape]; exact gEnc_data oracle _ _ _ _ _ _ (writer_spec .sfixed64) (writer_spec .sint32) field enc m hok hsz
    case sint64 => show ∃ t, GoSrc.Map.encMapSfixed64Sint64 oracle field enc m = _; rw [encMapSfixed64Sint64_shape]; exact gEnc_data oracle _ _ _ _ _ _ (writer_spec .sfixed64) (writer_spec .sint64) field enc m hok hsz
    case fixed32 => show ∃ t, GoSrc.Map.encMapSfixed64Fixed32 oracle field enc m = _; rw [encMapSfixed64Fixed32_shape]; exact gEnc_data oracle _ _ _ _ _ _ (writer_spec .sfixed64) (writer_spec .fixed32) field enc m hok hsz
    case fixed64 => show ∃ t, GoSrc.Map.encMapSfixed64Fixed64 oracle field enc m = _; rw [encMapSfixed64Fixed64_shape]; exact gEnc_data oracle _ _ _ _ _ _ (writer_spec .sfixed64) (writer_spec .fixed64) field enc m hok hsz
    case sfixed32 => show ∃ t, GoSrc.Map.encMapSfixed64Sfixed32 oracle field enc m = _; rw [encMapSfixed64Sfixed32_shape]; exact gEnc_data oracle _ _ _ _ _ _ (writer_spec .sfixed64) (writer_spec .sfixed32) field enc m hok hsz
    case sfixed64 => show ∃ t, GoSrc.Map.encMapSfixed64Sfixed64 oracle field enc m = _; rw [encMapSfixed64Sfixed64_shape]; exact gEnc_data oracle _ _ _ _ _ _ (writer_spec .sfixed64) (writer_spec .sfixed64) field enc m hok hsz
    case float => show ∃ t, GoSrc.Map.encMapSfixed64Float oracle field enc m = _; rw [encMapSfixed64Float_shape]; exact gEnc_data oracle _ _ _ _ _ _ (writer_spec .sfixed64) (writer_spec .float) field enc m hok hsz
    case double => show ∃ t, GoSrc.Map.encMapSfixed64Double oracle field enc m = _; rw [encMapSfixed64Double_shape]; exact gEnc_data oracle _ _ _ _ _ _ (writer_spec .sfixed64) (writer_spec .double) field enc m hok hsz
    case string => show ∃ t, GoSrc.Map.encMapSfixed64String oracle field enc m = _; rw [encMapSfixed64String_shape]; exact gEnc_data oracle _ _ _ _ _ _ (writer_spec .sfixed64) (writer_spec .string) field enc m hok hsz
    case bytes => show ∃ t, GoSrc.Map.encMapSfixed64Bytes oracle field enc m = _; rw [encMapSfixed64Bytes_shape]; exact gEnc_data oracle _ _ _ _ _ _ (writer_spec .sfixed64) (writer_spec .bytes) field enc m hok hsz
  case string =>
    cases v
    case bool => show ∃ t, GoSrc.Map.encMapStringBool oracle field enc m = _; rw [encMapStringBool_shape]; exact gEnc_data oracle _ _ _ _ _ _ (writer_spec .string) (writer_spec .bool) field enc m hok hsz
    case int32 => show ∃ t, GoSrc.Map.encMapStringInt32 oracle field enc m = _; rw [encMapStringInt32_shape]; exact gEnc_data oracle _ _ _ _ _ _ (writer_spec .string) (writer_spec .int32) field enc m hok hsz
    case int64 => show ∃ t, GoSrc.Map.encMapStringInt64 oracle field enc m = _; rw [encMapStringInt64_shape]; exact gEnc_data oracle _ _ _ _ _ _ (writer_spec .string) (writer_spec .int64) field enc m hok hsz
    case uint32 => show ∃ t, GoSrc.Map.encMapStringUint32 oracle field enc m = _; rw [encMapStringUint32_shape]; exact gEnc_data oracle _ _ _ _ _ _ (writer_spec .string) (writer_spec .uint32) field enc m hok hsz
    case uint64 => show ∃ t, GoSrc.Map.encMapStringUint64 oracle field enc m = _; rw [encMapStringUint64_shape]; exact gEnc_data oracle _ _ _ _ _ _ (writer_spec .string) (writer_spec .uint64) field enc m hok hsz
    case sint32 => show ∃ t, GoSrc.Map.encMapStringSint32 oracle field enc m = _; rw [encMapStringSint32_shape]; exact gEnc_data oracle _ _ _ _ _ _ (writer_spec .string) (writer_spec .sint32) field enc m hok hsz
    case sint64 => show ∃ t, GoSrc.Map.encMapStringSint64 oracle field enc m = _; rw [encMapStringSint64_shape]; exact gEnc_data oracle _ _ _ _ _ _ (writer_spec .string) (writer_spec .sint64) field enc m hok hsz
    case fixed32 => show ∃ t, GoSrc.Map.encMapStringFixed32 oracle field enc m = _; rw [encMapStringFixed32_shape]; exact gEnc_data oracle _ _ _ _ _ _ (writer_spec .string) (writer_spec .fixed32) field enc m hok hsz
    case fixed64 => show ∃ t, GoSrc.Map.encMapStringFixed64 oracle field enc m = _; rw [encMapStringFixed64_shape]; exact gEnc_data oracle _ _ _ _ _ _ (writer_spec .string) (writer_spec .fixed64) field enc m hok hsz
    case sfixed32 => show ∃ t, GoSrc.Map.encMapStringSfixed32 oracle field enc m = _; rw [encMapStringSfixed32_shape]; exact gEnc_data oracle _ _ _ _ _ _ (writer_spec .string) (writer_spec .sfixed32) field enc m hok hsz
    case sfixed64 => show ∃ t, GoSrc.Map.encMapStringSfixed64 oracle field enc m = _; rw [encMapStringSfixed64_shape]; exact gEnc_data oracle _ _ _ _ _ _ (writer_spec .string) (writer_spec .sfixed64) field enc m hok hsz
    case float => show ∃ t, GoSrc.Map.encMapStringFloat oracle field enc m = _; rw [encMapStringFloat_shape]; exact gEnc_data oracle _ _ _ _ _ _ (writer_spec .string) (writer_spec .float) field enc m hok hsz
    case double => show ∃ t, GoSrc.Map.encMapStringDouble oracle field enc m = _; rw [encMapStringDouble_shape]; exact gEnc_data oracle _ _ _ _ _ _ (writer_spec .string) (writer_spec .double) field enc m hok hsz
    case string => show ∃ t, GoSrc.Map.encMapStringString oracle field enc m = _; rw [encMapStringString_shape]; exact gEnc_data oracle _ _ _ _ _ _ (writer_spec .string) (writer_spec .string) field enc m hok hsz
    case bytes => show ∃ t, GoSrc.Map.encMapStringBytes oracle field enc m = _; rw [encMapStringBytes_shape]; exact gEnc_data oracle _ _ _ _ _ _ (writer_spec .string) (writer_spec .bytes) field enc m hok hsz

/-! ### decode -/

open Pico.Dec in
/-- shape of every `PicoDecode` -/
def gDec {K V : Type} [DecidableEq K] (zk : K) (zv : V)
    (rK : Int → Dec → K → Res (Dec × K)) (rV : Int → Dec → V → Res (Dec × V))
    (field : Int) (dec : Dec) (m : Go.Map K V) : Res (Dec × Go.Map K V) := do
  let (dec, m) ← Pico.GoSrc.Decoder.RepeatedMessage field (fun c st3 => do
      let m := st3
      let key : K := zk
      let val : V := zv
      let m ← (if (Go.mapIsNil m = true) then do
        let m := (Go.mapEmpty : Go.Map K V)
        pure m
      else do
        pure m
      )
      let (c, (key, val)) ← Pico.GoSrc.Decoder.Loop (fun c_1 st1 => do
          let (key, val) := st1
          let (c_1, key) ← rK (1 : Int) c_1 key
          let (c_1, val) ← rV (2 : Int) c_1 val
          pure (c_1, key, val)
        ) c (key, val)
      let t2 ← Go.mapSet m key val
      let m := t2
      pure (c, m)
    ) dec m
  pure (dec, m)

namespace Sim
open Pico.Dec

/-- `g` on translated states simulates `f` on model states (related by `F`) wherever `Inv` holds,
and `f` preserves `Inv` -/
def Sim {σ τ : Type} (Inv : σ → Prop) (F : σ → τ) (f : DecM σ) (g : DecM τ) : Prop :=
  ∀ d s, Inv s → g d (F s) = Res.mapr (fun p => (p.1, F p.2)) (f d s) ∧ (∀ d' s', f d s = .ok (d', s') → Inv s')

theorem loopN_sim {σ τ : Type} (Inv : σ → Prop) (F : σ → τ) (f : DecM σ) (g : DecM τ) (h : Sim Inv F f g) :
    ∀ fuel, Sim Inv F (loopN f fuel) (loopN g fuel) := by
  intro fuel
  induction fuel with
  | zero => intro d s _; exact ⟨rfl, by intro d' s' hh; cases hh⟩
  | succ n ih =>
    intro d s hs
    obtain ⟨e, hinv⟩ := h d s hs
    unfold loopN
    simp only [bind, Res.bind, e]
    cases hf : f d s with
    | ok r =>
      obtain ⟨d1, s1⟩ := r
      have hs1 := hinv d1 s1 hf
      simp only [Res.mapr_ok]
      by_cases hv : (!pendingValid d1) = true
      · refine ⟨by simp [hv, pure], ?_⟩
        intro d' s' hh
        simp only [hv, if_true, pure, Res.ok.injEq, Prod.mk.injEq] at hh
        rw [← hh.2]; exact hs1
      · simp only [hv, if_false]
        by_cases hl : d1.cur.buffer.length = d.cur.buffer.length
        · simp only [hl, if_true]
          cases hn : nextField d1 (Wire.consumeFieldValue d1.cur.pendingField d1.cur.pendingWire d1.cur.buffer) with
          | ok d2 => exact ih d2 s1 hs1
          | panic w => exact ⟨rfl, by intro d' s' hh; cases hh⟩
          | outOfFuel => exact ⟨rfl, by intro d' s' hh; cases hh⟩
        · simp only [hl, if_false]
          exact ih d1 s1 hs1
    | panic w => exact ⟨rfl, by intro d' s' hh; cases hh⟩
    | outOfFuel => exact ⟨rfl, by intro d' s' hh; cases hh⟩

theorem loop_sim {σ τ : Type} (Inv : σ → Prop) (F : σ → τ) (f : DecM σ) (g : DecM τ) (h : Sim Inv F f g) :
    Sim Inv F (loop f) (loop g) := by
  intro d s hs
  unfold loop
  cases hi : d.init
  · simp only [Bool.not_false, if_true, bind, Res.bind, pure]
    cases hn : nextField d 0 with
    | ok d1 => exact loopN_sim Inv F f g h _ _ s hs
    | panic w => exact ⟨rfl, by intro d' s' hh; cases hh⟩
    | outOfFuel => exact ⟨rfl, by intro d' s' hh; cases hh⟩
  · simp only [Bool.not_true, Bool.false_eq_true, if_false, bind, Res.bind, pure]
    exact loopN_sim Inv F f g h _ d s hs

theorem repeatedMessageN_sim {σ τ : Type} (Inv : σ → Prop) (F : σ → τ) (f : DecM σ) (g : DecM τ) (h : Sim Inv F f g)
    (field : Int) : ∀ fuel, Sim Inv F (repeatedMessageN field f fuel) (repeatedMessageN field g fuel) := by
  intro fuel
  induction fuel with
  | zero => intro d s _; exact ⟨rfl, by intro d' s' hh; cases hh⟩
  | succ n ih =>
    intro d s hs
    unfold repeatedMessageN
    by_cases hf : field ≠ d.cur.pendingField
    · simp only [if_pos hf, Res.mapr_ok]
      exact ⟨trivial, by intro d' s' hh; cases hh; exact hs⟩
    · simp only [if_neg hf]
      by_cases hw : d.cur.pendingWire ≠ 2
      · simp only [if_pos hw, Res.mapr_ok]
        exact ⟨trivial, by intro d' s' hh; cases hh; exact hs⟩
      · simp only [if_neg hw]
        by_cases hb : (Wire.consumeBytes d.cur.buffer).2 < 0
        · simp only [if_pos hb, Res.mapr_ok]
          exact ⟨trivial, by intro d' s' hh; cases hh; exact hs⟩
        · simp only [if_neg hb, bind, Res.bind]
          cases hp : pushState d (Wire.consumeBytes d.cur.buffer).1 with
          | ok d1 =>
            obtain ⟨e, hinv⟩ := h d1 s hs
            simp only [e]
            cases hfn : f d1 s with
            | ok r =>
              obtain ⟨d2, s2⟩ := r
              have hs2 := hinv d2 s2 hfn
              simp only [Res.mapr_ok]
              cases hn : nextField (popState d2) (Wire.consumeBytes d.cur.buffer).2 with
              | ok d3 => exact ih d3 s2 hs2
              | panic w => exact ⟨rfl, by intro d' s' hh; cases hh⟩
              | outOfFuel => exact ⟨rfl, by intro d' s' hh; cases hh⟩
            | panic w => exact ⟨rfl, by intro d' s' hh; cases hh⟩
            | outOfFuel => exact ⟨rfl, by intro d' s' hh; cases hh⟩
          | panic w => exact ⟨rfl, by intro d' s' hh; cases hh⟩
          | outOfFuel => exact ⟨rfl, by intro d' s' hh; cases hh⟩

theorem repeatedMessage_sim {σ τ : Type} (Inv : σ → Prop) (F : σ → τ) (f : DecM σ) (g : DecM τ) (h : Sim Inv F f g)
    (field : Int) : Sim Inv F (repeatedMessage field f) (repeatedMessage field g) := by
  intro d s hs
  exact repeatedMessageN_sim Inv F f g h field _ d s hs

end Sim

section decode
open Pico.Dec Sim Pico.Gen2

variable {K V : Type} [DecidableEq K]

def Fpair (uK : Val → K) (uV : Val → V) (e : Val × Val) : K × V := (uK e.1, uV e.2)

/-- the translated map value of a model map value -/
def Fm (uK : Val → K) (uV : Val → V) (m : Option (List (Val × Val))) : Go.Map K V :=
  m.map (List.map (Fpair uK uV))

theorem assocSet_map (uK : Val → K) (uV : Val → V) (Canon : Val → Prop)
    (hinj : ∀ a b, Canon a → Canon b → (keyEq a b = true ↔ uK a = uK b))
    (es : List (Val × Val)) (hes : ∀ e ∈ es, Canon e.1) (a b : Val) (ha : Canon a) :
    Go.assocSet (es.map (Fpair uK uV)) (uK a) (uV b) = (mapInsert es a b keyEq).map (Fpair uK uV) := by
  unfold Go.assocSet mapInsert
  have hpt : ∀ e : Val × Val, Canon e.1 → decide (uK e.1 = uK a) = keyEq e.1 a := by
    intro e hce
    have := hinj e.1 a hce ha
    by_cases hk : keyEq e.1 a = true
    · simp [hk, this.mp hk]
    · have hne : ¬ uK e.1 = uK a := fun h => hk (this.mpr h)
      simp [hk, hne]
  have hany : ∀ (l : List (Val × Val)), (∀ e ∈ l, Canon e.1) →
      (l.map (Fpair uK uV)).any (fun e => decide (e.1 = uK a)) = l.any (fun e => keyEq e.1 a) := by
    intro l
    induction l with
    | nil => intro _; rfl
    | cons x xs ih =>
      intro hl
      simp only [List.map_cons, List.any_cons]
      rw [ih (fun e he => hl e (by simp [he]))]
      congr 1
      exact hpt x (hl x (by simp))
  rw [hany es hes]
  by_cases h : es.any (fun e => keyEq e.1 a) = true
  · simp only [h, if_true, List.map_map]
    apply List.map_congr_left
    intro e he
    have := hinj e.1 a (hes e he) ha
    simp only [Function.comp, Fpair]
    by_cases hk : keyEq e.1 a = true
    · simp [hk, this.mp hk]
    · have hne : ¬ uK e.1 = uK a := fun h => hk (this.mpr h)
      simp [hk, hne]
  · simp only [h, if_false, List.map_append, List.map_cons, List.map_nil, Fpair, Bool.false_eq_true]

/-- the model's per-entry pass (the `let pass` of `Gen2.mapEntry`) -/
def mpass (k v : Scalar) : DecM (Val × Val) := fun d kv => do
  let (d, a) ← readSingle k 1 d
  let kv := match a with | some x => (Val.ofSVal x, kv.2) | none => kv
  let (d, b) ← readSingle v 2 d
  let kv := match b with | some x => (kv.1, Val.ofSVal x) | none => kv
  return (d, kv)

/-- the translated per-entry pass -/
def gpass (rK : Int → Dec → K → Res (Dec × K)) (rV : Int → Dec → V → Res (Dec × V)) : DecM (K × V) :=
  fun c_1 st1 => do
    let (key, val) := st1
    let (c_1, key) ← rK (1 : Int) c_1 key
    let (c_1, val) ← rV (2 : Int) c_1 val
    pure (c_1, key, val)

theorem pass_sim (k v : Scalar) (uK : Val → K) (uV : Val → V)
    (rK : Int → Dec → K → Res (Dec × K)) (rV : Int → Dec → V → Res (Dec × V))
    (hrK : ∀ field d x, rK field d x = Res.mapr (stored (fun sv => uK (Val.ofSVal sv)) x) (readSingle k field d))
    (hrV : ∀ field d x, rV field d x = Res.mapr (stored (fun sv => uV (Val.ofSVal sv)) x) (readSingle v field d))
    (Canon : Val → Prop)
    (hcr : ∀ field d d' sv, readSingle k field d = .ok (d', some sv) → Canon (Val.ofSVal sv)) :
    Sim (fun kv => Canon kv.1) (Fpair uK uV) (mpass k v) (gpass rK rV) := by
  intro d kv hkv
  obtain ⟨a, b⟩ := kv
  unfold mpass gpass Fpair
  simp only [hrK, hrV, bind, Res.bind, pure]
  cases h1 : readSingle k 1 d with
  | ok r1 =>
    obtain ⟨d1, o1⟩ := r1
    simp only [Res.mapr_ok, stored]
    cases h2 : readSingle v 2 d1 with
    | ok r2 =>
      obtain ⟨d2, o2⟩ := r2
      refine ⟨?_, ?_⟩
      · cases o1 <;> cases o2 <;> rfl
      · intro d' s' hh
        cases o1 with
        | none => cases o2 <;> (simp at hh; rw [← hh.2]; exact hkv)
        | some sv =>
          have hc := hcr 1 d d1 sv h1
          cases o2 <;> (simp at hh; rw [← hh.2]; exact hc)
    | panic w => exact ⟨rfl, by intro d' s' hh; cases hh⟩
    | outOfFuel => exact ⟨rfl, by intro d' s' hh; cases hh⟩
  | panic w => exact ⟨rfl, by intro d' s' hh; cases hh⟩
  | outOfFuel => exact ⟨rfl, by intro d' s' hh; cases hh⟩

/-- the translated per-entry callback -/
def gentry (zk : K) (zv : V) (rK : Int → Dec → K → Res (Dec × K)) (rV : Int → Dec → V → Res (Dec × V)) :
    DecM (Go.Map K V) := fun c st3 => do
  let m := st3
  let key : K := zk
  let val : V := zv
  let m ← (if (Go.mapIsNil m = true) then do
    let m := (Go.mapEmpty : Go.Map K V)
    pure m
  else do
    pure m
  )
  let (c, (key, val)) ← Pico.GoSrc.Decoder.Loop (gpass rK rV) c (key, val)
  let t2 ← Go.mapSet m key val
  let m := t2
  pure (c, m)

theorem mapEntry_unfold (k v : Scalar) (d : Dec) (m : Option (List (Val × Val))) :
    mapEntry k v d m = (do
      let (d, kv) ← Dec.loop (mpass k v) d (k.zero, v.zero)
      return (d, (match m with | none => some [] | some es => some es).map fun es => mapInsert es kv.1 kv.2 keyEq)) := rfl

theorem entry_sim (k v : Scalar) (uK : Val → K) (uV : Val → V) (zk : K) (zv : V)
    (rK : Int → Dec → K → Res (Dec × K)) (rV : Int → Dec → V → Res (Dec × V))
    (hzk : uK k.zero = zk) (hzv : uV v.zero = zv)
    (hrK : ∀ field d x, rK field d x = Res.mapr (stored (fun sv => uK (Val.ofSVal sv)) x) (readSingle k field d))
    (hrV : ∀ field d x, rV field d x = Res.mapr (stored (fun sv => uV (Val.ofSVal sv)) x) (readSingle v field d))
    (Canon : Val → Prop) (hcz : Canon k.zero)
    (hcr : ∀ field d d' sv, readSingle k field d = .ok (d', some sv) → Canon (Val.ofSVal sv))
    (hinj : ∀ a b, Canon a → Canon b → (keyEq a b = true ↔ uK a = uK b)) :
    Sim (fun m => ∀ es, m = some es → ∀ e ∈ es, Canon e.1) (Fm uK uV) (mapEntry k v) (gentry zk zv rK rV) := by
  intro d m hm
  have hps := loop_sim _ _ _ _ (pass_sim k v uK uV rK rV hrK hrV Canon hcr) d (k.zero, v.zero) hcz
  rw [mapEntry_unfold]
  unfold gentry
  simp only [GoTie.D.Loop_eq, ← hzk, ← hzv]
  have hF : (uK k.zero, uV v.zero) = Fpair uK uV (k.zero, v.zero) := rfl
  rw [hF, hps.1]
  cases m with
  | none =>
    simp only [Fm, Option.map_none, Go.mapIsNil, Option.isNone_none, if_true, bind, Res.bind, pure]
    cases hl : Dec.loop (mpass k v) d (k.zero, v.zero) with
    | ok r =>
      obtain ⟨d1, a, b⟩ := r
      have hca := hps.2 d1 (a, b) hl
      refine ⟨?_, ?_⟩
      · simp [Fpair, Go.mapSet, Go.mapEmpty, Go.assocSet, mapInsert, Fm]
      · intro d' s' hh
        simp at hh
        intro es hes e he
        rw [← hh.2] at hes
        simp [mapInsert] at hes
        rw [← hes] at he
        simp at he
        rw [he]; exact hca
    | panic w => exact ⟨rfl, by intro d' s' hh; cases hh⟩
    | outOfFuel => exact ⟨rfl, by intro d' s' hh; cases hh⟩
  | some es =>
    have hes := hm es rfl
    simp only [Fm, Option.map_some, Go.mapIsNil, Option.isNone_some, Bool.false_eq_true, if_false, bind, Res.bind, pure]
    cases hl : Dec.loop (mpass k v) d (k.zero, v.zero) with
    | ok r =>
      obtain ⟨d1, a, b⟩ := r
      have hca : Canon a := hps.2 d1 (a, b) hl
      refine ⟨?_, ?_⟩
      · simp only [Res.mapr_ok, Fpair, Go.mapSet]
        rw [assocSet_map uK uV Canon hinj es hes a b hca]
        rfl
      · intro d' s' hh
        simp at hh
        intro es' hes' e he
        rw [← hh.2] at hes'
        simp at hes'
        rw [← hes'] at he
        unfold mapInsert at he
        split at he
        · obtain ⟨e0, he0, rfl⟩ := List.mem_map.mp he
          split
          · exact hes e0 he0
          · exact hes e0 he0
        · rcases List.mem_append.mp he with h1 | h1
          · exact hes e h1
          · simp at h1; rw [h1]; exact hca
    | panic w => exact ⟨rfl, by intro d' s' hh; cases hh⟩
    | outOfFuel => exact ⟨rfl, by intro d' s' hh; cases hh⟩

theorem gDec_unfold (zk : K) (zv : V) (rK : Int → Dec → K → Res (Dec × K)) (rV : Int → Dec → V → Res (Dec × V))
    (field : Int) (dec : Dec) (m : Go.Map K V) :
    gDec zk zv rK rV field dec m = Dec.repeatedMessage field (gentry zk zv rK rV) dec m := by
  show (do let (dec, m) ← GoSrc.Decoder.RepeatedMessage field (gentry zk zv rK rV) dec m; pure (dec, m)) = _
  rw [GoTie.D.RepeatedMessage_eq]
  cases Dec.repeatedMessage field (gentry zk zv rK rV) dec m <;> rfl

/-- the shape against the model, for readers that are the model's `readSingle` up to the value
conversions `uK`, `uV` and a key conversion that is injective on canonical keys -/
theorem gDec_eq (k v : Scalar) (uK : Val → K) (uV : Val → V) (zk : K) (zv : V)
    (rK : Int → Dec → K → Res (Dec × K)) (rV : Int → Dec → V → Res (Dec × V))
    (hzk : uK k.zero = zk) (hzv : uV v.zero = zv)
    (hrK : ∀ field d x, rK field d x = Res.mapr (stored (fun sv => uK (Val.ofSVal sv)) x) (readSingle k field d))
    (hrV : ∀ field d x, rV field d x = Res.mapr (stored (fun sv => uV (Val.ofSVal sv)) x) (readSingle v field d))
    (Canon : Val → Prop) (hcz : Canon k.zero)
    (hcr : ∀ field d d' sv, readSingle k field d = .ok (d', some sv) → Canon (Val.ofSVal sv))
    (hinj : ∀ a b, Canon a → Canon b → (keyEq a b = true ↔ uK a = uK b))
    (field : Int) (dec : Dec) (m : Option (List (Val × Val))) (hm : ∀ es, m = some es → ∀ e ∈ es, Canon e.1) :
    gDec zk zv rK rV field dec (Fm uK uV m)
      = Res.mapr (fun p => (p.1, Fm uK uV p.2)) (mapDecode k v field dec m) := by
  rw [gDec_unfold]
  exact (repeatedMessage_sim _ _ _ _ (entry_sim k v uK uV zk zv rK rV hzk hzv hrK hrV Canon hcz hcr hinj) field dec m hm).1

end decode

/-! ### the 180 decoders against the model -/

section decodeInstances
open Pico.Dec Pico.Gen2

instance instDecEqGoVal (k : Scalar) : DecidableEq (GoVal k) := by
  cases k <;> (unfold GoVal; infer_instance)

/-- the Go value of a model value of kind `k` -/
def unV (k : Scalar) (x : Val) : GoVal k := unS k x.toSVal

/-- canonical values of kind `k`: bit patterns below `2^width`, byte strings for string/bytes -/
def Canon (k : Scalar) (x : Val) : Prop :=
  if k.isBytes then ∃ b, x = .bytes b else ∃ n, n < 2 ^ k.width ∧ x = .num n

theorem canon_zero (k : Scalar) : Canon k k.zero := by
  unfold Canon Scalar.zero
  cases hb : k.isBytes
  · simp only [Bool.false_eq_true, if_false]
    exact ⟨0, Nat.two_pow_pos _, rfl⟩
  · simp only [if_true]
    exact ⟨[], rfl⟩

theorem consumeScalar_canon (rep : Bool) (k : Scalar) (b : Bytes) : Canon k (Val.ofSVal (consumeScalar rep k b).1) := by
  unfold Canon
  cases hb : k.isBytes
  · simp only [Bool.false_eq_true, if_false]
    have hw : k.wire = 0 ∨ k.wire = 5 ∨ k.wire = 1 := by cases k <;> simp_all [Scalar.isBytes, Scalar.wire]
    rcases hw with h | h | h
    · refine ⟨decBits rep k (consumeVarint b).1, dec_lt_width rep k hb _ (consumeVarint_lt b), ?_⟩
      unfold consumeScalar; rw [h]; rfl
    · refine ⟨decBits rep k (consumeFixed32 b).1, dec_lt_width rep k hb _ (by have := consumeFixed32_lt b; omega), ?_⟩
      unfold consumeScalar; rw [h]; rfl
    · refine ⟨decBits rep k (consumeFixed64 b).1, dec_lt_width rep k hb _ (consumeFixed64_lt b), ?_⟩
      unfold consumeScalar; rw [h]; rfl
  · simp only [if_true]
    have hw : k.wire = 2 := by cases k <;> simp_all [Scalar.isBytes, Scalar.wire]
    refine ⟨(consumeBytes b).1, ?_⟩
    unfold consumeScalar; rw [hw]; rfl

theorem readSingle_some (k : Scalar) (field : Int) (d d' : Dec) (sv : Enc.SVal)
    (h : readSingle k field d = .ok (d', some sv)) : sv = (consumeScalar false k d.cur.buffer).1 := by
  unfold readSingle at h
  split at h
  · cases h
  · split at h
    · cases h
    · simp only [] at h
      by_cases hneg : (consumeScalar false k d.cur.buffer).2 < 0
      · rw [if_pos hneg] at h; cases h
      · rw [if_neg hneg] at h
        simp only [bind, Res.bind, pure] at h
        cases hn : nextField d (consumeScalar false k d.cur.buffer).2 with
        | ok d2 => rw [hn] at h; simp at h; exact h.2.symm
        | panic w => rw [hn] at h; cases h
        | outOfFuel => rw [hn] at h; cases h

theorem canon_read (k : Scalar) (field : Int) (d d' : Dec) (sv : Enc.SVal)
    (h : readSingle k field d = .ok (d', some sv)) : Canon k (Val.ofSVal sv) := by
  rw [readSingle_some k field d d' sv h]
  exact consumeScalar_canon false k d.cur.buffer

theorem wrapS32_inj (n m : Nat) (hn : n < 4294967296) (hm : m < 4294967296) :
    Go.wrapS 32 (n : Int) = Go.wrapS 32 (m : Int) ↔ n = m := by
  unfold Go.wrapS
  simp only [show (2:Int)^32 = 4294967296 from by decide, show (2:Int)^(32-1) = 2147483648 from by decide]
  constructor
  · intro h; split at h <;> split at h <;> omega
  · intro h; rw [h]

theorem wrapS64_inj (n m : Nat) (hn : n < 18446744073709551616) (hm : m < 18446744073709551616) :
    Go.wrapS 64 (n : Int) = Go.wrapS 64 (m : Int) ↔ n = m := by
  unfold Go.wrapS
  simp only [show (2:Int)^64 = 18446744073709551616 from by decide, show (2:Int)^(64-1) = 9223372036854775808 from by decide]
  constructor
  · intro h; split at h <;> split at h <;> omega
  · intro h; rw [h]

/-- on canonical keys the model's key equality is equality of the Go values -/
theorem key_inj (k : Scalar) (hk : isKeyKind k = true) (a b : Val) (ha : Canon k a) (hb : Canon k b) :
    (keyEq a b = true ↔ unV k a = unV k b) := by
  unfold Canon at ha hb
  cases k <;> first | cases hk | skip
  case string =>
    obtain ⟨x, rfl⟩ := ha; obtain ⟨y, rfl⟩ := hb
    simp [keyEq, unV, unS, Val.toSVal, Enc.SVal.bytes!]
  case bool =>
    obtain ⟨n, hn, rfl⟩ := ha; obtain ⟨m, hm, rfl⟩ := hb
    simp only [Scalar.width] at hn hm
    have hn' : n = 0 ∨ n = 1 := by omega
    have hm' : m = 0 ∨ m = 1 := by omega
    rcases hn' with rfl | rfl <;> rcases hm' with rfl | rfl <;> simp [keyEq, unV, unS, Val.toSVal, Enc.SVal.num!]
  all_goals
    obtain ⟨n, hn, rfl⟩ := ha; obtain ⟨m, hm, rfl⟩ := hb
    simp only [Scalar.width] at hn hm
    simp only [keyEq, unV, unS, Val.toSVal, Enc.SVal.num!, beq_iff_eq] <;>
    first
    | exact (wrapS32_inj n m (by omega) (by omega)).symm
    | exact (wrapS64_inj n m (by omega) (by omega)).symm
    | exact Iff.rfl

theorem unV_zero (k : Scalar) : unV k k.zero = (match k with
    | .bool => (false : GoVal .bool) | .int32 => (0 : Int) | .int64 => (0 : Int) | .sint32 => (0 : Int) | .sint64 => (0 : Int)
    | .sfixed32 => (0 : Int) | .sfixed64 => (0 : Int) | .uint32 => (0 : Nat) | .uint64 => (0 : Nat) | .fixed32 => (0 : Nat)
    | .fixed64 => (0 : Nat) | .float => (0 : Nat) | .double => (0 : Nat) | .string => ([] : Bytes) | .bytes => ([] : Bytes)) := by
  cases k <;> simp [unV, unS, Scalar.zero, Scalar.isBytes, Val.toSVal, Enc.SVal.num!, Enc.SVal.bytes!, Go.wrapS]

theorem read_spec (k : Scalar) (field : Int) (d : Dec) (x : GoVal k) :
    srcReadSingle k field d x = Res.mapr (stored (fun sv => unV k (Val.ofSVal sv)) x) (readSingle k field d) := by
  rw [readSingle_tie]
  have : (fun sv => unV k (Val.ofSVal sv)) = unS k := by
    funext sv; simp [unV, toSVal_ofSVal]
  rw [this]

open GoSrc.Map GoSrc.DecTypes in
/-- the translated `(*picowire.Map<K><V>).PicoDecode` -/
def srcMapDecode : (k v : Scalar) → Int → Dec → Go.Map (GoVal k) (GoVal v) → Res (Dec × Go.Map (GoVal k) (GoVal v))
  | .bool, .bool => decMapBoolBool
  | .bool, .int32 => decMapBoolInt32
  | .bool, .int64 => decMapBoolInt64
  | .bool, .uint32 => decMapBoolUint32
  | .bool, .uint64 => decMapBoolUint64
  | .bool, .sint32 => decMapBoolSint32
  | .bool, .sint64 => decMapBoolSint64
  | .bool, .fixed32 => decMapBoolFixed32
  | .bool, .fixed64 => decMapBoolFixed64
  | .bool, .sfixed32 => decMapBoolSfixed32
  | .bool, .sfixed64 => decMapBoolSfixed64
  | .bool, .float => decMapBoolFloat
  | .bool, .double => decMapBoolDouble
  | .bool, .string => decMapBoolString
  | .bool, .bytes => decMapBoolBytes
  | .int32, .bool => decMapInt32Bool
  | .int32, .int32 => decMapInt32Int32
  | .int32, .int64 => decMapInt32Int64
  | .int32, .uint32 => decMapInt32Uint32
  | .int32, .uint64 => decMapInt32Uint64
  | .int32, .sint32 => decMapInt32Sint32
  | .int32, .sint64 => decMapInt32Sint64
  | .int32, .fixed32 => decMapInt32Fixed32
  | .int32, .fixed64 => decMapInt32Fixed64
  | .int32, .sfixed32 => decMapInt32Sfixed32
  | .int32, .sfixed64 => decMapInt32Sfixed64
  | .int32, .float => decMapInt32Float
  | .int32, .double => decMapInt32Double
  | .int32, .string => decMapInt32String
  | .int32, .bytes => decMapInt32Bytes
  | .int64, .bool => decMapInt64Bool
  | .int64, .int32 => decMapInt64Int32
  | .int64, .int64 => decMapInt64Int64
  | .int64, .uint32 => decMapInt64Uint32
  | .int64, .uint64 => decMapInt64Uint64
  | .int64, .sint32 => decMapInt64Sint32
  | .int64, .sint64 => decMapInt64Sint64
  | .int64, .fixed32 => decMapInt64Fixed32
  | .int64, .fixed64 => decMapInt64Fixed64
  | .int64, .sfixed32 => decMapInt64Sfixed32
  | .int64, .sfixed64 => decMapInt64Sfixed64
  | .int64, .float => decMapInt64Float
  | .int64, .double => decMapInt64Double
  | .int64, .string => decMapInt64String
  | .int64, .bytes => decMapInt64Bytes
  | .uint32, .bool => decMapUint32Bool
  | .uint32, .int32 => decMapUint32Int32
  | .uint32, .int64 => decMapUint32Int64
  | .uint32, .uint32 => decMapUint32Uint32
  | .uint32, .uint64 => decMapUint32Uint64
  | .uint32, .sint32 => decMapUint32Sint32
  | .uint32, .sint64 => decMapUint32Sint64
  | .uint32, .fixed32 => decMapUint32Fixed32
  | .uint32, .fixed64 => decMapUint32Fixed64
  | .uint32, .sfixed32 => decMapUint32Sfixed32
  | .uint32, .sfixed64 => decMapUint32Sfixed64
  | .uint32, .float => decMapUint32Float
  | .uint32, .double => decMapUint32Double
  | .uint32, .string => decMapUint32String
  | .uint32, .bytes => decMapUint32Bytes
  | .uint64, .bool => decMapUint64Bool
  | .uint64, .int32 => decMapUint64Int32
  | .uint64, .int64 => decMapUint64Int64
  | .uint64, .uint32 => decMapUint64Uint32
  | .uint64, .uint64 => decMapUint64Uint64
  | .uint64, .sint32 => decMapUint64Sint32
  | .uint64, .sint64 => decMapUint64Sint64
  | .uint64, .fixed32 => decMapUint64Fixed32
  | .uint64, .fixed64 => decMapUint64Fixed64
  | .uint64, .sfixed32 => decMapUint64Sfixed32
  | .uint64, .sfixed64 => decMapUint64Sfixed64
  | .uint64, .float => decMapUint64Float
  | .uint64, .double => decMapUint64Double
  | .uint64, .string => decMapUint64String
  | .uint64, .bytes => decMapUint64Bytes
  | .sint32, .bool => decMapSint32Bool
  | .sint32, .int32 => decMapSint32Int32
  | .sint32, .int64 => decMapSint32Int64
  | .sint32, .uint32 => decMapSint32Uint32
  | .sint32, .uint64 => decMapSint32Uint64
  | .sint32, .sint32 => decMapSint32Sint32
  | .sint32, .sint64 => decMapSint32Sint64
  | .sint32, .fixed32 => decMapSint32Fixed32
  | .sint32, .fixed64 => decMapSint32Fixed64
  | .sint32, .sfixed32 => decMapSint32Sfixed32
  | .sint32, .sfixed64 => decMapSint32Sfixed64
  | .sint32, .float => decMapSint32Float
  | .sint32, .double => decMapSint32Double
  | .sint32, .string => decMapSint32String
  | .sint32, .bytes => decMapSint32Bytes
  | .sint64, .bool => decMapSint64Bool
  | .sint64, .int32 => decMapSint64Int32
  | .sint64, .int64 => decMapSint64Int64
  | .sint64, .uint32 => decMapSint64Uint32
  | .sint64, .uint64 => decMapSint64Uint64
  | .sint64, .sint32 => decMapSint64Sint32
  | .sint64, .sint64 => decMapSint64Sint64
  | .sint64, .fixed32 => decMapSint64Fixed32
  | .sint64, .fixed64 => decMapSint64Fixed64
  | .sint64, .sfixed32 => decMapSint64Sfixed32
  | .sint64, .sfixed64 => decMapSint64Sfixed64
  | .sint64, .float => decMapSint64Float
  | .sint64, .double => decMapSint64Double
  | .sint64, .string => decMapSint64String
  | .sint64, .bytes => decMapSint64Bytes
  | .fixed32, .bool => decMapFixed32Bool
  | .fixed32, .int32 => decMapFixed32Int32
  | .fixed32, .int64 => decMapFixed32Int64
  | .fixed32, .uint32 => decMapFixed32Uint32
  | .fixed32, .uint64 => decMapFixed32Uint64
  | .fixed32, .sint32 => decMapFixed32Sint32
  | .fixed32, .sint64 => decMapFixed32Sint64
  | .fixed32, .fixed32 => decMapFixed32Fixed32
  | .fixed32, .fixed64 => decMapFixed32Fixed64
  | .fixed32, .sfixed32 => decMapFixed32Sfixed32
  | .fixed32, .sfixed64 => decMapFixed32Sfixed64
  | .fixed32, .float => decMapFixed32Float
  | .fixed32, .double => decMapFixed32Double
  | .fixed32, .string => decMapFixed32String
  | .fixed32, .bytes => decMapFixed32Bytes
  | .fixed64, .bool => decMapFixed64Bool
  | .fixed64, .int32 => decMapFixed64Int32
  | .fixed64, .int64 => decMapFixed64Int64
  | .fixed64, .uint32 => decMapFixed64Uint32
  | .fixed64, .uint64 => decMapFixed64Uint64
  | .fixed64, .sint32 => decMapFixed64Sint32
  | .fixed64, .sint64 => decMapFixed64Sint64
  | .fixed64, .fixed32 => decMapFixed64Fixed32
  | .fixed64, .fixed64 => decMapFixed64Fixed64
  | .fixed64, .sfixed32 => decMapFixed64Sfixed32
  | .fixed64, .sfixed64 => decMapFixed64Sfixed64
  | .fixed64, .float => decMapFixed64Float
  | .fixed64, .double => decMapFixed64Double
  | .fixed64, .string => decMapFixed64String
  | .fixed64, .bytes => decMapFixed64Bytes
  | .sfixed32, .bool => decMapSfixed32Bool
  | .sfixed32, .int32 => decMapSfixed32Int32
  | .sfixed32, .int64 => decMapSfixed32Int64
  | .sfixed32, .uint32 => decMapSfixed32Uint32
  | .sfixed32, .uint64 => decMapSfixed32Uint64
  | .sfixed32, .sint32 => decMapSfixed32Sint32
  | .sfixed32, .sint64 => decMapSfixed32Sint64
  | .sfixed32, .fixed32 => decMapSfixed32Fixed32
  | .sfixed32, .fixed64 => decMapSfixed32Fixed64
  | .sfixed32, .sfixed32 => decMapSfixed32Sfixed32
  | .sfixed32, .sfixed64 => decMapSfixed32Sfixed64
  | .sfixed32, .float => decMapSfixed32Float
  | .sfixed32, .double => decMapSfixed32Double
  | .sfixed32, .string => decMapSfixed32String
  | .sfixed32, .bytes => decMapSfixed32Bytes
  | .sfixed64, .bool => decMapSfixed64Bool
  | .sfixed64, .int32 => decMapSfixed64Int32
  | .sfixed64, .int64 => decMapSfixed64Int64
  | .sfixed64, .uint32 => decMapSfixed64Uint32
  | .sfixed64, .uint64 => decMapSfixed64Uint64
  | .sfixed64, .sint32 => decMapSfixed64Sint32
  | .sfixed64, .sint64 => decMapSfixed64Sint64
  | .sfixed64, .fixed32 => decMapSfixed64Fixed32
  | .sfixed64, .fixed64 => decMapSfixed64Fixed64
  | .sfixed64, .sfixed32 => decMapSfixed64Sfixed32
  | .sfixed64, .sfixed64 => decMapSfixed64Sfixed64
  | .sfixed64, .float => decMapSfixed64Float
  | .sfixed64, .double => decMapSfixed64Double
  | .sfixed64, .string => decMapSfixed64String
  | .sfixed64, .bytes => decMapSfixed64Bytes
  | .string, .bool => decMapStringBool
  | .string, .int32 => decMapStringInt32
  | .string, .int64 => decMapStringInt64
  | .string, .uint32 => decMapStringUint32
  | .string, .uint64 => decMapStringUint64
  | .string, .sint32 => decMapStringSint32
  | .string, .sint64 => decMapStringSint64
  | .string, .fixed32 => decMapStringFixed32
  | .string, .fixed64 => decMapStringFixed64
  | .string, .sfixed32 => decMapStringSfixed32
  | .string, .sfixed64 => decMapStringSfixed64
  | .string, .float => decMapStringFloat
  | .string, .double => decMapStringDouble
  | .string, .string => decMapStringString
  | .string, .bytes => decMapStringBytes
  | .float, _ => fun _ _ _ => .panic "no map codec with a float key"
  | .double, _ => fun _ _ _ => .panic "no map codec with a double key"
  | .bytes, _ => fun _ _ _ => .panic "no map codec with a bytes key"

section shapes
open GoSrc.Map GoSrc.DecTypes
theorem decMapBoolBool_shape : decMapBoolBool = gDec (K := GoVal .bool) (V := GoVal .bool) false false rBool rBool := rfl
theorem decMapBoolInt32_shape : decMapBoolInt32 = gDec (K := GoVal .bool) (V := GoVal .int32) false (0 : Int) rBool rInt32 := rfl
theorem decMapBoolInt64_shape : decMapBoolInt64 = gDec (K := GoVal .bool) (V := GoVal .int64) false (0 : Int) rBool rInt64 := rfl
theorem decMapBoolUint32_shape : decMapBoolUint32 = gDec (K := GoVal .bool) (V := GoVal .uint32) false 0 rBool rUint32 := rfl
theorem decMapBoolUint64_shape : decMapBoolUint64 = gDec (K := GoVal .bool) (V := GoVal .uint64) false 0 rBool rUint64 := rfl
theorem decMapBoolSint32_shape : decMapBoolSint32 = gDec (K := GoVal .bool) (V := GoVal .sint32) false (0 : Int) rBool rSint32 := rfl
theorem decMapBoolSint64_shape : decMapBoolSint64 = gDec (K := GoVal .bool) (V := GoVal .sint64) false (0 : Int) rBool rSint64 := rfl
theorem decMapBoolFixed32_shape : decMapBoolFixed32 = gDec (K := GoVal .bool) (V := GoVal .fixed32) false 0 rBool rFixed32 := rfl
theorem decMapBoolFixed64_shape : decMapBoolFixed64 = gDec (K := GoVal .bool) (V := GoVal .fixed64) false 0 rBool rFixed64 := rfl
theorem decMapBoolSfixed32_shape : decMapBoolSfixed32 = gDec (K := GoVal .bool) (V := GoVal .sfixed32) false (0 : Int) rBool rSfixed32 := rfl
theorem decMapBoolSfixed64_shape : decMapBoolSfixed64 = gDec (K := GoVal .bool) (V := GoVal .sfixed64) false (0 : Int) rBool rSfixed64 := rfl
theorem decMapBoolFloat_shape : decMapBoolFloat = gDec (K := GoVal .bool) (V := GoVal .float) false (0 : Nat) rBool rFloat := rfl
theorem decMapBoolDouble_shape : decMapBoolDouble = gDec (K := GoVal .bool) (V := GoVal .double) false (0 : Nat) rBool rDouble := rfl
theorem decMapBoolString_shape : decMapBoolString = gDec (K := GoVal .bool) (V := GoVal .string) false [] rBool rString := rfl
theorem decMapBoolBytes_shape : decMapBoolBytes = gDec (K := GoVal .bool) (V := GoVal .bytes) false [] rBool rBytes := rfl
theorem decMapInt32Bool_shape : decMapInt32Bool = gDec (K := GoVal .int32) (V := GoVal .bool) (0 : Int) false rInt32 rBool := rfl
theorem decMapInt32Int32_shape : decMapInt32Int32 = gDec (K := GoVal .int32) (V := GoVal .int32) (0 : Int) (0 : Int) rInt32 rInt32 := rfl
theorem decMapInt32Int64_shape : decMapInt32Int64 = gDec (K := GoVal .int32) (V := GoVal .int64) (0 : Int) (0 : Int) rInt32 rInt64 := rfl
theorem decMapInt32Uint32_shape : decMapInt32Uint32 = gDec (K := GoVal .int32) (V := GoVal .uint32) (0 : Int) 0 rInt32 rUint32 := rfl
theorem decMapInt32Uint64_shape : decMapInt32Uint64 = gDec (K := GoVal .int32) (V := GoVal .uint64) (0 : Int) 0 rInt32 rUint64 := rfl
theorem decMapInt32Sint32_shape : decMapInt32Sint32 = gDec (K := GoVal .int32) (V := GoVal .sint32) (0 : Int) (0 : Int) rInt32 rSint32 := rfl
theorem decMapInt32Sint64_shape : decMapInt32Sint64 = gDec (K := GoVal .int32) (V := GoVal .sint64) (0 : Int) (0 : Int) rInt32 rSint64 := rfl
theorem decMapInt32Fixed32_shape : decMapInt32Fixed32 = gDec (K := GoVal .int32) (V := GoVal .fixed32) (0 : Int) 0 rInt32 rFixed32 := rfl
theorem decMapInt32Fixed64_shape : decMapInt32Fixed64 = gDec (K := GoVal .int32) (V := GoVal .fixed64) (0 : Int) 0 rInt32 rFixed64 := rfl
theorem decMapInt32Sfixed32_shape : decMapInt32Sfixed32 = gDec (K := GoVal .int32) (V := GoVal .sfixed32) (0 : Int) (0 : Int) rInt32 rSfixed32 := rfl
theorem decMapInt32Sfixed64_shape : decMapInt32Sfixed64 = gDec (K := GoVal .int32) (V := GoVal .sfixed64) (0 : Int) (0 : Int) rInt32 rSfixed64 := rfl
theorem decMapInt32Float_shape : decMapInt32Float = gDec (K := GoVal .int32) (V := GoVal .float) (0 : Int) (0 : Nat) rInt32 rFloat := rfl
theorem decMapInt32Double_shape : decMapInt32Double = gDec (K := GoVal .int32) (V := GoVal .double) (0 : Int) (0 : Nat) rInt32 rDouble := rfl
theorem decMapInt32String_shape : decMapInt32String = gDec (K := GoVal .int32) (V := GoVal .string) (0 : Int) [] rInt32 rString := rfl
theorem decMapInt32Bytes_shape : decMapInt32Bytes = gDec (K := GoVal .int32) (V := GoVal .bytes) (0 : Int) [] rInt32 rBytes := rfl
theorem decMapInt64Bool_shape : decMapInt64Bool = gDec (K := GoVal .int64) (V := GoVal .bool) (0 : Int) false rInt64 rBool := rfl
theorem decMapInt64Int32_shape : decMapInt64Int32 = gDec (K := GoVal .int64) (V := GoVal .int32) (0 : Int) (0 : Int) rInt64 rInt32 := rfl
theorem decMapInt64Int64_shape : decMapInt64Int64 = gDec (K := GoVal .int64) (V := GoVal .int64) (0 : Int) (0 : Int) rInt64 rInt64 := rfl
theorem decMapInt64Uint32_shape : decMapInt64Uint32 = gDec (K := GoVal .int64) (V := GoVal .uint32) (0 : Int) 0 rInt64 rUint32 := rfl
theorem decMapInt64Uint64_shape : decMapInt64Uint64 = gDec (K := GoVal .int64) (V := GoVal .uint64) (0 : Int) 0 rInt64 rUint64 := rfl
theorem decMapInt64Sint32_shape : decMapInt64Sint32 = gDec (K := GoVal .int64) (V := GoVal .sint32) (0 : Int) (0 : Int) rInt64 rSint32 := rfl
theorem decMapInt64Sint64_shape : decMapInt64Sint64 = gDec (K := GoVal .int64) (V := GoVal .sint64) (0 : Int) (0 : Int) rInt64 rSint64 := rfl
theorem decMapInt64Fixed32_shape : decMapInt64Fixed32 = gDec (K := GoVal .int64) (V := GoVal .fixed32) (0 : Int) 0 rInt64 rFixed32 := rfl
theorem decMapInt64Fixed64_shape : decMapInt64Fixed64 = gDec (K := GoVal .int64) (V := GoVal .fixed64) (0 : Int) 0 rInt64 rFixed64 := rfl
theorem decMapInt64Sfixed32_shape : decMapInt64Sfixed32 = gDec (K := GoVal .int64) (V := GoVal .sfixed32) (0 : Int) (0 : Int) rInt64 rSfixed32 := rfl
theorem decMapInt64Sfixed64_shape : decMapInt64Sfixed64 = gDec (K := GoVal .int64) (V := GoVal .sfixed64) (0 : Int) (0 : Int) rInt64 rSfixed64 := rfl
theorem decMapInt64Float_shape : decMapInt64Float = gDec (K := GoVal .int64) (V := GoVal .float) (0 : Int) (0 : Nat) rInt64 rFloat := rfl
theorem decMapInt64Double_shape : decMapInt64Double = gDec (K := GoVal .int64) (V := GoVal .double) (0 : Int) (0 : Nat) rInt64 rDouble := rfl
theorem decMapInt64String_shape : decMapInt64String = gDec (K := GoVal .int64) (V := GoVal .string) (0 : Int) [] rInt64 rString := rfl
theorem decMapInt64Bytes_shape : decMapInt64Bytes = gDec (K := GoVal .int64) (V := GoVal .bytes) (0 : Int) [] rInt64 rBytes := rfl
theorem decMapUint32Bool_shape : decMapUint32Bool = gDec (K := GoVal .uint32) (V := GoVal .bool) 0 false rUint32 rBool := rfl
theorem decMapUint32Int32_shape : decMapUint32Int32 = gDec (K := GoVal .uint32) (V := GoVal .int32) 0 (0 : Int) rUint32 rInt32 := rfl
theorem decMapUint32Int64_shape : decMapUint32Int64 = gDec (K := GoVal .uint32) (V := GoVal .int64) 0 (0 : Int) rUint32 rInt64 := rfl
theorem decMapUint32Uint32_shape : decMapUint32Uint32 = gDec (K := GoVal .uint32) (V := GoVal .uint32) 0 0 rUint32 rUint32 := rfl
theorem decMapUint32Uint64_shape : decMapUint32Uint64 = gDec (K := GoVal .uint32) (V := GoVal .uint64) 0 0 rUint32 rUint64 := rfl
theorem decMapUint32Sint32_shape : decMapUint32Sint32 = gDec (K := GoVal .uint32) (V := GoVal .sint32) 0 (0 : Int) rUint32 rSint32 := rfl
theorem decMapUint32Sint64_shape : decMapUint32Sint64 = gDec (K := GoVal .uint32) (V := GoVal .sint64) 0 (0 : Int) rUint32 rSint64 := rfl
theorem decMapUint32Fixed32_shape : decMapUint32Fixed32 = gDec (K := GoVal .uint32) (V := GoVal .fixed32) 0 0 rUint32 rFixed32 := rfl
theorem decMapUint32Fixed64_shape : decMapUint32Fixed64 = gDec (K := GoVal .uint32) (V := GoVal .fixed64) 0 0 rUint32 rFixed64 := rfl
theorem decMapUint32Sfixed32_shape : decMapUint32Sfixed32 = gDec (K := GoVal .uint32) (V := GoVal .sfixed32) 0 (0 : Int) rUint32 rSfixed32 := rfl
theorem decMapUint32Sfixed64_shape : decMapUint32Sfixed64 = gDec (K := GoVal .uint32) (V := GoVal .sfixed64) 0 (0 : Int) rUint32 rSfixed64 := rfl
theorem decMapUint32Float_shape : decMapUint32Float = gDec (K := GoVal .uint32) (V := GoVal .float) 0 (0 : Nat) rUint32 rFloat := rfl
theorem decMapUint32Double_shape : decMapUint32Double = gDec (K := GoVal .uint32) (V := GoVal .double) 0 (0 : Nat) rUint32 rDouble := rfl
theorem decMapUint32String_shape : decMapUint32String = gDec (K := GoVal .uint32) (V := GoVal .string) 0 [] rUint32 rString := rfl
theorem decMapUint32Bytes_shape : decMapUint32Bytes = gDec (K := GoVal .uint32) (V := GoVal .bytes) 0 [] rUint32 rBytes := rfl
theorem decMapUint64Bool_shape : decMapUint64Bool = gDec (K := GoVal .uint64) (V := GoVal .bool) 0 false rUint64 rBool := rfl
theorem decMapUint64Int32_shape : decMapUint64Int32 = gDec (K := GoVal .uint64) (V := GoVal .int32) 0 (0 : Int) rUint64 rInt32 := rfl
theorem decMapUint64Int64_shape : decMapUint64Int64 = gDec (K := GoVal .uint64) (V := GoVal .int64) 0 (0 : Int) rUint64 rInt64 := rfl
theorem decMapUint64Uint32_shape : decMapUint64Uint32 = gDec (K := GoVal .uint64) (V := GoVal .uint32) 0 0 rUint64 rUint32 := rfl
theorem decMapUint64Uint64_shape : decMapUint64Uint64 = gDec (K := GoVal .uint64) (V := GoVal .uint64) 0 0 rUint64 rUint64 := rfl
theorem decMapUint64Sint32_shape : decMapUint64Sint32 = gDec (K := GoVal .uint64) (V := GoVal .sint32) 0 (0 : Int) rUint64 rSint32 := rfl
theorem decMapUint64Sint64_shape : decMapUint64Sint64 = gDec (K := GoVal .uint64) (V := GoVal .sint64) 0 (0 : Int) rUint64 rSint64 := rfl
theorem decMapUint64Fixed32_shape : decMapUint64Fixed32 = gDec (K := GoVal .uint64) (V := GoVal .fixed32) 0 0 rUint64 rFixed32 := rfl
theorem decMapUint64Fixed64_shape : decMapUint64Fixed64 = gDec (K := GoVal .uint64) (V := GoVal .fixed64) 0 0 rUint64 rFixed64 := rfl
theorem decMapUint64Sfixed32_shape : decMapUint64Sfixed32 = gDec (K := GoVal .uint64) (V := GoVal .sfixed32) 0 (0 : Int) rUint64 rSfixed32 := rfl
theorem decMapUint64Sfixed64_shape : decMapUint64Sfixed64 = gDec (K := GoVal .uint64) (V := GoVal .sfixed64) 0 (0 : Int) rUint64 rSfixed64 := rfl
theorem decMapUint64Float_shape : decMapUint64Float = gDec (K := GoVal .uint64) (V := GoVal .float) 0 (0 : Nat) rUint64 rFloat := rfl
theorem decMapUint64Double_shape : decMapUint64Double = gDec (K := GoVal .uint64) (V := GoVal .double) 0 (0 : Nat) rUint64 rDouble := rfl
theorem decMapUint64String_shape : decMapUint64String = gDec (K := GoVal .uint64) (V := GoVal .string) 0 [] rUint64 rString := rfl
theorem decMapUint64Bytes_shape : decMapUint64Bytes = gDec (K := GoVal .uint64) (V := GoVal .bytes) 0 [] rUint64 rBytes := rfl
theorem decMapSint32Bool_shape : decMapSint32Bool = gDec (K := GoVal .sint32) (V := GoVal .bool) (0 : Int) false rSint32 rBool := rfl
theorem decMapSint32Int32_shape : decMapSint32Int32 = gDec (K := GoVal .sint32) (V := GoVal .int32) (0 : Int) (0 : Int) rSint32 rInt32 := rfl
theorem decMapSint32Int64_shape : decMapSint32Int64 = gDec (K := GoVal .sint32) (V := GoVal .int64) (0 : Int) (0 : Int) rSint32 rInt64 := rfl
theorem decMapSint32Uint32_shape : decMapSint32Uint32 = gDec (K := GoVal .sint32) (V := GoVal .uint32) (0 : Int) 0 rSint32 rUint32 := rfl
theorem decMapSint32Uint64_shape : decMapSint32Uint64 = gDec (K := GoVal .sint32) (V := GoVal .uint64) (0 : Int) 0 rSint32 rUint64 := rfl
theorem decMapSint32Sint32_shape : decMapSint32Sint32 = gDec (K := GoVal .sint32) (V := GoVal .sint32) (0 : Int) (0 : Int) rSint32 rSint32 := rfl
theorem decMapSint32Sint64_shape : decMapSint32Sint64 = gDec (K := GoVal .sint32) (V := GoVal .sint64) (0 : Int) (0 : Int) rSint32 rSint64 := rfl
theorem decMapSint32Fixed32_shape : decMapSint32Fixed32 = gDec (K := GoVal .sint32) (V := GoVal .fixed32) (0 : Int) 0 rSint32 rFixed32 := rfl
theorem decMapSint32Fixed64_shape : decMapSint32Fixed64 = gDec (K := GoVal .sint32) (V := GoVal .fixed64) (0 : Int) 0 rSint32 rFixed64 := rfl
theorem decMapSint32Sfixed32_shape : decMapSint32Sfixed32 = gDec (K := GoVal .sint32) (V := GoVal .sfixed32) (0 : Int) (0 : Int) rSint32 rSfixed32 := rfl
theorem decMapSint32Sfixed64_shape : decMapSint32Sfixed64 = gDec (K := GoVal .sint32) (V := GoVal .sfixed64) (0 : Int) (0 : Int) rSint32 rSfixed64 := rfl
theorem decMapSint32Float_shape : decMapSint32Float = gDec (K := GoVal .sint32) (V := GoVal .float) (0 : Int) (0 : Nat) rSint32 rFloat := rfl
theorem decMapSint32Double_shape : decMapSint32Double = gDec (K := GoVal .sint32) (V := GoVal .double) (0 : Int) (0 : Nat) rSint32 rDouble := rfl
theorem decMapSint32String_shape : decMapSint32String = gDec (K := GoVal .sint32) (V := GoVal .string) (0 : Int) [] rSint32 rString := rfl
theorem decMapSint32Bytes_shape : decMapSint32Bytes = gDec (K := GoVal .sint32) (V := GoVal .bytes) (0 : Int) [] rSint32 rBytes := rfl
theorem decMapSint64Bool_shape : decMapSint64Bool = gDec (K := GoVal .sint64) (V := GoVal .bool) (0 : Int) false rSint64 rBool := rfl
theorem decMapSint64Int32_shape : decMapSint64Int32 = gDec (K := GoVal .sint64) (V := GoVal .int32) (0 : Int) (0 : Int) rSint64 rInt32 := rfl
theorem decMapSint64Int64_shape : decMapSint64Int64 = gDec (K := GoVal .sint64) (V := GoVal .int64) (0 : Int) (0 : Int) rSint64 rInt64 := rfl
theorem decMapSint64Uint32_shape : decMapSint64Uint32 = gDec (K := GoVal .sint64) (V := GoVal .uint32) (0 : Int) 0 rSint64 rUint32 := rfl
theorem decMapSint64Uint64_shape : decMapSint64Uint64 = gDec (K := GoVal .sint64) (V := GoVal .uint64) (0 : Int) 0 rSint64 rUint64 := rfl
theorem decMapSint64Sint32_shape : decMapSint64Sint32 = gDec (K := GoVal .sint64) (V := GoVal .sint32) (0 : Int) (0 : Int) rSint64 rSint32 := rfl
theorem decMapSint64Sint64_shape : decMapSint64Sint64 = gDec (K := GoVal .sint64) (V := GoVal .sint64) (0 : Int) (0 : Int) rSint64 rSint64 := rfl
theorem decMapSint64Fixed32_shape : decMapSint64Fixed32 = gDec (K := GoVal .sint64) (V := GoVal .fixed32) (0 : Int) 0 rSint64 rFixed32 := rfl
theorem decMapSint64Fixed64_shape : decMapSint64Fixed64 = gDec (K := GoVal .sint64) (V := GoVal .fixed64) (0 : Int) 0 rSint64 rFixed64 := rfl
theorem decMapSint64Sfixed32_shape : decMapSint64Sfixed32 = gDec (K := GoVal .sint64) (V := GoVal .sfixed32) (0 : Int) (0 : Int) rSint64 rSfixed32 := rfl
theorem decMapSint64Sfixed64_shape : decMapSint64Sfixed64 = gDec (K := GoVal .sint64) (V := GoVal .sfixed64) (0 : Int) (0 : Int) rSint64 rSfixed64 := rfl
theorem decMapSint64Float_shape : decMapSint64Float = gDec (K := GoVal .sint64) (V := GoVal .float) (0 : Int) (0 : Nat) rSint64 rFloat := rfl
theorem decMapSint64Double_shape : decMapSint64Double = gDec (K := GoVal .sint64) (V := GoVal .double) (0 : Int) (0 : Nat) rSint64 rDouble := rfl
theorem decMapSint64String_shape : decMapSint64String = gDec (K := GoVal .sint64) (V := GoVal .string) (0 : Int) [] rSint64 rString := rfl
theorem decMapSint64Bytes_shape : decMapSint64Bytes = gDec (K := GoVal .sint64) (V := GoVal .bytes) (0 : Int) [] rSint64 rBytes := rfl
theorem decMapFixed32Bool_shape : decMapFixed32Bool = gDec (K := GoVal .fixed32) (V := GoVal .bool) 0 false rFixed32 rBool := rfl
theorem decMapFixed32Int32_shape : decMapFixed32Int32 = gDec (K := GoVal .fixed32) (V := GoVal .int32) 0 (0 : Int) rFixed32 rInt32 := rfl
theorem decMapFixed32Int64_shape : decMapFixed32Int64 = gDec (K := GoVal .fixed32) (V := GoVal .int64) 0 (0 : Int) rFixed32 rInt64 := rfl
theorem decMapFixed32Uint32_shape : decMapFixed32Uint32 = gDec (K := GoVal .fixed32) (V := GoVal .uint32) 0 0 rFixed32 rUint32 := rfl
theorem decMapFixed32Uint64_shape : decMapFixed32Uint64 = gDec (K := GoVal .fixed32) (V := GoVal .uint64) 0 0 rFixed32 rUint64 := rfl
theorem decMapFixed32Sint32_shape : decMapFixed32Sint32 = gDec (K := GoVal .fixed32) (V := GoVal .sint32) 0 (0 : Int) rFixed32 rSint32 := rfl
theorem decMapFixed32Sint64_shape : decMapFixed32Sint64 = gDec (K := GoVal .fixed32) (V := GoVal .sint64) 0 (0 : Int) rFixed32 rSint64 := rfl
theorem decMapFixed32Fixed32_shape : decMapFixed32Fixed32 = gDec (K := GoVal .fixed32) (V := GoVal .fixed32) 0 0 rFixed32 rFixed32 := rfl
theorem decMapFixed32Fixed64_shape : decMapFixed32Fixed64 = gDec (K := GoVal .fixed32) (V := GoVal .fixed64) 0 0 rFixed32 rFixed64 := rfl
theorem decMapFixed32Sfixed32_shape : decMapFixed32Sfixed32 = gDec (K := GoVal .fixed32) (V := GoVal .sfixed32) 0 (0 : Int) rFixed32 rSfixed32 := rfl
theorem decMapFixed32Sfixed64_shape : decMapFixed32Sfixed64 = gDec (K := GoVal .fixed32) (V := GoVal .sfixed64) 0 (0 : Int) rFixed32 rSfixed64 := rfl
theorem decMapFixed32Float_shape : decMapFixed32Float = gDec (K := GoVal .fixed32) (V := GoVal .float) 0 (0 : Nat) rFixed32 rFloat := rfl
theorem decMapFixed32Double_shape : decMapFixed32Double = gDec (K := GoVal .fixed32) (V := GoVal .double) 0 (0 : Nat) rFixed32 rDouble := rfl
theorem decMapFixed32String_shape : decMapFixed32String = gDec (K := GoVal .fixed32) (V := GoVal .string) 0 [] rFixed32 rString := rfl
theorem decMapFixed32Bytes_shape : decMapFixed32Bytes = gDec (K := GoVal .fixed32) (V := GoVal .bytes) 0 [] rFixed32 rBytes := rfl
theorem decMapFixed64Bool_shape : decMapFixed64Bool = gDec (K := GoVal .fixed64) (V := GoVal .bool) 0 false rFixed64 rBool := rfl
theorem decMapFixed64Int32_shape : decMapFixed64Int32 = gDec (K := GoVal .fixed64) (V := GoVal .int32) 0 (0 : Int) rFixed64 rInt32 := rfl
theorem decMapFixed64Int64_shape : decMapFixed64Int64 = gDec (K := GoVal .fixed64) (V := GoVal .int64) 0 (0 : Int) rFixed64 rInt64 := rfl
theorem decMapFixed64Uint32_shape : decMapFixed64Uint32 = gDec (K := GoVal .fixed64) (V := GoVal .uint32) 0 0 rFixed64 rUint32 := rfl
theorem decMapFixed64Uint64_shape : decMapFixed64Uint64 = gDec (K := GoVal .fixed64) (V := GoVal .uint64) 0 0 rFixed64 rUint64 := rfl
theorem decMapFixed64Sint32_shape : decMapFixed64Sint32 = gDec (K := GoVal .fixed64) (V := GoVal .sint32) 0 (0 : Int) rFixed64 rSint32 := rfl
theorem decMapFixed64Sint64_shape : decMapFixed64Sint64 = gDec (K := GoVal .fixed64) (V := GoVal .sint64) 0 (0 : Int) rFixed64 rSint64 := rfl
theorem decMapFixed64Fixed32_shape : decMapFixed64Fixed32 = gDec (K := GoVal .fixed64) (V := GoVal .fixed32) 0 0 rFixed64 rFixed32 := rfl
theorem decMapFixed64Fixed64_shape : decMapFixed64Fixed64 = gDec (K := GoVal .fixed64) (V := GoVal .fixed64) 0 0 rFixed64 rFixed64 := rfl
theorem decMapFixed64Sfixed32_shape : decMapFixed64Sfixed32 = gDec (K := GoVal .fixed64) (V := GoVal .sfixed32) 0 (0 : Int) rFixed64 rSfixed32 := rfl
theorem decMapFixed64Sfixed64_shape : decMapFixed64Sfixed64 = gDec (K := GoVal .fixed64) (V := GoVal .sfixed64) 0 (0 : Int) rFixed64 rSfixed64 := rfl
theorem decMapFixed64Float_shape : decMapFixed64Float = gDec (K := GoVal .fixed64) (V := GoVal .float) 0 (0 : Nat) rFixed64 rFloat := rfl
theorem decMapFixed64Double_shape : decMapFixed64Double = gDec (K := GoVal .fixed64) (V := GoVal .double) 0 (0 : Nat) rFixed64 rDouble := rfl
theorem decMapFixed64String_shape : decMapFixed64String = gDec (K := GoVal .fixed64) (V := GoVal .string) 0 [] rFixed64 rString := rfl
theorem decMapFixed64Bytes_shape : decMapFixed64Bytes = gDec (K := GoVal .fixed64) (V := GoVal .bytes) 0 [] rFixed64 rBytes := rfl
theorem decMapSfixed32Bool_shape : decMapSfixed32Bool = gDec (K := GoVal .sfixed32) (V := GoVal .bool) (0 : Int) false rSfixed32 rBool := rfl
theorem decMapSfixed32Int32_shape : decMapSfixed32Int32 = gDec (K := GoVal .sfixed32) (V := GoVal .int32) (0 : Int) (0 : Int) rSfixed32 rInt32 := rfl
theorem decMapSfixed32Int64_shape : decMapSfixed32Int64 = gDec (K := GoVal .sfixed32) (V := GoVal .int64) (0 : Int) (0 : Int) rSfixed32 rInt64 := rfl
theorem decMapSfixed32Uint32_shape : decMapSfixed32Uint32 = gDec (K := GoVal .sfixed32) (V := GoVal .uint32) (0 : Int) 0 rSfixed32 rUint32 := rfl
theorem decMapSfixed32Uint64_shape : decMapSfixed32Uint64 = gDec (K := GoVal .sfixed32) (V := GoVal .uint64) (0 : Int) 0 rSfixed32 rUint64 := rfl
theorem decMapSfixed32Sint32_shape : decMapSfixed32Sint32 = gDec (K := GoVal .sfixed32) (V := GoVal .sint32) (0 : Int) (0 : Int) rSfixed32 rSint32 := rfl
theorem decMapSfixed32Sint64_shape : decMapSfixed32Sint64 = gDec (K := GoVal .sfixed32) (V := GoVal .sint64) (0 : Int) (0 : Int) rSfixed32 rSint64 := rfl
theorem decMapSfixed32Fixed32_shape : decMapSfixed32Fixed32 = gDec (K := GoVal .sfixed32) (V := GoVal .fixed32) (0 : Int) 0 rSfixed32 rFixed32 := rfl
theorem decMapSfixed32Fixed64_shape : decMapSfixed32Fixed64 = gDec (K := GoVal .sfixed32) (V := GoVal .fixed64) (0 : Int) 0 rSfixed32 rFixed64 := rfl
theorem decMapSfixed32Sfixed32_shape : decMapSfixed32Sfixed32 = gDec (K := GoVal .sfixed32) (V := GoVal .sfixed32) (0 : Int) (0 : Int) rSfixed32 rSfixed32 := rfl
theorem decMapSfixed32Sfixed64_shape : decMapSfixed32Sfixed64 = gDec (K := GoVal .sfixed32) (V := GoVal .sfixed64) (0 : Int) (0 : Int) rSfixed32 rSfixed64 := rfl
theorem decMapSfixed32Float_shape : decMapSfixed32Float = gDec (K := GoVal .sfixed32) (V := GoVal .float) (0 : Int) (0 : Nat) rSfixed32 rFloat := rfl
theorem decMapSfixed32Double_shape : decMapSfixed32Double = gDec (K := GoVal .sfixed32) (V := GoVal .double) (0 : Int) (0 : Nat) rSfixed32 rDouble := rfl
theorem decMapSfixed32String_shape : decMapSfixed32String = gDec (K := GoVal .sfixed32) (V := GoVal .string) (0 : Int) [] rSfixed32 rString := rfl
theorem decMapSfixed32Bytes_shape : decMapSfixed32Bytes = gDec (K := GoVal .sfixed32) (V := GoVal .bytes) (0 : Int) [] rSfixed32 rBytes := rfl
theorem decMapSfixed64Bool_shape : decMapSfixed64Bool = gDec (K := GoVal .sfixed64) (V := GoVal .bool) (0 : Int) false rSfixed64 rBool := rfl
theorem decMapSfixed64Int32_shape : decMapSfixed64Int32 = gDec (K := GoVal .sfixed64) (V := GoVal .int32) (0 : Int) (0 : Int) rSfixed64 rInt32 := rfl
theorem decMapSfixed64Int64_shape : decMapSfixed64Int64 = gDec (K := GoVal .sfixed64) (V := GoVal .int64) (0 : Int) (0 : Int) rSfixed64 rInt64 := rfl
theorem decMapSfixed64Uint32_shape : decMapSfixed64Uint32 = gDec (K := GoVal .sfixed64) (V := GoVal .uint32) (0 : Int) 0 rSfixed64 rUint32 := rfl
theorem decMapSfixed64Uint64_shape : decMapSfixed64Uint64 = gDec (K := GoVal .sfixed64) (V := GoVal .uint64) (0 : Int) 0 rSfixed64 rUint64 := rfl
theorem decMapSfixed64Sint32_shape : decMapSfixed64Sint32 = gDec (K := GoVal .sfixed64) (V := GoVal .sint32) (0 : Int) (0 : Int) rSfixed64 rSint32 := rfl
theorem decMapSfixed64Sint64_shape : decMapSfixed64Sint64 = gDec (K := GoVal .sfixed64) (V := GoVal .sint64) (0 : Int) (0 : Int) rSfixed64 rSint64 := rfl
theorem decMapSfixed64Fixed32_shape : decMapSfixed64Fixed32 = gDec (K := GoVal .sfixed64) (V := GoVal .fixed32) (0 : Int) 0 rSfixed64 rFixed32 := rfl
theorem decMapSfixed64Fixed64_shape : decMapSfixed64Fixed64 = gDec (K := GoVal .sfixed64) (V := GoVal .fixed64) (0 : Int) 0 rSfixed64 rFixed64 := rfl
theorem decMapSfixed64Sfixed32_shape : decMapSfixed64Sfixed32 = gDec (K := GoVal .sfixed64) (V := GoVal .sfixed32) (0 : Int) (0 : Int) rSfixed64 rSfixed32 := rfl
theorem decMapSfixed64Sfixed64_shape : decMapSfixed64Sfixed64 = gDec (K := GoVal .sfixed64) (V := GoVal .sfixed64) (0 : Int) (0 : Int) rSfixed64 rSfixed64 := rfl
theorem decMapSfixed64Float_shape : decMapSfixed64Float = gDec (K := GoVal .sfixed64) (V := GoVal .float) (0 : Int) (0 : Nat) rSfixed64 rFloat := rfl
theorem decMapSfixed64Double_shape : decMapSfixed64Double = gDec (K := GoVal .sfixed64) (V := GoVal .double) (0 : Int) (0 : Nat) rSfixed64 rDouble := rfl
theorem decMapSfixed64String_shape : decMapSfixed64String = gDec (K := GoVal .sfixed64) (V := GoVal .string) (0 : Int) [] rSfixed64 rString := rfl
theorem decMapSfixed64Bytes_shape : decMapSfixed64Bytes = gDec (K := GoVal .sfixed64) (V := GoVal .bytes) (0 : Int) [] rSfixed64 rBytes := rfl
theorem decMapStringBool_shape : decMapStringBool = gDec (K := GoVal .string) (V := GoVal .bool) [] false rString rBool := rfl
theorem decMapStringInt32_shape : decMapStringInt32 = gDec (K := GoVal .string) (V := GoVal .int32) [] (0 : Int) rString rInt32 := rfl
theorem decMapStringInt64_shape : decMapStringInt64 = gDec (K := GoVal .string) (V := GoVal .int64) [] (0 : Int) rString rInt64 := rfl
theorem decMapStringUint32_shape : decMapStringUint32 = gDec (K := GoVal .string) (V := GoVal .uint32) [] 0 rString rUint32 := rfl
theorem decMapStringUint64_shape : decMapStringUint64 = gDec (K := GoVal .string) (V := GoVal .uint64) [] 0 rString rUint64 := rfl
theorem decMapStringSint32_shape : decMapStringSint32 = gDec (K := GoVal .string) (V := GoVal .sint32) [] (0 : Int) rString rSint32 := rfl
theorem decMapStringSint64_shape : decMapStringSint64 = gDec (K := GoVal .string) (V := GoVal .sint64) [] (0 : Int) rString rSint64 := rfl
theorem decMapStringFixed32_shape : decMapStringFixed32 = gDec (K := GoVal .string) (V := GoVal .fixed32) [] 0 rString rFixed32 := rfl
theorem decMapStringFixed64_shape : decMapStringFixed64 = gDec (K := GoVal .string) (V := GoVal .fixed64) [] 0 rString rFixed64 := rfl
theorem decMapStringSfixed32_shape : decMapStringSfixed32 = gDec (K := GoVal .string) (V := GoVal .sfixed32) [] (0 : Int) rString rSfixed32 := rfl
theorem decMapStringSfixed64_shape : decMapStringSfixed64 = gDec (K := GoVal .string) (V := GoVal .sfixed64) [] (0 : Int) rString rSfixed64 := rfl
theorem decMapStringFloat_shape : decMapStringFloat = gDec (K := GoVal .string) (V := GoVal .float) [] (0 : Nat) rString rFloat := rfl
theorem decMapStringDouble_shape : decMapStringDouble = gDec (K := GoVal .string) (V := GoVal .double) [] (0 : Nat) rString rDouble := rfl
theorem decMapStringString_shape : decMapStringString = gDec (K := GoVal .string) (V := GoVal .string) [] [] rString rString := rfl
theorem decMapStringBytes_shape : decMapStringBytes = gDec (K := GoVal .string) (V := GoVal .bytes) [] [] rString rBytes := rfl
end shapes

/-- a model map whose keys are canonical for kind `k` -/
def KeysOK (k : Scalar) (m : Option (List (Val × Val))) : Prop := ∀ es, m = some es → ∀ e ∈ es, Canon k e.1

/-- TIE (picowire/map.go, PicoDecode, all 180 types): on the translated image of any model map with
canonical keys, the translated `PicoDecode` is the model's `mapDecode`: same decoder state, same
panics, and the resulting Go map is the image of the model's (entries with a new key appended,
an existing key overwritten in place, a nil map allocated at the first entry and left nil when there
is none). -/
theorem mapDecode_tie (k v : Scalar) (hk : isKeyKind k = true) (field : Int) (dec : Dec)
    (m : Option (List (Val × Val))) (hm : KeysOK k m) :
    srcMapDecode k v field dec (Fm (unV k) (unV v) m)
      = Res.mapr (fun p => (p.1, Fm (unV k) (unV v) p.2)) (mapDecode k v field dec m) := by
  have core : ∀ (zk : GoVal k) (zv : GoVal v), unV k k.zero = zk → unV v v.zero = zv →
      gDec zk zv (srcReadSingle k) (srcReadSingle v) field dec (Fm (unV k) (unV v) m)
        = Res.mapr (fun p => (p.1, Fm (unV k) (unV v) p.2)) (mapDecode k v field dec m) := by
    intro zk zv hzk hzv
    exact gDec_eq k v (unV k) (unV v) zk zv (srcReadSingle k) (srcReadSingle v) hzk hzv (read_spec k) (read_spec v)
      (Canon k) (canon_zero k) (canon_read k) (key_inj k hk) field dec m hm
  cases k <;> first | cases hk | skip
  case bool =>
    cases v
    case bool => show GoSrc.Map.decMapBoolBool field dec _ = _; rw [decMapBoolBool_shape]; exact core _ _ (unV_zero .bool) (unV_zero .bool)
    case int32 => show GoSrc.Map.decMapBoolInt32 field dec _ = _; rw [decMapBoolInt32_shape]; exact core _ _ (unV_zero .bool) (unV_zero .int32)
    case int64 => show GoSrc.Map.decMapBoolInt64 field dec _ = _; rw [decMapBoolInt64_shape]; exact core _ _ (unV_zero .bool) (unV_zero .int64)
    case uint32 => show GoSrc.Map.decMapBoolUint32 field dec _ = _; rw [decMapBoolUint32_shape]; exact core _ _ (unV_zero .bool) (unV_zero .uint32)
    case uint64 => show GoSrc.Map.decMapBoolUint64 field dec _ = _; rw [decMapBoolUint64_shape]; exact core _ _ (unV_zero .bool) (unV_zero .uint64)
    case sint32 => show GoSrc.Map.decMapBoolSint32 field dec _ = _; rw [decMapBoolSint32_shape]; exact core _ _ (unV_zero .bool) (unV_zero .sint32)
    case sint64 => show GoSrc.Map.decMapBoolSint64 field dec _ = _; rw [decMapBoolSint64_shape]; exact core _ _ (unV_zero .bool) (unV_zero .sint64)
    case fixed32 => show GoSrc.Map.decMapBoolFixed32 field dec _ = _; rw [decMapBoolFixed32_shape]; exact core _ _ (unV_zero .bool) (unV_zero .fixed32)
    case fixed64 => show GoSrc.Map.decMapBoolFixed64 field dec _ = _; rw [decMapBoolFixed64_shape]; exact core _ _ (unV_zero .bool) (unV_zero .fixed64)
    case sfixed32 => show GoSrc.Map.decMapBoolSfixed32 field dec _ = _; rw [decMapBoolSfixed32_shape]; exact core _ _ (unV_zero .bool) (unV_zero .sfixed32)
    case sfixed64 => show GoSrc.Map.decMapBoolSfixed64 field dec _ = _; rw [decMapBoolSfixed64_shape]; exact core _ _ (unV_zero .bool) (unV_zero .sfixed64)
    case float => show GoSrc.Map.decMapBoolFloat field dec _ = _; rw [decMapBoolFloat_shape]; exact core _ _ (unV_zero .bool) (unV_zero .float)
    case double => show GoSrc.Map.decMapBoolDouble field dec _ = _; rw [decMapBoolDouble_shape]; exact core _ _ (unV_zero .bool) (unV_zero .double)
    case string => show GoSrc.Map.decMapBoolString field dec _ = _; rw [decMapBoolString_shape]; exact core _ _ (unV_zero .bool) (unV_zero .string)
    case bytes => show GoSrc.Map.decMapBoolBytes field dec _ = _; rw [decMapBoolBytes_shape]; exact core _ _ (unV_zero .bool) (unV_zero .bytes)
  case int32 =>
    cases v
    case bool => show GoSrc.Map.decMapInt32Bool field dec _ = _; rw [decMapInt32Bool_shape]; exact core _ _ (unV_zero .int32) (unV_zero .bool)
    case int32 => show GoSrc.Map.decMapInt32Int32 field dec _ = _; rw [decMapInt32Int32_shape]; exact core _ _ (unV_zero .int32) (unV_zero .int32)
    case int64 => show GoSrc.Map.decMapInt32Int64 field dec _ = _; rw [decMapInt32Int64_shape]; exact core _ _ (unV_zero .int32) (unV_zero .int64)
    case uint32 => show GoSrc.Map.decMapInt32Uint32 field dec _ = _; rw [decMapInt32Uint32_shape]; exact core _ _ (unV_zero .int32) (unV_zero .uint32)
    case uint64 => show GoSrc.Map.decMapInt32Uint64 field dec _ = _; rw [decMapInt32Uint64_shape]; exact core _ _ (unV_zero .int32) (unV_zero .uint64)
    case sint32 => show GoSrc.Map.decMapInt32Sint32 field dec _ = _; rw [decMapInt32Sint32_shape]; exact core _ _ (unV_zero .int32) (unV_zero .sint32)
    case sint64 => show GoSrc.Map.decMapInt32Sint64 field dec _ = _; rw [decMapInt32Sint64_shape]; exact core _ _ (unV_zero .int32) (unV_zero .sint64)
    case fixed32 => show GoSrc.Map.decMapInt32Fixed32 field dec _ = _; rw [decMapInt32Fixed32_shape]; exact core _ _ (unV_zero .int32) (unV_zero .fixed32)
    case fixed64 => show GoSrc.Map.decMapInt32Fixed64 field dec _ = _; rw [decMapInt32Fixed64_shape]; exact core _ _ (unV_zero .int32) (unV_zero .fixed64)
    case sfixed32 => show GoSrc.Map.decMapInt32Sfixed32 field dec _ = _; rw [decMapInt32Sfixed32_shape]; exact core _ _ (unV_zero .int32) (unV_zero .sfixed32)
    case sfixed64 => show GoSrc.Map.decMapInt32Sfixed64 field dec _ = _; rw [decMapInt32Sfixed64_shape]; exact core _ _ (unV_zero .int32) (unV_zero .sfixed64)
    case float => show GoSrc.Map.decMapInt32Float field dec _ = _; rw [decMapInt32Float_shape]; exact core _ _ (unV_zero .int32) (unV_zero .float)
    case double => show GoSrc.Map.decMapInt32Double field dec _ = _; rw [decMapInt32Double_shape]; exact core _ _ (unV_zero .int32) (unV_zero .double)
    case string => show GoSrc.Map.decMapInt32String field dec _ = _; rw [decMapInt32String_shape]; exact core _ _ (unV_zero .int32) (unV_zero .string)
    case bytes => show GoSrc.Map.decMapInt32Bytes field dec _ = _; rw [decMapInt32Bytes_shape]; exact core _ _ (unV_zero .int32) (unV_zero .bytes)
  case int64 =>
    cases v
    case bool => show GoSrc.Map.decMapInt64Bool field dec _ = _; rw [decMapInt64Bool_shape]; exact core _ _ (unV_zero .int64) (unV_zero .bool)
    case int32 => show GoSrc.Map.decMapInt64Int32 field dec _ = _; rw [decMapInt64Int32_shape]; exact core _ _ (unV_zero .int64) (unV_zero .int32)
    case int64 => show GoSrc.Map.decMapInt64Int64 field dec _ = _; rw [decMapInt64Int64_shape]; exact core _ _ (unV_zero .int64) (unV_zero .int64)
    case uint32 => show GoSrc.Map.decMapInt64Uint32 field dec _ = _; rw [decMapInt64Uint32_shape]; exact core _ _ (unV_zero .int64) (unV_zero .uint32)
    case uint64 => show GoSrc.Map.decMapInt64Uint64 field dec _ = _; rw [decMapInt64Uint64_shape]; exact core _ _ (unV_zero .int64) (unV_zero .uint64)
    case sint32 => show GoSrc.Map.decMapInt64Sint32 field dec _ = _; rw [decMapInt64Sint32_shape]; exact core _ _ (unV_zero .int64) (unV_zero .sint32)
    case sint64 => show GoSrc.Map.decMapInt64Sint64 field dec _ = _; rw [decMapInt64Sint64_shape]; exact core _ _ (unV_zero .int64) (unV_zero .sint64)
    case fixed32 => show GoSrc.Map.decMapInt64Fixed32 field dec _ = _; rw [decMapInt64Fixed32_shape]; exact core _ _ (unV_zero .int64) (unV_zero .fixed32)
    case fixed64 => show GoSrc.Map.decMapInt64Fixed64 field dec _ = _; rw [decMapInt64Fixed64_shape]; exact core _ _ (unV_zero .int64) (unV_zero .fixed64)
    case sfixed32 => show GoSrc.Map.decMapInt64Sfixed32 field dec _ = _; rw [decMapInt64Sfixed32_shape]; exact core _ _ (unV_zero .int64) (unV_zero .sfixed32)
    case sfixed64 => show GoSrc.Map.decMapInt64Sfixed64 field dec _ = _; rw [decMapInt64Sfixed64_shape]; exact core _ _ (unV_zero .int64) (unV_zero .sfixed64)
    case float => show GoSrc.Map.decMapInt64Float field dec _ = _; rw [decMapInt64Float_shape]; exact core _ _ (unV_zero .int64) (unV_zero .float)
    case double => show GoSrc.Map.decMapInt64Double field dec _ = _; rw [decMapInt64Double_shape]; exact core _ _ (unV_zero .int64) (unV_zero .double)
    case string => show GoSrc.Map.decMapInt64String field dec _ = _; rw [decMapInt64String_shape]; exact core _ _ (unV_zero .int64) (unV_zero .string)
    case bytes => show GoSrc.Map.decMapInt64Bytes field dec _ = _; rw [decMapInt64Bytes_shape]; exact core _ _ (unV_zero .int64) (unV_zero .bytes)
  case uint32 =>
    cases v
    case bool => show GoSrc.Map.decMapUint32Bool field dec _ = _; rw [decMapUint32Bool_shape]; exact core _ _ (unV_zero .uint32) (unV_zero .bool)
    case int32 => show GoSrc.Map.decMapUint32Int32 field dec _ = _; rw [decMapUint32Int32_shape]; exact core _ _ (unV_zero .uint32) (unV_zero .int32)
    case int64 => show GoSrc.Map.decMapUint32Int64 field dec _ = _; rw [decMapUint32Int64_shape]; exact core _ _ (unV_zero .uint32) (unV_zero .int64)
    case uint32 => show GoSrc.Map.decMapUint32Uint32 field dec _ = _; rw [decMapUint32Uint32_shape]; exact core _ _ (unV_zero .uint32) (unV_zero .uint32)
    case uint64 => show GoSrc.Map.decMapUint32Uint64 field dec _ = _; rw [decMapUint32Uint64_shape]; exact core _ _ (unV_zero .uint32) (unV_zero .uint64)
    case sint32 => show GoSrc.Map.decMapUint32Sint32 field dec _ = _; rw [decMapUint32Sint32_shape]; exact core _ _ (unV_zero .uint32) (unV_zero .sint32)
    case sint64 => show GoSrc.Map.decMapUint32Sint64 field dec _ = _; rw [decMapUint32Sint64_shape]; exact core _ _ (unV_zero .uint32) (unV_zero .sint64)
    case fixed32 => show GoSrc.Map.decMapUint32Fixed32 field dec _ = _; rw [decMapUint32Fixed32_shape]; exact core _ _ (unV_zero .uint32) (unV_zero .fixed32)
    case fixed64 => show GoSrc.Map.decMapUint32Fixed64 field dec _ = _; rw [decMapUint32Fixed64_shape]; exact core _ _ (unV_zero .uint32) (unV_zero .fixed64)
    case sfixed32 => show GoSrc.Map.decMapUint32Sfixed32 field dec _ = _; rw [decMapUint32Sfixed32_shape]; exact core _ _ (unV_zero .uint32) (unV_zero .sfixed32)
    case sfixed64 => show GoSrc.Map.decMapUint32Sfixed64 field dec _ = _; rw [decMapUint32Sfixed64_shape]; exact core _ _ (unV_zero .uint32) (unV_zero .sfixed64)
    case float => show GoSrc.Map.decMapUint32Float field dec _ = _; rw [decMapUint32Float_shape]; exact core _ _ (unV_zero .uint32) (unV_zero .float)
    case double => show GoSrc.Map.decMapUint32Double field dec _ = _; rw [decMapUint32Double_shape]; exact core _ _ (unV_zero .uint32) (unV_zero .double)
    case string => show GoSrc.Map.decMapUint32String field dec _ = _; rw [decMapUint32String_shape]; exact core _ _ (unV_zero .uint32) (unV_zero .string)
    case bytes => show GoSrc.Map.decMapUint32Bytes field dec _ = _; rw [decMapUint32Bytes_shape]; exact core _ _ (unV_zero .uint32) (unV_zero .bytes)
  case uint64 =>
    cases v
    case bool => show GoSrc.Map.decMapUint64Bool field dec _ = _; rw [decMapUint64Bool_shape]; exact core _ _ (unV_zero .uint64) (unV_zero .bool)
    case int32 => show GoSrc.Map.decMapUint64Int32 field dec _ = _; rw [decMapUint64Int32_shape]; exact core _ _ (unV_zero .uint64) (unV_zero .int32)
    case int64 => show GoSrc.Map.decMapUint64Int64 field dec _ = _; rw [decMapUint64Int64_shape]; exact core _ _ (unV_zero .uint64) (unV_zero .int64)
    case uint32 => show GoSrc.Map.decMapUint64Uint32 field dec _ = _; rw [decMapUint64Uint32_shape]; exact core _ _ (unV_zero .uint64) (unV_zero .uint32)
    case uint64 => show GoSrc.Map.decMapUint64Uint64 field dec _ = _; rw [decMapUint64Uint64_shape]; exact core _ _ (unV_zero .uint64) (unV_zero .uint64)
    case sint32 => show GoSrc.Map.decMapUint64Sint32 field dec _ = _; rw [decMapUint64Sint32_shape]; exact core _ _ (unV_zero .uint64) (unV_zero .sint32)
    case sint64 => show GoSrc.Map.decMapUint64Sint64 field dec _ = _; rw [decMapUint64Sint64_shape]; exact core _ _ (unV_zero .uint64) (unV_zero .sint64)
    case fixed32 => show GoSrc.Map.decMapUint64Fixed32 field dec _ = _; rw [decMapUint64Fixed32_shape]; exact core _ _ (unV_zero .uint64) (unV_zero .fixed32)
    case fixed64 => show GoSrc.Map.decMapUint64Fixed64 field dec _ = _; rw [decMapUint64Fixed64_shape]; exact core _ _ (unV_zero .uint64) (unV_zero .fixed64)
    case sfixed32 => show GoSrc.Map.decMapUint64Sfixed32 field dec _ = _; rw [decMapUint64Sfixed32_shape]; exact core _ _ (unV_zero .uint64) (unV_zero .sfixed32)
    case sfixed64 => show GoSrc.Map.decMapUint64Sfixed64 field dec _ = _; rw [decMapUint64Sfixed64_shape]; exact core _ _ (unV_zero .uint64) (unV_zero .sfixed64)
    case float => show GoSrc.Map.decMapUint64Float field dec _ = _; rw [decMapUint64Float_shape]; exact core _ _ (unV_zero .uint64) (unV_zero .float)
    case double => show GoSrc.Map.decMapUint64Double field dec _ = _; rw [decMapUint64Double_shape]; exact core _ _ (unV_zero .uint64) (unV_zero .double)
    case string => show GoSrc.Map.decMapUint64String field dec _ = _; rw [decMapUint64String_shape]; exact core _ _ (unV_zero .uint64) (unV_zero .string)
    case bytes => show GoSrc.Map.decMapUint64Bytes field dec _ = _; rw [decMapUint64Bytes_shape]; exact core _ _ (unV_zero .uint64) (unV_zero .bytes)
  case sint32 =>
    cases v
    case bool => show GoSrc.Map.decMapSint32Bool field dec _ = _; rw [decMapSint32Bool_shape]; exact core _ _ (unV_zero .sint32) (unV_zero .bool)
    case int32 => show GoSrc.Map.decMapSint32Int32 field dec _ = _; rw [decMapSint32Int32_shape]; exact core _ _ (unV_zero .sint32) (unV_zero .int32)
    case int64 => show GoSrc.Map.decMapSint32Int64 field dec _ = _; rw [decMapSint32Int64_shape]; exact core _ _ (unV_zero .sint32) (unV_zero .int64)
    case uint32 => show GoSrc.Map.decMapSint32Uint32 field dec _ = _; rw [decMapSint32Uint32_shape]; exact core _ _ (unV_zero .sint32) (unV_zero .uint32)
    case uint64 => show GoSrc.Map.decMapSint32Uint64 field dec _ = _; rw [decMapSint32Uint64_shape]; exact core _ _ (unV_zero .sint32) (unV_zero .uint64)
    case sint32 => show GoSrc.Map.decMapSint32Sint32 field dec _ = _; rw [decMapSint32Sint32_shape]; exact core _ _ (unV_zero .sint32) (unV_zero .sint32)
    case sint64 => show GoSrc.Map.decMapSint32Sint64 field dec _ = _; rw [decMapSint32Sint64_shape]; exact core _ _ (unV_zero .sint32) (unV_zero .sint64)
    case fixed32 => show GoSrc.Map.decMapSint32Fixed32 field dec _ = _; rw [decMapSint32Fixed32_shape]; exact core _ _ (unV_zero .sint32) (unV_zero .fixed32)
    case fixed64 => show GoSrc.Map.decMapSint32Fixed64 field dec _ = _; rw [decMapSint32Fixed64_shape]; exact core _ _ (unV_zero .sint32) (unV_zero .fixed64)
    case sfixed32 => show GoSrc.Map.decMapSint32Sfixed32 field dec _ = _; rw [decMapSint32Sfixed32_shape]; exact core _ _ (unV_zero .sint32) (unV_zero .sfixed32)
    case sfixed64 => show GoSrc.Map.decMapSint32Sfixed64 field dec _ = _; rw [decMapSint32Sfixed64_shape]; exact core _ _ (unV_zero .sint32) (unV_zero .sfixed64)
    case float => show GoSrc.Map.decMapSint32Float field dec _ = _; rw [decMapSint32Float_shape]; exact core _ _ (unV_zero .sint32) (unV_zero .float)
    case double => show GoSrc.Map.decMapSint32Double field dec _ = _; rw [decMapSint32Double_shape]; exact core _ _ (unV_zero .sint32) (unV_zero .double)
    case string => show GoSrc.Map.decMapSint32String field dec _ = _; rw [decMapSint32String_shape]; exact core _ _ (unV_zero .sint32) (unV_zero .string)
    case bytes => show GoSrc.Map.decMapSint32Bytes field dec _ = _; rw [decMapSint32Bytes_shape]; exact core _ _ (unV_zero .sint32) (unV_zero .bytes)
  case sint64 =>
    cases v
    case bool => show GoSrc.Map.decMapSint64Bool field dec _ = _; rw [decMapSint64Bool_shape]; exact core _ _ (unV_zero .sint64) (unV_zero .bool)
    case int32 => show GoSrc.Map.decMapSint64Int32 field dec _ = _; rw [decMapSint64Int32_shape]; exact core _ _ (unV_zero .sint64) (unV_zero .int32)
    case int64 => show GoSrc.Map.decMapSint64Int64 field dec _ = _; rw [decMapSint64Int64_shape]; exact core _ _ (unV_zero .sint64) (unV_zero .int64)
    case uint32 => show GoSrc.Map.decMapSint64Uint32 field dec _ = _; rw [decMapSint64Uint32_shape]; exact core _ _ (unV_zero .sint64) (unV_zero .uint32)
    case uint64 => show GoSrc.Map.decMapSint64Uint64 field dec _ = _; rw [decMapSint64Uint64_shape]; exact core _ _ (unV_zero .sint64) (unV_zero .uint64)
    case sint32 => show GoSrc.Map.decMapSint64Sint32 field dec _ = _; rw [decMapSint64Sint32_shape]; exact core _ _ (unV_zero .sint64) (unV_zero .sint32)
    case sint64 => show GoSrc.Map.decMapSint64Sint64 field dec _ = _; rw [decMapSint64Sint64_shape]; exact core _ _ (unV_zero .sint64) (unV_zero .sint64)
    case fixed32 => show GoSrc.Map.decMapSint64Fixed32 field dec _ = _; rw [decMapSint64Fixed32_shape]; exact core _ _ (unV_zero .sint64) (unV_zero .fixed32)
    case fixed64 => show GoSrc.Map.decMapSint64Fixed64 field dec _ = _; rw [decMapSint64Fixed64_shape]; exact core _ _ (unV_zero .sint64) (unV_zero .fixed64)
    case sfixed32 => show GoSrc.Map.decMapSint64Sfixed32 field dec _ = _; rw [decMapSint64Sfixed32_shape]; exact core _ _ (unV_zero .sint64) (unV_zero .sfixed32)
    case sfixed64 => show GoSrc.Map.decMapSint64Sfixed64 field dec _ = _; rw [decMapSint64Sfixed64_shape]; exact core _ _ (unV_zero .sint64) (unV_zero .sfixed64)
    case float => show GoSrc.Map.decMapSint64Float field dec _ = _; rw [decMapSint64Float_shape]; exact core _ _ (unV_zero .sint64) (unV_zero .float)
    case double => show GoSrc.Map.decMapSint64Double field dec _ = _; rw [decMapSint64Double_shape]; exact core _ _ (unV_zero .sint64) (unV_zero .double)
    case string => show GoSrc.Map.decMapSint64String field dec _ = _; rw [decMapSint64String_shape]; exact core _ _ (unV_zero .sint64) (unV_zero .string)
    case bytes => show GoSrc.Map.decMapSint64Bytes field dec _ = _; rw [decMapSint64Bytes_shape]; exact core _ _ (unV_zero .sint64) (unV_zero .bytes)
  case fixed32 =>
    cases v
    case bool => show GoSrc.Map.decMapFixed32Bool field dec _ = _; rw [decMapFixed32Bool_shape]; exact core _ _ (unV_zero .fixed32) (unV_zero .bool)
    case int32 => show GoSrc.Map.decMapFixed32Int32 field dec _ = _; rw [decMapFixed32Int32_shape]; exact core _ _ (unV_zero .fixed32) (unV_zero .int32)
    case int64 => show GoSrc.Map.decMapFixed32Int64 field dec _ = _; rw [decMapFixed32Int64_shape]; exact core _ _ (unV_zero .fixed32) (unV_zero .int64)
    case uint32 => show GoSrc.Map.decMapFixed32Uint32 field dec _ = _; rw [decMapFixed32Uint32_shape]; exact core _ _ (unV_zero .fixed32) (unV_zero .uint32)
    case uint64 => show GoSrc.Map.decMapFixed32Uint64 field dec _ = _; rw [decMapFixed32Uint64_shape]; exact core _ _ (unV_zero .fixed32) (unV_zero .uint64)
    case sint32 => show GoSrc.Map.decMapFixed32Sint32 field dec _ = _; rw [decMapFixed32Sint32_shape]; exact core _ _ (unV_zero .fixed32) (unV_zero .sint32)
    case sint64 => show GoSrc.Map.decMapFixed32Sint64 field dec _ = _; rw [decMapFixed32Sint64_shape]; exact core _ _ (unV_zero .fixed32) (unV_zero .sint64)
    case fixed32 => show GoSrc.Map.decMapFixed32Fixed32 field dec _ = _; rw [decMapFixed32Fixed32_shape]; exact core _ _ (unV_zero .fixed32) (unV_zero .fixed32)
    case fixed64 => show GoSrc.Map.decMapFixed32Fixed64 field dec _ = _; rw [decMapFixed32Fixed64_shape]; exact core _ _ (unV_zero .fixed32) (unV_zero .fixed64)
    case sfixed32 => show GoSrc.Map.decMapFixed32Sfixed32 field dec _ = _; rw [decMapFixed32Sfixed32_shape]; exact core _ _ (unV_zero .fixed32) (unV_zero .sfixed32)
    case sfixed64 => show GoSrc.Map.decMapFixed32Sfixed64 field dec _ = _; rw [decMapFixed32Sfixed64_shape]; exact core _ _ (unV_zero .fixed32) (unV_zero .sfixed64)
    case float => show GoSrc.Map.decMapFixed32Float field dec _ = _; rw [decMapFixed32Float_shape]; exact core _ _ (unV_zero .fixed32) (unV_zero .float)
    case double => show GoSrc.Map.decMapFixed32Double field dec _ = _; rw [decMapFixed32Double_shape]; exact core _ _ (unV_zero .fixed32) (unV_zero .double)
    case string => show GoSrc.Map.decMapFixed32String field dec _ = _; rw [decMapFixed32String_shape]; exact core _ _ (unV_zero .fixed32) (unV_zero .string)
    case bytes => show GoSrc.Map.decMapFixed32Bytes field dec _ = _; rw [decMapFixed32Bytes_shape]; exact core _ _ (unV_zero .fixed32) (unV_zero .bytes)
  case fixed64 =>
    cases v
    case bool => show GoSrc.Map.decMapFixed64Bool field dec _ = _; rw [decMapFixed64Bool_shape]; exact core _ _ (unV_zero .fixed64) (unV_zero .bool)
    case int32 => show GoSrc.Map.decMapFixed64Int32 field dec _ = _; rw [decMapFixed64Int32_shape]; exact core _ _ (unV_zero .fixed64) (unV_zero .int32)
    case int64 => show GoSrc.Map.decMapFixed64Int64 field dec _ = _; rw [decMapFixed64Int64_shape]; exact core _ _ (unV_zero .fixed64) (unV_zero .int64)
    case uint32 => show GoSrc.Map.decMapFixed64Uint32 field dec _ = _; rw [decMapFixed64Uint32_shape]; exact core _ _ (unV_zero .fixed64) (unV_zero .uint32)
    case uint64 => show GoSrc.Map.decMapFixed64Uint64 field dec _ = _; rw [decMapFixed64Uint64_shape]; exact core _ _ (unV_zero .fixed64) (unV_zero .uint64)
    case sint32 => show GoSrc.Map.decMapFixed64Sint32 field dec _ = _; rw [decMapFixed64Sint32_shape]; exact core _ _ (unV_zero .fixed64) (unV_zero .sint32)
    case sint64 => show GoSrc.Map.decMapFixed64Sint64 field dec _ = _; rw [decMapFixed64Sint64_shape]; exact core _ _ (unV_zero .fixed64) (unV_zero .sint64)
    case fixed32 => show GoSrc.Map.decMapFixed64Fixed32 field dec _ = _; rw [decMapFixed64Fixed32_shape]; exact core _ _ (unV_zero .fixed64) (unV_zero .fixed32)
    case fixed64 => show GoSrc.Map.decMapFixed64Fixed64 field dec _ = _; rw [decMapFixed64Fixed64_shape]; exact core _ _ (unV_zero .fixed64) (unV_zero .fixed64)
    case sfixed32 => show GoSrc.Map.decMapFixed64Sfixed32 field dec _ = _; rw [decMapFixed64Sfixed32_shape]; exact core _ _ (unV_zero .fixed64) (unV_zero .sfixed32)
    case sfixed64 => show GoSrc.Map.decMapFixed64Sfixed64 field dec _ = _; rw [decMapFixed64Sfixed64_shape]; exact core _ _ (unV_zero .fixed64) (unV_zero .sfixed64)
    case float => show GoSrc.Map.decMapFixed64Float field dec _ = _; rw [decMapFixed64Float_shape]; exact core _ _ (unV_zero .fixed64) (unV_zero .float)
    case double => show GoSrc.Map.decMapFixed64Double field dec _ = _; rw [decMapFixed64Double_shape]; exact core _ _ (unV_zero .fixed64) (unV_zero .double)
    case string => show GoSrc.Map.decMapFixed64String field dec _ = _; rw [decMapFixed64String_shape]; exact core _ _ (unV_zero .fixed64) (unV_zero .string)
    case bytes => show GoSrc.Map.decMapFixed64Bytes field dec _ = _; rw [decMapFixed64Bytes_shape]; exact core _ _ (unV_zero .fixed64) (unV_zero .bytes)
  case sfixed32 =>
    cases v
    case bool => show GoSrc.Map.decMapSfixed32Bool field dec _ = _; rw [decMapSfixed32Bool_shape]; exact core _ _ (unV_zero .sfixed32) (unV_zero .bool)
    case int32 => show GoSrc.Map.decMapSfixed32Int32 field dec _ = _; rw [decMapSfixed32Int32_shape]; exact core _ _ (unV_zero .sfixed32) (unV_zero .int32)
    case int64 => show GoSrc.Map.decMapSfixed32Int64 field dec _ = _; rw [decMapSfixed32Int64_shape]; exact core _ _ (unV_zero .sfixed32) (unV_zero .int64)
    case uint32 => show GoSrc.Map.decMapSfixed32Uint32 field dec _ = _; rw [decMapSfixed32Uint32_shape]; exact core _ _ (unV_zero .sfixed32) (unV_zero .uint32)
    case uint64 => show GoSrc.Map.decMapSfixed32Uint64 field dec _ = _; rw [decMapSfixed32Uint64_shape]; exact core _ _ (unV_zero .sfixed32) (unV_zero .uint64)
    case sint32 => show GoSrc.Map.decMapSfixed32Sint32 field dec _ = _; rw [decMapSfixed32Sint32_shape]; exact core _ _ (unV_zero .sfixed32) (unV_zero .sint32)
    case sint64 => show GoSrc.Map.decMapSfixed32Sint64 field dec _ = _; rw [decMapSfixed32Sint64_shape]; exact core _ _ (unV_zero .sfixed32) (unV_zero .sint64)
    case fixed32 => show GoSrc.Map.decMapSfixed32Fixed32 field dec _ = _; rw [decMapSfixed32Fixed32_shape]; exact core _ _ (unV_zero .sfixed32) (unV_zero .fixed32)
    case fixed64 => show GoSrc.Map.decMapSfixed32Fixed64 field dec _ = _; rw [decMapSfixed32Fixed64_shape]; exact core _ _ (unV_zero .sfixed32) (unV_zero .fixed64)
    case sfixed32 => show GoSrc.Map.decMapSfixed32Sfixed32 field dec _ = _; rw [decMapSfixed32Sfixed32_shape]; exact core _ _ (unV_zero .sfixed32) (unV_zero .sfixed32)
    case sfixed64 => show GoSrc.Map.decMapSfixed32Sfixed64 field dec _ = _; rw [decMapSfixed32Sfixed64_shape]; exact core _ _ (unV_zero .sfixed32) (unV_zero .sfixed64)
    case float => show GoSrc.Map.decMapSfixed32Float field dec _ = _; rw [decMapSfixed32Float_shape]; exact core _ _ (unV_zero .sfixed32) (unV_zero .float)
    case double => show GoSrc.Map.decMapSfixed32Double field dec _ = _; rw [decMapSfixed32Double_shape]; exact core _ _ (unV_zero .sfixed32) (unV_zero .double)
    case string => show GoSrc.Map.decMapSfixed32String field dec _ = _; rw [decMapSfixed32String_shape]; exact core _ _ (unV_zero .sfixed32) (unV_zero .string)
    case bytes => show GoSrc.Map.decMapSfixed32Bytes field dec _ = _; rw [decMapSfixed32Bytes_shape]; exact core _ _ (unV_zero .sfixed32) (unV_zero .bytes)
  case sfixed64 =>
    cases v
    case bool => show GoSrc.Map.decMapSfixed64Bool field dec _ = _; rw [decMapSfixed64Bool_shape]; exact core _ _ (unV_zero .sfixed64) (unV_zero .bool)
    case int32 => show GoSrc.Map.decMapSfixed64Int32 field dec _ = _; rw [decMapSfixed64Int32_shape]; exact core _ _ (unV_zero .sfixed64) (unV_zero .int32)
    case int64 => show GoSrc.Map.decMapSfixed64Int64 field dec _ = _; rw [decMapSfixed64Int64_shape]; exact core _ _ (unV_zero .sfixed64) (unV_zero .int64)
    case uint32 => show GoSrc.Map.decMapSfixed64Uint32 field dec _ = _; rw [decMapSfixed64Uint32_shape]; exact core _ _ (unV_zero .sfixed64) (unV_zero .uint32)
    case uint64 => show GoSrc.Map.decMapSfixed64Uint64 field dec _ = _; rw [decMapSfixed64Uint64_shape]; exact core _ _ (unV_zero .sfixed64) (unV_zero .uint64)
    case sint32 => show GoSrc.Map.decMapSfixed64Sint32 field dec _ = _; rw [decMapSfixed64Sint32_shape]; exact core _ _ (unV_zero .sfixed64) (unV_zero .sint32)
    case sint64 => show GoSrc.Map.decMapSfixed64Sint64 field dec _ = _; rw [decMapSfixed64Sint64_shape]; exact core _ _ (unV_zero .sfixed64) (unV_zero .sint64)
    case fixed32 => show GoSrc.Map.decMapSfixed64Fixed32 field dec _ = _; rw [decMapSfixed64Fixed32_shape]; exact core _ _ (unV_zero .sfixed64) (unV_zero .fixed32)
    case fixed64 => show GoSrc.Map.decMapSfixed64Fixed64 field dec _ = _; rw [decMapSfixed64Fixed64_shape]; exact core _ _ (unV_zero .sfixed64) (unV_zero .fixed64)
    case sfixed32 => show GoSrc.Map.decMapSfixed64Sfixed32 field dec _ = _; rw [decMapSfixed64Sfixed32_shape]; exact core _ _ (unV_zero .sfixed64) (unV_zero .sfixed32)
    case sfixed64 => show GoSrc.Map.decMapSfixed64Sfixed64 field dec _ = _; rw [decMapSfixed64Sfixed64_shape]; exact core _ _ (unV_zero .sfixed64) (unV_zero .sfixed64)
    case float => show GoSrc.Map.decMapSfixed64Float field dec _ = _; rw [decMapSfixed64Float_shape]; exact core _ _ (unV_zero .sfixed64) (unV_zero .float)
    case double => show GoSrc.Map.decMapSfixed64Double field dec _ = _; rw [decMapSfixed64Double_shape]; exact core _ _ (unV_zero .sfixed64) (unV_zero .double)
    case string => show GoSrc.Map.decMapSfixed64String field dec _ = _; rw [decMapSfixed64String_shape]; exact core _ _ (unV_zero .sfixed64) (unV_zero .string)
    case bytes => show GoSrc.Map.decMapSfixed64Bytes field dec _ = _; rw [decMapSfixed64Bytes_shape]; exact core _ _ (unV_zero .sfixed64) (unV_zero .bytes)
  case string =>
    cases v
    case bool => show GoSrc.Map.decMapStringBool field dec _ = _; rw [decMapStringBool_shape]; exact core _ _ (unV_zero .string) (unV_zero .bool)
    case int32 => show GoSrc.Map.decMapStringInt32 field dec _ = _; rw [decMapStringInt32_shape]; exact core _ _ (unV_zero .string) (unV_zero .int32)
    case int64 => show GoSrc.Map.decMapStringInt64 field dec _ = _; rw [decMapStringInt64_shape]; exact core _ _ (unV_zero .string) (unV_zero .int64)
    case uint32 => show GoSrc.Map.decMapStringUint32 field dec _ = _; rw [decMapStringUint32_shape]; exact core _ _ (unV_zero .string) (unV_zero .uint32)
    case uint64 => show GoSrc.Map.decMapStringUint64 field dec _ = _; rw [decMapStringUint64_shape]; exact core _ _ (unV_zero .string) (unV_zero .uint64)
    case sint32 => show GoSrc.Map.decMapStringSint32 field dec _ = _; rw [decMapStringSint32_shape]; exact core _ _ (unV_zero .string) (unV_zero .sint32)
    case sint64 => show GoSrc.Map.decMapStringSint64 field dec _ = _; rw [decMapStringSint64_shape]; exact core _ _ (unV_zero .string) (unV_zero .sint64)
    case fixed32 => show GoSrc.Map.decMapStringFixed32 field dec _ = _; rw [decMapStringFixed32_shape]; exact core _ _ (unV_zero .string) (unV_zero .fixed32)
    case fixed64 => show GoSrc.Map.decMapStringFixed64 field dec _ = _; rw [decMapStringFixed64_shape]; exact core _ _ (unV_zero .string) (unV_zero .fixed64)
    case sfixed32 => show GoSrc.Map.decMapStringSfixed32 field dec _ = _; rw [decMapStringSfixed32_shape]; exact core _ _ (unV_zero .string) (unV_zero .sfixed32)
    case sfixed64 => show GoSrc.Map.decMapStringSfixed64 field dec _ = _; rw [decMapStringSfixed64_shape]; exact core _ _ (unV_zero .string) (unV_zero .sfixed64)
    case float => show GoSrc.Map.decMapStringFloat field dec _ = _; rw [decMapStringFloat_shape]; exact core _ _ (unV_zero .string) (unV_zero .float)
    case double => show GoSrc.Map.decMapStringDouble field dec _ = _; rw [decMapStringDouble_shape]; exact core _ _ (unV_zero .string) (unV_zero .double)
    case string => show GoSrc.Map.decMapStringString field dec _ = _; rw [decMapStringString_shape]; exact core _ _ (unV_zero .string) (unV_zero .string)
    case bytes => show GoSrc.Map.decMapStringBytes field dec _ = _; rw [decMapStringBytes_shape]; exact core _ _ (unV_zero .string) (unV_zero .bytes)

end decodeInstances

/-- the translated codecs cover picowire/map.go exactly: 180 types × {PicoEncode, PicoDecode} -/
theorem names_expected : GoSrc.Map.names.length = 360 := by decide +kernel

end Pico.GoTie.MP
