import PicoProofs.DecRefineCore
/-!
The readers of `decoder.go` / `decoder_types.go` against a generic record-at-a-time specification
(`Laws spec step`): each reader, started on a frame positioned on `b` whose pending number is the
reader's, is a non-empty chain of specification steps (`Fired`) — one step for the singular
readers and `Message`, the maximal run of records bearing the number for the repeated ones — and
does nothing when another number is pending.
-/
namespace Pico.Dec
open Pico.Wire

section
variable {σ : Type} {spec : Bytes → σ → Option σ} {step : Spec.Record → σ → Option σ} {Inv : σ → Prop}

theorem toNat_cast_pending {b : Bytes} {c : Frame} (h : TAF b c) (hb : b ≠ []) :
    ((pendRec c).num : Int) = c.pendingField := by
  have := h.valid hb
  show ((c.pendingField.toNat : Nat) : Int) = c.pendingField
  omega

/-! ### singular scalar readers -/

theorem readSingle_fired (hL : Laws spec step) (k : Scalar) (field : Int) {b : Bytes} {d : Dec} {s : σ}
    (hta : TA b d) (hb : b ≠ []) (hpf : field = d.cur.pendingField) (g : Enc.SVal → σ)
    (hstep : step (pendRec d.cur) s = ((pendRec d.cur).scalar k).map g) (hI : ∀ x, Inv (g x))
    {d' : Dec} {a : Option Enc.SVal} (h : readSingle k field d = .ok (d', a)) :
    (∃ x, a = some x ∧ Fired spec Inv b d s d' (g x)) ∨ (a = none ∧ d'.err ≠ none ∧ spec b s = none) := by
  unfold readSingle at h
  rw [if_neg (by intro hne; exact hne hpf)] at h
  by_cases hw : d.cur.pendingWire ≠ k.wire
  · rw [if_pos hw] at h
    cases h
    right
    refine ⟨rfl, by simp [fail], ?_⟩
    apply spec_none_of_step_none hL s hta.frame hb
    rw [hstep, scalar_wire_ne (pendRec d.cur) k hw]; rfl
  · rw [if_neg hw] at h
    have hw' : d.cur.pendingWire = k.wire := Decidable.of_not_not hw
    have hlen : (consumeScalar false k d.cur.buffer).2 = pendLen d.cur := by
      unfold pendLen; rw [hw']; exact consumeScalar_snd false k _ _
    simp only at h
    by_cases hr : (consumeScalar false k d.cur.buffer).2 < 0
    · rw [if_pos hr] at h
      cases h
      right
      exact ⟨rfl, by simp [fail], spec_none_of_parse1_none hL s hta.frame hb (by omega)⟩
    · rw [if_neg hr, nextField_eqD] at h
      simp only [Res.bind_ok, Res.pure_eq] at h
      cases h
      left
      refine ⟨_, rfl, ?_⟩
      rw [hlen]
      refine fired_ok hL hta.frame hb d rfl hta.err (by omega) ?_ (hI _)
      rw [hstep]
      have : (pendRec d.cur).scalar k = some (consumeScalar false k d.cur.buffer).1 := by
        have := scalar_of_consumeScalar false k d.cur.pendingField.toNat d.cur.buffer (by omega)
        unfold pendRec
        rw [← hlen, hw']
        exact this
      rw [this]; rfl

/-! ### the push / callback / pop / advance block of `Message` and `RepeatedMessage` -/

theorem nested_inv {τ β : Type} (cb : DecM τ) (hcb : MonoFn cb) (d : Dec) (t : τ) (payload : Bytes) (n : Int)
    (K : Dec → τ → Res (Dec × β)) (R : Dec × β)
    (h : (do
        let d1 ← pushState d payload
        let (d2, t2) ← cb d1 t
        let d3 := popState d2
        let d4 ← nextField d3 n
        K d4 t2 : Res (Dec × β)) = .ok R) :
    ∃ d1 d2 t2, pushState d payload = .ok d1 ∧ cb d1 t = .ok (d2, t2) ∧
      K (nextFieldD { d2 with cur := d.cur, stack := d.stack } n) t2 = .ok R := by
  cases h1 : pushState d payload with
  | panic w => rw [h1] at h; cases h
  | outOfFuel => rw [h1] at h; cases h
  | ok d1 =>
    rw [h1] at h
    simp only [Res.bind_ok] at h
    cases h2 : cb d1 t with
    | panic w => rw [h2] at h; cases h
    | outOfFuel => rw [h2] at h; cases h
    | ok p =>
      obtain ⟨d2, t2⟩ := p
      rw [h2] at h
      simp only [Res.bind_ok] at h
      have hst : d2.stack = d.stack ++ [d.cur] := by
        rw [(hcb d1 t d2 t2 h2).stack]; exact (pushState_facts d payload d1 h1).2.1
      rw [popState_eq d2 d.stack d.cur hst, nextField_eqD] at h
      simp only [Res.bind_ok] at h
      exact ⟨d1, d2, t2, rfl, h2, h⟩

theorem nested_fired (hL : Laws spec step) {τ : Type} (cb : DecM τ) (hcbm : MonoFn cb) (o : Bytes → Option τ)
    (P : τ → Prop)
    {t : τ} (hcb : ∀ p d1 d2 t2, TA p d1 → cb d1 t = .ok (d2, t2) → FinO (o p) d2 t2 ∧ (d2.err = none → P t2))
    (hbad : ∀ p, ¬ tagOk p → o p = none)
    {b : Bytes} {d : Dec} {s : σ} (hta : TA b d) (hb : b ≠ []) (hw : d.cur.pendingWire = 2)
    (hn : 0 ≤ (consumeBytes d.cur.buffer).2)
    (g : τ → σ) (hI : ∀ v, P v → Inv (g v))
    (hstep : step (pendRec d.cur) s = (o (pendRec d.cur).payload).map g)
    {d1 d2 : Dec} {t2 : τ} (h1 : pushState d (consumeBytes d.cur.buffer).1 = .ok d1)
    (h2 : cb d1 t = .ok (d2, t2)) :
    Fired spec Inv b d s
      (nextFieldD { d2 with cur := d.cur, stack := d.stack } (consumeBytes d.cur.buffer).2) (g t2) := by
  have hlen : pendLen d.cur = (consumeBytes d.cur.buffer).2 := by
    unfold pendLen; rw [hw]; exact consumeFieldValue_wire2 _ _
  have hpay : (pendRec d.cur).payload = (consumeBytes d.cur.buffer).1 := by
    unfold pendRec; rw [hlen]; exact payload_take _ _ _ hn
  rw [hpay] at hstep
  have hM2 := hcbm d1 t d2 t2 h2
  -- the error outcome
  have bad : d2.err ≠ none → o (consumeBytes d.cur.buffer).1 = none →
      Fired spec Inv b d s
        (nextFieldD { d2 with cur := d.cur, stack := d.stack } (consumeBytes d.cur.buffer).2) (g t2) := by
    intro he ho
    right
    refine ⟨(nextFieldD_mono _ _).err he, ?_⟩
    apply spec_none_of_step_none hL s hta.frame hb
    rw [hstep, ho]; rfl
  unfold pushState at h1
  rw [nextField_eqD] at h1
  cases h1
  rcases nextFieldD_cases { d with stack := d.stack ++ [d.cur], cur := ⟨0, 0, (consumeBytes d.cur.buffer).1⟩ } 0
      (Int.le_refl 0) (by simp) with ⟨_, he, hf⟩ | ⟨hbd, he⟩
  · simp only [Int.toNat_zero, List.drop_zero] at hf he
    have hta1 : TA (consumeBytes d.cur.buffer).1
        (nextFieldD { d with stack := d.stack ++ [d.cur], cur := ⟨0, 0, (consumeBytes d.cur.buffer).1⟩ } 0) :=
      ⟨he.trans hta.err, (nextFieldD_mono _ _).init hta.init, hf⟩
    obtain ⟨hfin, hP⟩ := hcb _ _ _ _ hta1 h2
    rcases hfin with ⟨he2, ho⟩ | ⟨he2, ho⟩
    · rw [← hlen]
      refine fired_ok hL hta.frame hb _ rfl he2 (by omega) ?_ (hI _ (hP he2))
      rw [hstep, ho]; rfl
    · exact bad he2 ho
  · simp only [Int.toNat_zero, List.drop_zero] at hbd
    exact bad (hM2.err he) (hbad _ hbd)

/-! ### `Message` / `PresentMessage` -/

theorem message_fired (hL : Laws spec step) {τ : Type} (field : Int) (fn : DecM τ) (hfnm : MonoFn fn)
    (o : Bytes → Option τ) (P : τ → Prop) {t : τ}
    (hloop : ∀ p d1 d2 t2, TA p d1 → loop fn d1 t = .ok (d2, t2) → FinO (o p) d2 t2 ∧ (d2.err = none → P t2))
    (hbad : ∀ p, ¬ tagOk p → o p = none)
    {b : Bytes} {d : Dec} {s : σ} (hta : TA b d) (hb : b ≠ []) (hpf : field = d.cur.pendingField)
    (g : τ → σ) (hI : ∀ v, P v → Inv (g v))
    (hstepw : (pendRec d.cur).wire ≠ 2 → step (pendRec d.cur) s = none)
    (hstep : (pendRec d.cur).wire = 2 → step (pendRec d.cur) s = (o (pendRec d.cur).payload).map g)
    {d' : Dec} {t' : τ} (h : message field fn d t = .ok (d', t')) :
    Fired spec Inv b d s d' (g t') := by
  unfold message at h
  rw [if_neg (by intro hne; exact hne hpf)] at h
  by_cases hw : d.cur.pendingWire ≠ 2
  · rw [if_pos hw] at h
    cases h
    exact Or.inr ⟨by simp [fail], spec_none_of_step_none hL s hta.frame hb (hstepw hw)⟩
  · rw [if_neg hw] at h
    have hw' : d.cur.pendingWire = 2 := Decidable.of_not_not hw
    simp only at h
    by_cases hr : (consumeBytes d.cur.buffer).2 < 0
    · rw [if_pos hr] at h
      cases h
      refine Or.inr ⟨by simp [fail], spec_none_of_parse1_none hL s hta.frame hb ?_⟩
      unfold pendLen; rw [hw', consumeFieldValue_wire2]; exact hr
    · rw [if_neg hr] at h
      obtain ⟨d1, d2, t2, h1, h2, h3⟩ := nested_inv (loop fn) (loop_mono fn hfnm) d t _ _
        (fun d s => pure (d, s)) _ h
      simp only [Res.pure_eq] at h3
      cases h3
      exact nested_fired hL (loop fn) (loop_mono fn hfnm) o P hloop hbad hta hb hw' (by omega) g
        hI (hstep hw') h1 h2

/-! ### `RepeatedMessage` -/

theorem repeatedMessageN_fired (hL : Laws spec step) {τ : Type} (field : Int) (hf : 0 ≤ field) (cb : DecM τ)
    (hcbm : MonoFn cb) (o : τ → Bytes → Option τ)
    (hcb : ∀ t p d1 d2 t2, TA p d1 → cb d1 t = .ok (d2, t2) → FinO (o t p) d2 t2)
    (hbad : ∀ t p, ¬ tagOk p → o t p = none)
    (G : τ → σ) (hI : ∀ t, Inv (G t))
    (hstep : ∀ t (r : Spec.Record), (r.num : Int) = field →
      step r (G t) = if r.wire ≠ 2 then none else (o t r.payload).map G) :
    ∀ (fuel : Nat) (b : Bytes) (d : Dec) (t : τ) (d' : Dec) (t' : τ), TA b d →
      repeatedMessageN field cb fuel d t = .ok (d', t') →
      (field ≠ d.cur.pendingField → d' = d ∧ t' = t) ∧
      (field = d.cur.pendingField → Fired spec Inv b d (G t) d' (G t')) := by
  intro fuel
  induction fuel with
  | zero => intro b d t d' t' _ h; unfold repeatedMessageN at h; cases h
  | succ fuel ih =>
    intro b d t d' t' hta h
    unfold repeatedMessageN at h
    by_cases hpf : field ≠ d.cur.pendingField
    · rw [if_pos hpf] at h
      cases h
      exact ⟨fun _ => ⟨rfl, rfl⟩, fun he => absurd he hpf⟩
    · rw [if_neg hpf] at h
      have hpf' : field = d.cur.pendingField := Decidable.of_not_not hpf
      refine ⟨fun hne => absurd hpf' hne, fun _ => ?_⟩
      have hb : b ≠ [] := hta.frame.ne_nil (by omega)
      have hnum : ((pendRec d.cur).num : Int) = field := by rw [hpf']; exact toNat_cast_pending hta.frame hb
      have hst := hstep t (pendRec d.cur) hnum
      by_cases hw : d.cur.pendingWire ≠ 2
      · rw [if_pos hw] at h
        cases h
        refine Or.inr ⟨by simp [fail], spec_none_of_step_none hL _ hta.frame hb ?_⟩
        rw [hst]; exact if_pos hw
      · rw [if_neg hw] at h
        have hw' : d.cur.pendingWire = 2 := Decidable.of_not_not hw
        simp only at h
        by_cases hr : (consumeBytes d.cur.buffer).2 < 0
        · rw [if_pos hr] at h
          cases h
          refine Or.inr ⟨by simp [fail], spec_none_of_parse1_none hL _ hta.frame hb ?_⟩
          unfold pendLen; rw [hw', consumeFieldValue_wire2]; exact hr
        · rw [if_neg hr] at h
          obtain ⟨d1, d2, t2, h1, h2, h3⟩ := nested_inv cb hcbm d t _ _ (repeatedMessageN field cb fuel) _ h
          have hfired := nested_fired (Inv := Inv) hL cb hcbm (o t) (fun _ => True)
            (fun p d1 d2 t2 h1 h2 => ⟨hcb t p d1 d2 t2 h1 h2, fun _ => trivial⟩) (hbad t) hta hb hw' (by omega) G
            (fun v _ => hI v) (by rw [hst]; exact if_neg (fun hh => hh hw')) h1 h2
          have hM4 := repeatedMessageN_mono field cb hcbm fuel _ t2 d' t' h3
          have hinit : (nextFieldD { d2 with cur := d.cur, stack := d.stack } (consumeBytes d.cur.buffer).2).init
              = true := by
            rw [nextFieldD_init]
            show d2.init = true
            exact (hcbm d1 t d2 t2 h2).init (by rw [(pushState_facts d _ d1 h1).1]; exact hta.init)
          refine hfired.trans hM4.err ?_
          intro b1 hta1 he1 _
          have := ih b1 _ t2 d' t' ⟨he1, hinit, hta1⟩ h3
          by_cases hp4 : field = (nextFieldD { d2 with cur := d.cur, stack := d.stack }
              (consumeBytes d.cur.buffer).2).cur.pendingField
          · exact Or.inr (this.2 hp4)
          · obtain ⟨e1, e2⟩ := this.1 hp4
            exact Or.inl ⟨e1, by rw [e2]⟩

/-! ### repeated scalar readers -/

theorem readRepeatedN_fired (hL : Laws spec step) (k : Scalar) (field : Int) (hf : 0 ≤ field)
    (G : List Enc.SVal → σ) (hI : ∀ acc, Inv (G acc))
    (hstep : ∀ acc (r : Spec.Record), (r.num : Int) = field →
      step r (G acc) =
        (if r.wire = 2 ∧ !k.isBytes then Spec.unpack k (r.payload.length + 1) r.payload
         else (r.scalar k).map fun x => [x]).map fun xs => G (acc ++ xs)) :
    ∀ (fuel : Nat) (b : Bytes) (d : Dec) (acc : List Enc.SVal) (d' : Dec) (acc' : List Enc.SVal), TA b d →
      readRepeatedN k field fuel d acc = .ok (d', acc') →
      (field ≠ d.cur.pendingField → d' = d ∧ acc' = acc) ∧
      (field = d.cur.pendingField → Fired spec Inv b d (G acc) d' (G acc')) := by
  intro fuel
  induction fuel with
  | zero => intro b d acc d' acc' _ h; unfold readRepeatedN at h; cases h
  | succ fuel ih =>
    intro b d acc d' acc' hta h
    unfold readRepeatedN at h
    by_cases hpf : field ≠ d.cur.pendingField
    · rw [if_pos hpf] at h
      cases h
      exact ⟨fun _ => ⟨rfl, rfl⟩, fun he => absurd he hpf⟩
    · rw [if_neg hpf] at h
      have hpf' : field = d.cur.pendingField := Decidable.of_not_not hpf
      refine ⟨fun hne => absurd hpf' hne, fun _ => ?_⟩
      have hb : b ≠ [] := hta.frame.ne_nil (by omega)
      have hnum : ((pendRec d.cur).num : Int) = field := by rw [hpf']; exact toNat_cast_pending hta.frame hb
      have hst := hstep acc (pendRec d.cur) hnum
      have hrw : (pendRec d.cur).wire = d.cur.pendingWire := rfl
      -- continuing after one record
      have cont : ∀ (acc1 : List Enc.SVal) (n : Int), n = pendLen d.cur → 0 ≤ n →
          step (pendRec d.cur) (G acc) = some (G acc1) →
          readRepeatedN k field fuel (nextFieldD d n) acc1 = .ok (d', acc') →
          Fired spec Inv b d (G acc) d' (G acc') := by
        intro acc1 n hn hn0 hs h3
        subst hn
        have hfired := fired_ok (Inv := Inv) hL hta.frame hb d rfl hta.err hn0 hs (hI acc1)
        have hM4 := readRepeatedN_mono k field fuel _ acc1 d' acc' h3
        refine hfired.trans hM4.err ?_
        intro b1 hta1 he1 _
        have := ih b1 _ acc1 d' acc' ⟨he1, (nextFieldD_mono _ _).init hta.init, hta1⟩ h3
        by_cases hp4 : field = (nextFieldD d (pendLen d.cur)).cur.pendingField
        · exact Or.inr (this.2 hp4)
        · obtain ⟨e1, e2⟩ := this.1 hp4
          exact Or.inl ⟨e1, by rw [e2]⟩
      by_cases hpk : d.cur.pendingWire = 2 ∧ (!k.isBytes) = true
      · rw [if_pos hpk] at h
        rw [hrw, if_pos hpk] at hst
        simp only at h
        have hlen : pendLen d.cur = (consumeBytes d.cur.buffer).2 := by
          unfold pendLen; rw [hpk.1]; exact consumeFieldValue_wire2 _ _
        by_cases hr : (consumeBytes d.cur.buffer).2 < 0
        · rw [if_pos hr] at h
          cases h
          exact Or.inr ⟨by simp [fail], spec_none_of_parse1_none hL _ hta.frame hb (by omega)⟩
        · rw [if_neg hr] at h
          have hpay : (pendRec d.cur).payload = (consumeBytes d.cur.buffer).1 := by
            unfold pendRec; rw [hlen]; exact payload_take _ _ _ (by omega)
          rw [hpay] at hst
          cases hrp : readPacked k ((consumeBytes d.cur.buffer).1.length + 1) (consumeBytes d.cur.buffer).1 [] with
          | panic w => rw [hrp] at h; cases h
          | outOfFuel => rw [hrp] at h; cases h
          | ok p =>
            obtain ⟨xs, bad⟩ := p
            rw [hrp] at h
            simp only [Res.bind_ok] at h
            have hkb : k.isBytes = false := by
              have := hpk.2; cases hkk : k.isBytes
              · rfl
              · rw [hkk] at this; cases this
            obtain ⟨ys, hxs, hgood, hbad⟩ := readPacked_unpack k hkb _ _ _ _ _ hrp
            simp only [List.nil_append] at hxs
            subst hxs
            cases bad with
            | true =>
              simp only [↓reduceIte, Res.pure_eq] at h
              cases h
              refine Or.inr ⟨by simp [fail], spec_none_of_step_none hL _ hta.frame hb ?_⟩
              rw [hst, hbad rfl]; rfl
            | false =>
              simp only [Bool.false_eq_true, ↓reduceIte, nextField_eqD, Res.bind_ok] at h
              exact cont _ _ hlen.symm (by omega) (by rw [hst, hgood rfl]; rfl) h
      · rw [if_neg hpk] at h
        rw [hrw, if_neg hpk] at hst
        by_cases hw : d.cur.pendingWire = k.wire
        · rw [if_pos hw] at h
          simp only at h
          have hlen : (consumeScalar true k d.cur.buffer).2 = pendLen d.cur := by
            unfold pendLen; rw [hw]; exact consumeScalar_snd true k _ _
          by_cases hr : (consumeScalar true k d.cur.buffer).2 < 0
          · rw [if_pos hr] at h
            cases h
            exact Or.inr ⟨by simp [fail], spec_none_of_parse1_none hL _ hta.frame hb (by omega)⟩
          · rw [if_neg hr, nextField_eqD] at h
            simp only [Res.bind_ok] at h
            have hsc : (pendRec d.cur).scalar k = some (consumeScalar true k d.cur.buffer).1 := by
              have := scalar_of_consumeScalar true k d.cur.pendingField.toNat d.cur.buffer (by omega)
              unfold pendRec
              rw [← hlen, hw]
              exact this
            exact cont _ _ hlen (by omega) (by rw [hst, hsc]; rfl) h
        · rw [if_neg hw] at h
          cases h
          refine Or.inr ⟨by simp [fail], spec_none_of_step_none hL _ hta.frame hb ?_⟩
          rw [hst, scalar_wire_ne (pendRec d.cur) k hw]; rfl

end

end Pico.Dec
