import PicoModel.WellTyped
/-!
The shape side condition of the decoder refinement. The generated `Decode` *normalises* the Go
variables of repeated and map fields even when no record for them arrives (`m.F = append(m.F[:0:0]…)`
in the model: `.list (cur.list!.map toSVal |>.map ofSVal)`), so it can agree with the
record-at-a-time specification only on values whose existing slots already have the Go shape of
their field: a repeated scalar/enum slot holds a list of scalars, a repeated message slot a list, a
map slot a map or nil — recursively inside (pointers to) sub-messages and selected oneof wrappers.
Nothing is required of missing slots, of values that are not structs, or of the contents of
singular scalars. `shMsg S id m` is that (decidable) condition.
-/
namespace Pico.Gen2

def isSV : Val → Bool
  | .num _ => true
  | .bytes _ => true
  | _ => false

def isNumV : Val → Bool
  | .num _ => true
  | _ => false

/-- flat condition on the Go variable of field `f` -/
def normOk (f : Field) (v : Val) : Bool :=
  match f.kind with
  | .scalar _ => !f.repeated || (match v with | .list vs => vs.all isSV | _ => false)
  | .enum => !f.repeated || (match v with | .list vs => vs.all isNumV | _ => false)
  | .map _ _ => (match v with | .none => true | .map _ => true | _ => false)
  | .message _ => !f.repeated || (match v with | .list _ => true | _ => false)

/-- a singular message field decoded by the generated `Decode` of its type (not a picoconv cast) -/
def plainMsg (f : Field) : Bool := !(f.cat == 1 || f.cat == 2) && !f.repeated

mutual
/-- value of message type `id` -/
def shMsg (S : Schema) (id : Nat) : Val → Bool
  | .msg slots _ => shSlots S (S.msg id).fields slots
  | _ => true

def shSlots (S : Schema) : List Field → List Val → Bool
  | f :: fs, v :: vs => shVar S true f v && shSlots S fs vs
  | _, _ => true

/-- the Go variable of field `f`; `outer = true`: the struct field itself (for a oneof member: the
wrapper or nil), `outer = false`: the variable the reader decodes into -/
def shVar (S : Schema) (outer : Bool) (f : Field) : Val → Bool
  | .some x =>
    if outer && f.inOneof then shVar S false f x
    else normOk f (.some x) &&
      (match f.kind with
       | .message id => if plainMsg f && f.pointer S then shMsg S id x else true
       | _ => true)
  | .msg slots u =>
    if outer && f.inOneof then true
    else normOk f (.msg slots u) &&
      (match f.kind with
       | .message id => if plainMsg f && !f.pointer S then shSlots S (S.msg id).fields slots else true
       | _ => true)
  | .num n => (outer && f.inOneof) || normOk f (.num n)
  | .bytes b => (outer && f.inOneof) || normOk f (.bytes b)
  | .list vs => (outer && f.inOneof) || normOk f (.list vs)
  | .map es => (outer && f.inOneof) || normOk f (.map es)
  | .none => (outer && f.inOneof) || normOk f .none
end

/-- the nested-message part of `shVar … false` -/
def nestedOk (S : Schema) (f : Field) (v : Val) : Bool :=
  match f.kind with
  | .message id =>
    if plainMsg f then
      (if f.pointer S then (match v with | .some x => shMsg S id x | _ => true) else shMsg S id v)
    else true
  | _ => true

theorem shVar_false (S : Schema) (f : Field) (v : Val) :
    shVar S false f v = (normOk f v && nestedOk S f v) := by
  cases v with
  | some x =>
    rw [shVar]
    simp only [Bool.false_and, Bool.false_eq_true, ↓reduceIte]
    congr 1
    unfold nestedOk
    cases f.kind with
    | message id =>
      simp only
      by_cases hp : plainMsg f = true
      · by_cases hq : f.pointer S = true
        · simp [hp, hq]
        · simp [hp, hq, shMsg]
      · simp [hp]
    | _ => rfl
  | msg slots u =>
    rw [shVar]
    simp only [Bool.false_and, Bool.false_eq_true, ↓reduceIte]
    congr 1
    unfold nestedOk
    cases f.kind with
    | message id =>
      simp only
      by_cases hp : plainMsg f = true
      · by_cases hq : f.pointer S = true
        · simp [hp, hq]
        · simp [hp, hq, shMsg]
      · simp [hp]
    | _ => rfl
  | num n =>
    have : nestedOk S f (.num n) = true := by
      unfold nestedOk; cases f.kind <;> simp [shMsg]
    rw [shVar, this]; simp
  | bytes b =>
    have : nestedOk S f (.bytes b) = true := by
      unfold nestedOk; cases f.kind <;> simp [shMsg]
    rw [shVar, this]; simp
  | list vs =>
    have : nestedOk S f (.list vs) = true := by
      unfold nestedOk; cases f.kind <;> simp [shMsg]
    rw [shVar, this]; simp
  | map es =>
    have : nestedOk S f (.map es) = true := by
      unfold nestedOk; cases f.kind <;> simp [shMsg]
    rw [shVar, this]; simp
  | none =>
    have : nestedOk S f .none = true := by
      unfold nestedOk; cases f.kind <;> simp [shMsg]
    rw [shVar, this]; simp

theorem shVar_true (S : Schema) (f : Field) (v : Val) :
    shVar S true f v =
      if f.inOneof = true then (match v with | .some x => shVar S false f x | _ => true)
      else shVar S false f v := by
  by_cases ho : f.inOneof = true
  · cases v <;> rw [shVar] <;> simp [ho]
  · have ho' : f.inOneof = false := by cases h : f.inOneof <;> simp_all
    cases v <;> rw [shVar, shVar] <;> simp [ho']

theorem normOk_oneof (f : Field) (v : Val) : normOk { f with oneof := 0 } v = normOk f v := rfl

theorem nestedOk_oneof (S : Schema) (f : Field) (v : Val) :
    nestedOk S { f with oneof := 0 } v = nestedOk S f v := rfl

theorem shVar_false_oneof (S : Schema) (f : Field) (v : Val) :
    shVar S false { f with oneof := 0 } v = shVar S false f v := by
  rw [shVar_false, shVar_false, normOk_oneof, nestedOk_oneof]

/-! ### slots -/

theorem shSlots_get (S : Schema) : ∀ (fs : List Field) (slots : List Val) (i : Nat) (f : Field) (v : Val),
    shSlots S fs slots = true → fs[i]? = some f → slots[i]? = some v → shVar S true f v = true := by
  intro fs
  induction fs with
  | nil => intro slots i f v _ hf; simp at hf
  | cons g fs ih =>
    intro slots i f v h hf hv
    cases slots with
    | nil => simp at hv
    | cons w ws =>
      rw [shSlots, Bool.and_eq_true] at h
      cases i with
      | zero =>
        simp only [List.getElem?_cons_zero, Option.some.injEq] at hf hv
        subst hf; subst hv
        exact h.1
      | succ i =>
        simp only [List.getElem?_cons_succ] at hf hv
        exact ih ws i f v h.2 hf hv

theorem shSlots_set (S : Schema) : ∀ (fs : List Field) (slots : List Val) (i : Nat) (f : Field) (v : Val),
    shSlots S fs slots = true → fs[i]? = some f → shVar S true f v = true →
    shSlots S fs (slots.set i v) = true := by
  intro fs
  induction fs with
  | nil => intro slots i f v _ hf; simp at hf
  | cons g fs ih =>
    intro slots i f v h hf hv
    cases slots with
    | nil => exact h
    | cons w ws =>
      rw [shSlots, Bool.and_eq_true] at h
      cases i with
      | zero =>
        simp only [List.getElem?_cons_zero, Option.some.injEq] at hf
        subst hf
        rw [List.set_cons_zero, shSlots, Bool.and_eq_true]
        exact ⟨hv, h.2⟩
      | succ i =>
        simp only [List.getElem?_cons_succ] at hf
        rw [List.set_cons_succ, shSlots, Bool.and_eq_true]
        exact ⟨h.1, ih ws i f v h.2 hf hv⟩

theorem shVar_true_none_oneof (S : Schema) (f : Field) (h : f.inOneof = true) : shVar S true f .none = true := by
  rw [shVar_true, if_pos h]

/-- `clearGroup` on the slot list keeps the shape -/
theorem shSlots_clear (S : Schema) (group keep : Nat) (hg : group ≠ 0) :
    ∀ (fs : List Field) (slots : List Val) (k : Nat), shSlots S fs slots = true →
      shSlots S fs (((slots.zipIdx k).zip fs).map fun (p : (Val × Nat) × Field) =>
        if p.2.oneof == group && p.1.2 != keep then Val.none else p.1.1) = true := by
  intro fs
  induction fs with
  | nil => intro slots k _; cases slots <;> simp [shSlots]
  | cons g fs ih =>
    intro slots k h
    cases slots with
    | nil => simp [shSlots]
    | cons w ws =>
      rw [shSlots, Bool.and_eq_true] at h
      simp only [List.zipIdx_cons, List.zip_cons_cons, List.map_cons]
      rw [shSlots, Bool.and_eq_true]
      refine ⟨?_, ih ws (k + 1) h.2⟩
      split
      · rename_i hc
        simp only [Bool.and_eq_true, beq_iff_eq] at hc
        apply shVar_true_none_oneof
        unfold Field.inOneof
        rw [hc.1]
        simpa using hg
      · exact h.1

/-! ### message values -/

theorem shMsg_setSlot (S : Schema) (id : Nat) (m : Val) (i : Nat) (f : Field) (v : Val)
    (h : shMsg S id m = true) (hf : (S.msg id).fields[i]? = some f) (hv : shVar S true f v = true) :
    shMsg S id (setSlot m i v) = true := by
  cases m with
  | msg slots u =>
    rw [shMsg] at h
    show shMsg S id (.msg (slots.set i v) u) = true
    rw [shMsg]
    exact shSlots_set S _ slots i f v h hf hv
  | _ => exact h

theorem shMsg_clearGroup (S : Schema) (id : Nat) (m : Val) (group keep : Nat) (hg : group ≠ 0)
    (h : shMsg S id m = true) : shMsg S id (clearGroup (S.msg id).fields group keep m) = true := by
  cases m with
  | msg slots u =>
    rw [shMsg] at h
    unfold clearGroup
    simp only
    rw [shMsg]
    exact shSlots_clear S group keep hg _ slots 0 h
  | _ => exact h

/-- the struct field `i` of a well-shaped message, when it exists -/
theorem shMsg_slot (S : Schema) (id : Nat) (slots : List Val) (u : Bytes) (i : Nat) (f : Field) (v : Val)
    (h : shMsg S id (.msg slots u) = true) (hf : (S.msg id).fields[i]? = some f) (hv : slots[i]? = some v) :
    shVar S true f v = true := by
  rw [shMsg] at h
  exact shSlots_get S _ slots i f v h hf hv

theorem getSlot_msg (slots : List Val) (u : Bytes) (i : Nat) :
    getSlot (.msg slots u) i = (slots[i]?).getD .none := by
  unfold getSlot
  simp [List.getD_eq_getElem?_getD]

theorem setSlot_setSlot (m : Val) (i : Nat) (a b : Val) : setSlot (setSlot m i a) i b = setSlot m i b := by
  cases m <;> simp [setSlot]

theorem setSlot_getSlot_self (m : Val) (i : Nat) : setSlot m i (getSlot m i) = m := by
  cases m with
  | msg slots u =>
    simp only [setSlot, getSlot]
    congr 1
    apply List.ext_getElem?
    intro j
    rw [List.getElem?_set]
    split
    · rename_i h; subst h
      split
      · rename_i h2; simp [List.getD_eq_getElem?_getD, List.getElem?_eq_getElem h2]
      · rename_i h2; simp at h2; simp [List.getElem?_eq_none h2]
    · rfl
  | _ => rfl

/-- either the slot exists (and then reading after writing gives what was written), or writing to
it is a no-op -/
theorem slot_cases (m : Val) (i : Nat) :
    (∃ slots u, m = .msg slots u ∧ i < slots.length ∧ ∀ v, getSlot (setSlot m i v) i = v) ∨
    ((∀ v, setSlot m i v = m) ∧ getSlot m i = .none) := by
  cases m with
  | msg slots u =>
    by_cases hi : i < slots.length
    · left
      refine ⟨slots, u, rfl, hi, fun v => ?_⟩
      simp [setSlot, getSlot, List.getD_eq_getElem?_getD, hi]
    · right
      refine ⟨fun v => ?_, ?_⟩
      · simp only [setSlot]; rw [List.set_eq_of_length_le (by omega)]
      · simp [getSlot, List.getD_eq_getElem?_getD, List.getElem?_eq_none (by omega : slots.length ≤ i)]
  | _ => right; exact ⟨fun _ => rfl, rfl⟩

/-! ### what the readers return when their number is not pending -/

/-- value `decInner` hands back for field `f` when another number is pending -/
def noopVal (f : Field) (cur : Val) : Val :=
  match f.kind with
  | .scalar _ => if f.repeated then .list ((cur.list!.map Val.toSVal).map Val.ofSVal) else cur
  | .enum => if f.repeated then .list ((cur.list!.map Val.num!).map Val.num) else cur
  | .map _ _ => (match cur with | .map es => .map es | _ => .none)
  | .message _ => if f.repeated then .list cur.list! else cur

theorem map_toSVal_ofSVal : ∀ (vs : List Val), vs.all isSV = true → (vs.map Val.toSVal).map Val.ofSVal = vs := by
  intro vs
  induction vs with
  | nil => intro _; rfl
  | cons v vs ih =>
    intro h
    simp only [List.all_cons, Bool.and_eq_true] at h
    simp only [List.map_cons, ih h.2]
    congr 1
    cases v <;> simp_all [isSV, Val.toSVal, Val.ofSVal]

theorem map_num!_num : ∀ (vs : List Val), vs.all isNumV = true → (vs.map Val.num!).map Val.num = vs := by
  intro vs
  induction vs with
  | nil => intro _; rfl
  | cons v vs ih =>
    intro h
    simp only [List.all_cons, Bool.and_eq_true] at h
    simp only [List.map_cons, ih h.2]
    congr 1
    cases v <;> simp_all [isNumV, Val.num!]

theorem noopVal_eq (f : Field) (cur : Val) (h : normOk f cur = true) : noopVal f cur = cur := by
  unfold noopVal
  unfold normOk at h
  cases hk : f.kind with
  | scalar k =>
    rw [hk] at h
    simp only at h ⊢
    by_cases hr : f.repeated = true
    · rw [if_pos hr]
      rw [hr] at h
      cases cur <;> simp at h
      rename_i vs
      simp only [Val.list!]
      rw [map_toSVal_ofSVal vs (by simpa using h)]
    · rw [if_neg hr]
  | enum =>
    rw [hk] at h
    simp only at h ⊢
    by_cases hr : f.repeated = true
    · rw [if_pos hr]
      rw [hr] at h
      cases cur <;> simp at h
      rename_i vs
      simp only [Val.list!]
      rw [map_num!_num vs (by simpa using h)]
    · rw [if_neg hr]
  | map k v =>
    rw [hk] at h
    cases cur <;> simp at h ⊢
  | message id =>
    rw [hk] at h
    simp only at h ⊢
    by_cases hr : f.repeated = true
    · rw [if_pos hr]
      rw [hr] at h
      cases cur <;> simp at h
      rfl
    · rw [if_neg hr]

/-! ### zero values -/

theorem shMsg_not_msg (S : Schema) (id : Nat) (v : Val) (h : ∀ slots u, v ≠ .msg slots u) :
    shMsg S id v = true := by
  cases v with
  | msg slots u => exact absurd rfl (h slots u)
  | _ => simp [shMsg]

theorem shVar_zeroSlot (S : Schema) (sub : Nat → Val) (hsub : ∀ id, shMsg S id (sub id) = true) (f : Field) :
    shVar S true f (zeroSlot S sub f) = true := by
  rw [shVar_true]
  by_cases ho : f.inOneof = true
  · rw [if_pos ho]; unfold zeroSlot; rw [if_pos ho]
  · rw [if_neg ho, shVar_false]
    unfold zeroSlot
    rw [if_neg ho]
    by_cases hr : f.repeated = true
    · rw [if_pos hr]
      unfold normOk nestedOk plainMsg
      cases hk : f.kind with
      | map k v =>
        -- a map field is never `repeated`
        unfold Field.repeated at hr
        rw [hk] at hr
        simp at hr
      | _ => simp [hr]
    · rw [if_neg hr]
      have hr' : f.repeated = false := by cases h : f.repeated <;> simp_all
      unfold normOk nestedOk plainMsg
      cases hk : f.kind with
      | scalar k =>
        simp only [hr', Bool.not_false, Bool.true_or, Bool.and_self]
      | enum => simp only [hr', Bool.not_false, Bool.true_or, Bool.and_self]
      | map k v => simp
      | message id =>
        simp only [hr', Bool.not_false, Bool.true_or, Bool.true_and, Bool.and_true]
        by_cases hp : f.pointer S = true
        · simp [hp]
        · simp only [hp, Bool.false_eq_true, ↓reduceIte]
          by_cases h1 : (f.cat == 1) = true
          · simp [h1]
          · by_cases h2 : (f.cat == 2) = true
            · simp [h1, h2]
            · simp [h1, h2, hsub]

theorem shSlots_nil_right (S : Schema) (fs : List Field) : shSlots S fs [] = true := by
  cases fs <;> simp [shSlots]

theorem shSlots_map_zero (S : Schema) (sub : Nat → Val) (hsub : ∀ id, shMsg S id (sub id) = true) :
    ∀ fs : List Field, shSlots S fs (fs.map fun f => zeroSlot S sub f) = true := by
  intro fs
  induction fs with
  | nil => exact shSlots_nil_right S []
  | cons f fs ih =>
    rw [List.map_cons, shSlots, Bool.and_eq_true]
    exact ⟨shVar_zeroSlot S sub hsub f, ih⟩

theorem shMsg_zeroMsgN (S : Schema) : ∀ (n id : Nat), shMsg S id (zeroMsgN S n id) = true := by
  intro n
  induction n with
  | zero => intro id; rw [zeroMsgN, shMsg]; exact shSlots_nil_right S _
  | succ n ih =>
    intro id
    rw [zeroMsgN, shMsg]
    exact shSlots_map_zero S (zeroMsgN S n) ih _

/-- `new(T)` has the shape of `T` -/
theorem shMsg_zeroMsg (S : Schema) (id : Nat) : shMsg S id (zeroMsg S id) = true :=
  shMsg_zeroMsgN S _ id

theorem shVar_zeroField (S : Schema) (f : Field) (hf : f.inOneof = false) :
    shVar S false f (zeroField S f) = true := by
  have := shVar_zeroSlot S (zeroMsg S) (shMsg_zeroMsg S) f
  rw [shVar_true, if_neg (by rw [hf]; simp)] at this
  exact this

end Pico.Gen2

#print axioms Pico.Gen2.shMsg_zeroMsg
