import PicoModel.Gen.GoSmall
import PicoProofs.GoTieDecoder
import PicoProofs.FieldNumLemmas
/-
Tie between the statement-level translation of `internal/bitset/set.go` and of
`FieldNumber.String` / `parseError.Error` (message.go, decoder.go) — `PicoModel/Gen/GoSmall.lean`,
regenerated on every run — and the hand models of `PicoModel/Small.lean`.
-/
namespace Pico.GoTie.S
open Pico Pico.Bitset Pico.FieldNum


theorem shl_mod (b : Nat) (hb : b < 64) : (1 <<< b) % 18446744073709551616 = 1 <<< b := by
  rw [Nat.one_shiftLeft]
  apply Nat.mod_eq_of_lt
  calc 2 ^ b < 2 ^ 64 := Nat.pow_lt_pow_right (by decide) hb
    _ = 18446744073709551616 := by decide

theorem bit_test (word : Nat) (b : Nat) (hb : b < 64) :
    (word &&& 1 <<< b = 0) ↔ word.testBit b = false := by
  have := Pico.GoTie.D.mask_test word (b : Int) (by omega) (by omega)
  have hu : Go.toU 64 (b : Int) = b := by
    unfold Go.toU
    simp only [show (2:Int)^64 = 18446744073709551616 from by decide]
    omega
  rw [hu, shl_mod b hb] at this
  simpa using this

theorem byte_small (x : Int) (h0 : 0 ≤ x) (h1 : x < 256) : (byteOfNat (Go.toU 8 x)).toNat = x.toNat := by
  unfold Go.toU byteOfNat
  simp only [show (2:Int)^8 = 256 from by decide, BitVec.toNat_ofNat]
  omega

theorem bitsetSet_eq (s : Small) (x : Int) (hlo : -2147483648 ≤ x) (hhi : x < 2147483648)
    (hlen : s.rest.length < 18446744073709551616) :
    GoSrc.Small.bitsetSet x s = Bitset.set s x := by
  unfold GoSrc.Small.bitsetSet Bitset.set
  by_cases h0 : x < 0
  · simp [h0]
  · by_cases h1 : x < 64
    · have hb := byte_small x (by omega) (by omega)
      have hlt : x.toNat < 64 := by omega
      simp [h0, h1, hb, bit_test _ _ hlt, shl_mod _ hlt]
    · have hw : Go.wrapS 32 (x - 64) = x - 64 := by
        unfold Go.wrapS
        simp only [show (2:Int)^32 = 4294967296 from by decide, show (2:Int)^(32-1) = 2147483648 from by decide]
        split <;> omega
      have hu : Go.toU 64 (x - 64) = (x - 64).toNat := by
        unfold Go.toU
        simp only [show (2:Int)^64 = 18446744073709551616 from by decide]
        omega
      have hl : Go.toU 64 (Go.len s.rest) = s.rest.length := by
        unfold Go.toU Go.len
        simp only [show (2:Int)^64 = 18446744073709551616 from by decide]
        omega
      have hbit : (x - 64).toNat % 64 < 64 := Nat.mod_lt _ (by decide)
      have hbb : (byteOfNat ((x - 64).toNat % 64)).toNat = (x - 64).toNat % 64 := by
        unfold byteOfNat; simp only [BitVec.toNat_ofNat]; omega
      simp only [h0, h1, if_false, hw, hu, hl, hbb, shl_mod _ hbit]
      generalize (x - 64).toNat / 64 = bucket
      generalize hbitdef : (x - 64).toNat % 64 = bit at hbit
      have hmk : Go.makeZero (0 : Nat) (Int.ofNat bucket + 1 - Go.len s.rest)
          = if s.rest.length ≤ bucket then .ok (List.replicate (bucket + 1 - s.rest.length) 0) else Go.makeZero (0 : Nat) (Int.ofNat bucket + 1 - Go.len s.rest) := by
        split
        · unfold Go.makeZero Go.len
          have : (0:Int) ≤ Int.ofNat bucket + 1 - (s.rest.length : Int) := by
            have : (s.rest.length : Int) ≤ (bucket : Int) := by omega
            simp only [Int.ofNat_eq_natCast]; omega
          rw [if_pos this]
          congr 2
          simp only [Int.ofNat_eq_natCast]; omega
        · rfl
      have hgen : ∀ rest' : List Nat,
          (do
            let t4 ← Go.index rest' (Int.ofNat bucket)
            let t5 ← Go.index rest' (Int.ofNat bucket)
            let t6 ← Go.setIndex rest' (Int.ofNat bucket) (t5 ||| 1 <<< bit)
            pure (({ low := s.low, rest := t6 } : Small), decide (t4 &&& 1 <<< bit ≠ 0))) =
          (match rest'[bucket]? with
            | none => Res.panic "index out of range"
            | some word => Res.ok (({ low := s.low, rest := rest'.set bucket (word ||| 1 <<< bit) } : Small), word.testBit bit)) := by
        intro rest'
        unfold Go.index Go.setIndex
        simp only [Int.ofNat_eq_natCast, Int.toNat_natCast, Int.natCast_nonneg, if_true, true_and]
        cases hr : rest'[bucket]? with
        | none => rfl
        | some word =>
          have hlt : bucket < rest'.length := (List.getElem?_eq_some_iff.mp hr).1
          have : ((bucket : Int) < (rest'.length : Int)) := by omega
          simp [this, bit_test _ _ hbit]
      by_cases hle : s.rest.length ≤ bucket
      · rw [hmk]
        simp only [hle, if_true]
        exact hgen _
      · simp only [hle, if_false]
        exact hgen _


def toChar (c : Byte) : Char := Char.ofNat c.toNat

theorem digit_byte (field : Int) (h0 : 0 ≤ field) :
    toChar ((byteOfNat (Go.toU 8 (Int.tmod field 10))) + (48 : Byte)) = digitChar (field.toNat % 10) := by
  have h1 : Int.tmod field 10 = ((field.toNat % 10 : Nat) : Int) := by
    rw [Int.tmod_eq_emod_of_nonneg h0]; omega
  have h2 : Go.toU 8 (Int.tmod field 10) = field.toNat % 10 := by
    rw [h1]; unfold Go.toU
    simp only [show (2:Int)^8 = 256 from by decide]
    omega
  rw [h2]
  have hlt : field.toNat % 10 < 10 := Nat.mod_lt _ (by decide)
  generalize field.toNat % 10 = d at hlt
  unfold toChar digitChar byteOfNat
  congr 1
  have h48 : (48 : Byte).toNat = 48 := by decide
  simp only [BitVec.toNat_add, BitVec.toNat_ofNat, h48]
  omega

theorem loop_tie (fuel : Nat) : ∀ (z : Bytes) (field i : Int) (acc : List Char),
    z.length = 11 → -1 ≤ i → i ≤ 10 → 0 ≤ field →
    (z.drop (i + 1).toNat).map toChar = acc → (i + 1).toNat < fuel →
    ∃ z', GoSrc.Small.fieldNumberString.loop1 fuel z field i
        = .ok (z', ((digitLoop fuel i field.toNat acc).2.1 : Int), (digitLoop fuel i field.toNat acc).1)
      ∧ z'.length = 11
      ∧ (z'.drop ((digitLoop fuel i field.toNat acc).1 + 1).toNat).map toChar = (digitLoop fuel i field.toNat acc).2.2 := by
  induction fuel with
  | zero => intro z field i acc _ _ _ _ _ hf; omega
  | succ n ih =>
    intro z field i acc hz hi0 hi1 hf hacc hfuel
    unfold GoSrc.Small.fieldNumberString.loop1 digitLoop
    by_cases hc : i ≥ 0 ∧ field > 0
    · have hc' : i ≥ 0 ∧ field.toNat > 0 := ⟨hc.1, by omega⟩
      rw [if_pos hc, if_pos hc']
      have hset : Go.setIndex z i ((byteOfNat (Go.toU 8 (Int.tmod field 10))) + (48 : Byte))
          = .ok (z.set i.toNat ((byteOfNat (Go.toU 8 (Int.tmod field 10))) + (48 : Byte))) := by
        unfold Go.setIndex; rw [if_pos]; constructor <;> omega
      simp only [hset, Res.bind_ok]
      have hdiv : (Int.tdiv field 10).toNat = field.toNat / 10 := by
        rw [Int.tdiv_eq_ediv_of_nonneg hf]; omega
      have := ih (z.set i.toNat ((byteOfNat (Go.toU 8 (Int.tmod field 10))) + (48 : Byte))) (Int.tdiv field 10) (i - 1)
        (digitChar (field.toNat % 10) :: acc) (by simp [hz]) (by omega) (by omega)
        (by rw [Int.tdiv_eq_ediv_of_nonneg hf]; omega)
        (by
          have e1 : (i - 1 + 1).toNat = i.toNat := by omega
          have e2 : (i + 1).toNat = i.toNat + 1 := by omega
          rw [e1]
          rw [e2] at hacc
          have hlt : i.toNat < (z.set i.toNat ((byteOfNat (Go.toU 8 (Int.tmod field 10))) + (48 : Byte))).length := by
            simp [hz]; omega
          rw [List.drop_eq_getElem_cons hlt]
          simp only [List.map_cons, List.getElem_set_self]
          rw [digit_byte field hf, List.drop_set_of_lt (by omega), hacc])
        (by omega)
      rw [hdiv] at this
      exact this
    · have hc' : ¬ (i ≥ 0 ∧ field.toNat > 0) := by omega
      rw [if_neg hc, if_neg hc']
      refine ⟨z, ?_, hz, hacc⟩
      have : field = (field.toNat : Int) := by omega
      simp only [pure, ← this]

theorem stringOfBytes_eq (b : Bytes) : Go.stringOfBytes b = String.ofList (b.map toChar) := rfl

/-- the translated `FieldNumber.String` is the decimal rendering and never panics, for every int32 -/
theorem fieldNumberString_decimal (n : Int) (h : -2147483648 ≤ n ∧ n ≤ 2147483647) :
    GoSrc.Small.fieldNumberString n = .ok (toString n) := by
  by_cases h0 : n = 0
  · subst h0; exact congrArg Res.ok (by decide : "0" = toString (0 : Int))
  by_cases hmin : n = -2147483648
  · subst hmin
    exact congrArg Res.ok (by decide : "-2147483648" = toString (-2147483648 : Int))
  unfold GoSrc.Small.fieldNumberString
  simp only [h0, hmin, if_false]
  rw [Int.toString_eq_repr, Int.repr_eq_if]
  by_cases hneg : n < 0
  · have hw : Go.wrapS 32 (-n) = -n := by
      unfold Go.wrapS
      simp only [show (2:Int)^32 = 4294967296 from by decide, show (2:Int)^(32-1) = 2147483648 from by decide]
      split <;> omega
    have hmag : 0 < (-n).toNat ∧ (-n).toNat < 2147483648 := by omega
    have hlen := length_toDigits_le_ten (-n).toNat (by omega)
    obtain ⟨z', hl, hz', hd⟩ := loop_tie 12 (List.replicate 11 (0 : Byte)) (-n) 10 [] (by simp) (by omega) (by omega) (by omega) (by simp) (by omega)
    rw [digitLoop_call _ hmag.1 hmag.2] at hl hd
    have hnn : ¬ (0 ≤ n) := by omega
    simp only [hneg, hnn, decide_true, if_true, if_false, hw, Res.bind_ok, pure, hl]
    generalize hL : (Nat.toDigits 10 (-n).toNat).length = L at *
    have hset : Go.setIndex z' (10 - (L : Int)) (45 : Byte) = .ok (z'.set (10 - L) 45) := by
      unfold Go.setIndex; rw [if_pos (by omega)]; congr 2; omega
    have hsl : Go.sliceFrom (z'.set (10 - L) 45) (10 - (L : Int)) = .ok ((z'.set (10 - L) 45).drop (10 - L)) := by
      unfold Go.sliceFrom; rw [if_pos (by simp [hz']; omega)]; congr 2; omega
    simp only [hset, hsl, Res.bind_ok, stringOfBytes_eq]
    have hlt : 10 - L < (z'.set (10 - L) 45).length := by simp [hz']; omega
    rw [List.drop_eq_getElem_cons hlt]
    simp only [List.map_cons, List.getElem_set_self, List.drop_set_of_lt (show 10 - L < 10 - L + 1 by omega)]
    have e : (10 - (L : Int) + 1).toNat = 10 - L + 1 := by omega
    rw [e] at hd
    rw [hd, Nat.repr_eq_ofList_toDigits, minus_append]
    rfl
  · have hmag : 0 < n.toNat ∧ n.toNat < 2147483648 := by omega
    have hlen := length_toDigits_le_ten n.toNat (by omega)
    obtain ⟨z', hl, hz', hd⟩ := loop_tie 12 (List.replicate 11 (0 : Byte)) n 10 [] (by simp) (by omega) (by omega) (by omega) (by simp) (by omega)
    rw [digitLoop_call _ hmag.1 hmag.2] at hl hd
    have hnn : 0 ≤ n := by omega
    simp only [hneg, hnn, decide_false, if_true, if_false, Res.bind_ok, pure, hl, Bool.false_eq_true]
    generalize hL : (Nat.toDigits 10 n.toNat).length = L at *
    have hsl : Go.sliceFrom z' (10 - (L : Int) + 1) = .ok (z'.drop (10 - (L : Int) + 1).toNat) := by
      unfold Go.sliceFrom; rw [if_pos (by omega)]
    simp only [hsl, Res.bind_ok, stringOfBytes_eq, hd, Nat.repr_eq_ofList_toDigits]

theorem fieldNumberString_eq (n : Int) (h : -2147483648 ≤ n ∧ n ≤ 2147483647) :
    GoSrc.Small.fieldNumberString n = FieldNum.fieldString n := by
  rw [fieldNumberString_decimal n h, fieldString_decimal n h]

/-- `parseError.Error()` names the field in decimal, for every int32 field number -/
theorem parseErrorError_eq (n : Int) (h : -2147483648 ≤ n ∧ n ≤ 2147483647) (msg : String) :
    GoSrc.Small.parseErrorError (n, msg) = .ok ("failed while parsing " ++ toString n ++ ": " ++ msg) := by
  unfold GoSrc.Small.parseErrorError
  simp [fieldNumberString_decimal n h]


/-! ### sequences of insertions on the translated `Small.Set` -/

/-- run a sequence of insertions through the translated Go code -/
def srcRun : Small → List Int → Res (Small × List Bool)
  | s, [] => .ok (s, [])
  | s, x :: xs => do
    let (s, b) ← GoSrc.Small.bitsetSet x s
    let (s, bs) ← srcRun s xs
    return (s, b :: bs)

theorem set_length (s : Small) (x : Int) (hx : x < 2147483648) (hl : s.rest.length ≤ 33554432)
    (s' : Small) (b : Bool) (h : Bitset.set s x = .ok (s', b)) : s'.rest.length ≤ 33554432 := by
  unfold Bitset.set at h
  split at h
  · cases h; exact hl
  · split at h
    · cases h; exact hl
    · simp only [] at h
      split at h
      · cases h
      · cases h
        simp only [List.length_set]
        split
        · simp only [List.length_append, List.length_replicate]; omega
        · exact hl

theorem srcRun_eq : ∀ (xs : List Int) (s : Small), (∀ x ∈ xs, -2147483648 ≤ x ∧ x < 2147483648) →
    s.rest.length ≤ 33554432 → srcRun s xs = Bitset.run s xs := by
  intro xs
  induction xs with
  | nil => intro s _ _; rfl
  | cons x xs ih =>
    intro s hx hl
    have hx0 := hx x (by simp)
    unfold srcRun Bitset.run
    rw [bitsetSet_eq s x hx0.1 hx0.2 (by omega)]
    cases h : Bitset.set s x with
    | ok r =>
      obtain ⟨s', b⟩ := r
      have hl' := set_length s x hx0.2 hl s' b h
      simp only [Res.bind_ok, bind, Res.bind]
      rw [ih s' (fun y hy => hx y (by simp [hy])) hl']
    | panic w => rfl
    | outOfFuel => rfl

end Pico.GoTie.S
