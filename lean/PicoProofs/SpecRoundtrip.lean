import PicoModel.WellTyped
import PicoProofs.WireLemmas
import PicoProofs.ScalarLemmas
import PicoProofs.TimeLemmas
import PicoProofs.SpecRtField
/-
Task F: the specification's round trip (C03, C08, C11 at spec level).

Main theorem `Pico.SpecRt.spec_roundtrip`: for a supported schema whose always-present nesting has
reached its fixed point (`zeroMsgOk`, decidable form `zeroMsgOkB`), every STRICTLY well-typed message
value whose canonical encoding is shorter than 2^64 bytes decodes, from a fresh message, to itself.

Layout (each part is its own module):
  SpecRtCore   one-step unfoldings (`specDec_succ`, `applyRec_succ`), fuel monotonicity, `parse1_append`,
               `parse1_record`, `specDec_append`, the fuel-free relation `Decs`, field lookup, `clearGroup_id`,
               captured bytes (`decs_unrec`)
  SpecRtScalar scalar records, packed payloads (`unpack`), seconds/nanos payloads and the time arithmetic,
               map entries
  SpecRtApply  `applyRec` per shape; what `Schema.supported` gives; `decs_known`, `decs_loop`
  SpecRtShape  classification of a well-typed field value into 18 shapes with the bytes written for each
  SpecRtZero   what is encoded as nothing is the zero value (`msg_empty_zero`)
  SpecRtField  decoding the chunk of one field (`field_rt`)
  this file    chunks in any order of distinct fields (`chunks_rt`), the sort, captured bytes, induction
-/
namespace Pico.SpecRt
open Pico Pico.Spec
open Pico.Wire

/-! ### slots -/

theorem wtSlots_length (S : Schema) (strict : Bool) : ∀ (fs : List Field) (slots : List Val),
    wtSlots S strict fs slots = true → slots.length = fs.length := by
  intro fs
  induction fs with
  | nil => intro slots h; cases slots with
    | nil => rfl
    | cons _ _ => simp [wtSlots] at h
  | cons f fs ih =>
    intro slots h
    cases slots with
    | nil => simp [wtSlots] at h
    | cons x xs =>
      rw [wtSlots.eq_2, Bool.and_eq_true] at h
      simp [ih xs h.2]

theorem wtSlots_get (S : Schema) (strict : Bool) : ∀ (fs : List Field) (slots : List Val) (j : Nat) (f : Field) (x : Val),
    wtSlots S strict fs slots = true → fs[j]? = some f → slots[j]? = some x →
    wtField S strict false f x = true := by
  intro fs
  induction fs with
  | nil => intro slots j f x _ hf; simp at hf
  | cons g gs ih =>
    intro slots j f x h hf hx
    cases slots with
    | nil => simp at hx
    | cons y ys =>
      rw [wtSlots.eq_2, Bool.and_eq_true] at h
      cases j with
      | zero => simp at hf hx; subst hf; subst hx; exact h.1
      | succ j => simp at hf hx; exact ih ys j f x h.2 hf hx

theorem encSlots_mem (S : Schema) : ∀ (fs : List Field) (slots : List Val) (p : Nat × Bytes),
    p ∈ encSlots S fs slots →
    ∃ (j : Nat) (f : Field) (x : Val), fs[j]? = some f ∧ slots[j]? = some x ∧ p = (f.num, encField S false f x) := by
  intro fs
  induction fs with
  | nil => intro slots p hp; simp [encSlots] at hp
  | cons g gs ih =>
    intro slots p hp
    cases slots with
    | nil => simp [encSlots] at hp
    | cons y ys =>
      rw [encSlots.eq_1] at hp
      rcases List.mem_cons.mp hp with rfl | hp
      · exact ⟨0, g, y, rfl, rfl, rfl⟩
      · obtain ⟨j, f, x, h1, h2, h3⟩ := ih ys p hp
        exact ⟨j + 1, f, x, by simpa using h1, by simpa using h2, h3⟩

theorem encSlots_map_fst (S : Schema) : ∀ (fs : List Field) (slots : List Val), slots.length = fs.length →
    (encSlots S fs slots).map (·.1) = fs.map (·.num) := by
  intro fs
  induction fs with
  | nil => intro slots _; simp [encSlots]
  | cons g gs ih =>
    intro slots h
    cases slots with
    | nil => simp at h
    | cons y ys =>
      rw [encSlots.eq_1]
      simp only [List.map_cons, List.length_cons, Nat.add_right_cancel_iff] at h ⊢
      rw [ih ys h]

/-! ### oneof exclusivity -/

theorem sel_mem (P : Field × Val → Bool) (hP : ∀ g z, g.inOneof = true → P (g, .some z) = true) :
    ∀ (fs : List Field) (slots : List Val) (j : Nat) (g : Field) (z : Val), fs[j]? = some g →
    slots[j]? = some (.some z) → g.inOneof = true →
    g.oneof ∈ ((fs.zip slots).filter P).map fun p => p.1.oneof := by
  intro fs
  induction fs with
  | nil => intro slots j g z hg; simp at hg
  | cons f fs ih =>
    intro slots j g z hg hz ho
    cases slots with
    | nil => simp at hz
    | cons x xs =>
      simp only [List.zip_cons_cons, List.filter_cons]
      cases j with
      | zero =>
        simp at hg hz; subst hg; subst hz
        rw [hP _ _ ho]; simp
      | succ j =>
        simp at hg hz
        have := ih xs j g z hg hz ho
        split
        · simp only [List.map_cons, List.mem_cons]; exact Or.inr this
        · exact this

theorem sel_excl (P : Field × Val → Bool) (hP : ∀ g z, g.inOneof = true → P (g, .some z) = true) :
    ∀ (fs : List Field) (slots : List Val) (i j : Nat) (f g : Field) (y z : Val),
    (((fs.zip slots).filter P).map fun p => p.1.oneof).Nodup →
    fs[i]? = some f → fs[j]? = some g → slots[i]? = some (.some y) → slots[j]? = some (.some z) →
    f.inOneof = true → g.inOneof = true → f.oneof = g.oneof → i = j := by
  intro fs
  induction fs with
  | nil => intro slots i j f g y z _ hf; simp at hf
  | cons h hs ih =>
    intro slots i j f g y z hnd hf hg hy hz hof hog heq
    cases slots with
    | nil => simp at hy
    | cons x xs =>
      simp only [List.zip_cons_cons, List.filter_cons] at hnd
      cases i with
      | zero =>
        cases j with
        | zero => rfl
        | succ j =>
          exfalso
          simp at hf hy hg hz; subst hf; subst hy
          rw [hP _ _ hof] at hnd
          simp only [↓reduceIte, List.map_cons, List.nodup_cons] at hnd
          apply hnd.1
          rw [heq]
          exact sel_mem P hP hs xs j g z hg hz hog
      | succ i =>
        cases j with
        | zero =>
          exfalso
          simp at hf hy hg hz; subst hg; subst hz
          rw [hP _ _ hog] at hnd
          simp only [↓reduceIte, List.map_cons, List.nodup_cons] at hnd
          apply hnd.1
          rw [← heq]
          exact sel_mem P hP hs xs i f y hf hy hof
        | succ j =>
          simp at hf hy hg hz
          have hnd' : (((hs.zip xs).filter P).map fun p => p.1.oneof).Nodup := by
            split at hnd
            · simp only [List.map_cons, List.nodup_cons] at hnd; exact hnd.2
            · exact hnd
          rw [ih xs i j f g y z hnd' hf hg hy hz hof hog heq]

theorem oneof_excl (fs : List Field) (slots : List Val) (h : oneofExclusive fs slots = true)
    (i j : Nat) (f g : Field) (y z : Val)
    (hf : fs[i]? = some f) (hg : fs[j]? = some g) (hy : slots[i]? = some (.some y)) (hz : slots[j]? = some (.some z))
    (hof : f.inOneof = true) (hog : g.inOneof = true) (heq : f.oneof = g.oneof) : i = j := by
  unfold oneofExclusive at h
  simp only [decide_eq_true_eq] at h
  exact sel_excl _ (by intro g z hg; simp [hg]) fs slots i j f g y z h hf hg hy hz hof hog heq


/-! ### the chunks of a message, in any order -/

theorem idx_of_num (fs : List Field) (hnd : (fs.map (·.num)).Nodup) (i j : Nat) (f g : Field)
    (hf : fs[i]? = some f) (hg : fs[j]? = some g) (h : f.num = g.num) : i = j := by
  have h1 := findField_of_nodup fs hnd i f hf
  have h2 := findField_of_nodup fs hnd j g hg
  rw [h, h2] at h1
  simp only [Option.some.injEq, Prod.mk.injEq] at h1
  exact h1.1.symm

theorem chunks_rt (S : Schema) (hS : S.supported = true) (id : Nat) (slots : List Val)
    (hws : wtSlots S true (S.msg id).fields slots = true)
    (hex : oneofExclusive (S.msg id).fields slots = true)
    (hRT : ∀ x ∈ slots, ∀ y, sizeOf y ≤ sizeOf x → RT S y)
    (hEZ : ∀ x ∈ slots, ∀ id', wtMsg S true id' x = true → specEnc S id' x = [] → x = Gen2.zeroMsg S id')
    (u : Bytes) :
    ∀ (l : List (Nat × Bytes)) (cs : List Val), cs.length = (S.msg id).fields.length →
      (∀ p ∈ l, ∃ (j : Nat) (f : Field) (x : Val), (S.msg id).fields[j]? = some f ∧ slots[j]? = some x ∧
        p = (f.num, encField S false f x)) →
      (l.map (·.1)).Nodup → (∀ p ∈ l, p.2.length < 2 ^ 64) →
      (∀ (j : Nat) (f : Field) (x : Val), (S.msg id).fields[j]? = some f → slots[j]? = some x →
        cs[j]? = some x ∨ cs[j]? = some (Gen2.zeroField S f)) →
      (∀ (j : Nat) (f : Field), (S.msg id).fields[j]? = some f → f.num ∈ l.map (·.1) →
        cs[j]? = some (Gen2.zeroField S f)) →
      ∃ cs', Decs S id (l.map (·.2)).flatten (.msg cs u) (.msg cs' u) ∧ cs'.length = (S.msg id).fields.length ∧
        ∀ (j : Nat) (f : Field) (x : Val), (S.msg id).fields[j]? = some f → slots[j]? = some x →
          (f.num ∈ l.map (·.1) → cs'[j]? = some x) ∧ (f.num ∉ l.map (·.1) → cs'[j]? = cs[j]?) := by
  have hnums := nums_nodup S hS id
  have hslen := wtSlots_length S true _ slots hws
  intro l
  induction l with
  | nil =>
    intro cs hlen _ _ _ _ _
    refine ⟨cs, Decs.nil S id _, hlen, ?_⟩
    intro j f x _ _
    exact ⟨fun h => by simp at h, fun _ => rfl⟩
  | cons p l ih =>
    intro cs hlen hmem hnd hszs hdisj hpend
    obtain ⟨i, f, x, hf, hx, rfl⟩ := hmem p List.mem_cons_self
    simp only [List.map_cons, List.nodup_cons] at hnd
    have hxmem : x ∈ slots := List.mem_of_getElem? hx
    have hwt := wtSlots_get S true _ slots i f x hws hf hx
    have hi : i < cs.length := by
      have := (List.getElem?_eq_some_iff.mp hf).1; omega
    -- the oneof group of `f` is still clear
    have hgrp : f.inOneof = true → (∃ y, x = .some y) → ∀ j g, j ≠ i → (S.msg id).fields[j]? = some g →
        g.oneof = f.oneof → cs[j]? = some .none := by
      intro hof ⟨y, hy⟩ j g hji hg hgo
      have hog : g.inOneof = true := by
        simp only [Field.inOneof] at hof ⊢; rw [hgo]; exact hof
      have hj : j < slots.length := by
        have := (List.getElem?_eq_some_iff.mp hg).1; omega
      have hxj : slots[j]? = some slots[j] := List.getElem?_eq_getElem hj
      rcases hdisj j g _ hg hxj with h | h
      · rcases wt_oneof_cases S g hog _ (wtSlots_get S true _ slots j g _ hws hg hxj) with h0 | ⟨z, hz, _, _⟩
        · rw [h, h0]
        · exfalso
          apply hji
          rw [hz] at hxj
          rw [hy] at hx
          exact (oneof_excl _ slots hex i j f g y z hf hg hx hxj hof hog hgo.symm).symm
      · rw [h, zeroField_oneof S g hog]
    have h1 := field_rt S hS id i f x hf hwt (hszs _ List.mem_cons_self) (hRT x hxmem) (hEZ x hxmem) cs u hlen
      (hpend i f hf (by simp)) hgrp
    obtain ⟨cs', h2, hlen', hprop⟩ := ih (cs.set i x) (by simpa using hlen)
      (fun q hq => hmem q (List.mem_cons_of_mem _ hq)) hnd.2
      (fun q hq => hszs q (List.mem_cons_of_mem _ hq))
      (by
        intro j g xj hg hxj
        by_cases hji : j = i
        · left
          rw [hji, hx] at hxj
          rw [hji, List.getElem?_set_self hi]
          exact hxj
        · rw [List.getElem?_set_ne (Ne.symm hji)]
          exact hdisj j g xj hg hxj)
      (by
        intro j g hg hin
        have hji : j ≠ i := by
          intro h; subst h
          rw [hf] at hg; cases hg
          exact hnd.1 hin
        rw [List.getElem?_set_ne (Ne.symm hji)]
        exact hpend j g hg (by simp only [List.map_cons, List.mem_cons]; exact Or.inr hin))
    refine ⟨cs', ?_, hlen', ?_⟩
    · simp only [List.map_cons, List.flatten_cons]
      exact Decs.append h1 h2
    · intro j g xj hg hxj
      obtain ⟨hp1, hp2⟩ := hprop j g xj hg hxj
      simp only [List.map_cons, List.mem_cons]
      constructor
      · intro hin
        by_cases hl : g.num ∈ l.map (·.1)
        · exact hp1 hl
        · rcases hin with hin | hin
          · have hji := idx_of_num _ hnums j i g f hg hf hin
            rw [hp2 hl, hji, List.getElem?_set_self hi]
            rw [hji, hx] at hxj
            exact hxj
          · exact absurd hin hl
      · intro hnin
        have hn1 : g.num ≠ f.num := fun h => hnin (Or.inl h)
        have hn2 : g.num ∉ l.map (·.1) := fun h => hnin (Or.inr h)
        have hji : j ≠ i := by
          intro h; subst h
          rw [hf] at hg; cases hg
          exact hn1 rfl
        rw [hp2 hn2, List.getElem?_set_ne (Ne.symm hji)]


/-! ### one message, given the round trip of everything nested in it -/

theorem msg_rt_step (S : Schema) (hS : S.supported = true) (hZ : zeroMsgOk S) (id : Nat) (slots : List Val)
    (unrec : Bytes) (hwt : wtMsg S true id (.msg slots unrec) = true)
    (hsz : (specEnc S id (.msg slots unrec)).length < 2 ^ 64)
    (hRT : ∀ x ∈ slots, ∀ y, sizeOf y ≤ sizeOf x → RT S y) :
    Decs S id (specEnc S id (.msg slots unrec)) (Gen2.zeroMsg S id) (.msg slots unrec) := by
  rw [wtMsg.eq_1] at hwt
  simp only [Bool.and_eq_true] at hwt
  obtain ⟨⟨hws, hex⟩, hcap⟩ := hwt
  have hslen := wtSlots_length S true _ slots hws
  have hperm := List.mergeSort_perm (encSlots S (S.msg id).fields slots) (fun a b => a.1 ≤ b.1)
  simp only [specEnc, List.length_append] at hsz
  have hfst : ∀ n, n ∈ ((encSlots S (S.msg id).fields slots).mergeSort fun a b => decide (a.1 ≤ b.1)).map (·.1) ↔
      n ∈ (S.msg id).fields.map (·.num) := by
    intro n
    rw [← encSlots_map_fst S _ slots hslen]
    exact (hperm.map _).mem_iff
  obtain ⟨cs', hd, hlen', hprop⟩ := chunks_rt S hS id slots hws hex hRT
    (fun x _ => msg_empty_zero S hS hZ (sizeOf x) x (Nat.le_refl _)) []
    ((encSlots S (S.msg id).fields slots).mergeSort fun a b => a.1 ≤ b.1)
    ((S.msg id).fields.map fun f => Gen2.zeroField S f) (by simp)
    (fun p hp => encSlots_mem S _ slots p (hperm.mem_iff.mp hp))
    (by
      rw [(hperm.map _).nodup_iff, encSlots_map_fst S _ slots hslen]
      exact nums_nodup S hS id)
    (by
      intro p hp
      have := mem_flatten_length _ (fun q : Nat × Bytes => q.2) p hp
      unfold sortChunks at hsz
      omega)
    (by
      intro j f x hf _
      right
      simp [List.getElem?_map, hf])
    (by
      intro j f hf _
      simp [List.getElem?_map, hf])
  have hcs : cs' = slots := by
    apply List.ext_getElem?
    intro j
    by_cases hj : j < (S.msg id).fields.length
    · have hf : (S.msg id).fields[j]? = some (S.msg id).fields[j] := List.getElem?_eq_getElem hj
      have hx : slots[j]? = some slots[j] := List.getElem?_eq_getElem (by omega)
      rw [hx]
      exact (hprop j _ _ hf hx).1 ((hfst _).mpr (List.mem_map.mpr ⟨_, List.getElem_mem hj, rfl⟩))
    · rw [List.getElem?_eq_none (by omega), List.getElem?_eq_none (by omega)]
  rw [hcs] at hd
  rw [zeroMsg_unfold S hZ id]
  simp only [specEnc]
  refine Decs.append hd ?_
  cases hc : (S.msg id).capture with
  | true =>
    simp only [hc, ↓reduceIte, Bool.not_true, Bool.false_or] at hcap ⊢
    have := decs_unrec S id hc unrec hcap slots []
    simpa using this
  | false =>
    simp only [hc, Bool.false_eq_true, ↓reduceIte, List.isEmpty_iff] at hcap ⊢
    rw [hcap]
    exact Decs.nil S id _

/-! ### a decidable form of `zeroMsgOk` -/

mutual
def vbeq : Val → Val → Bool
  | .num a, .num b => a == b
  | .bytes a, .bytes b => a == b
  | .msg s u, .msg s' u' => vsbeq s s' && u == u'
  | .list a, .list b => vsbeq a b
  | .map a, .map b => esbeq a b
  | .none, .none => true
  | .some a, .some b => vbeq a b
  | _, _ => false
def vsbeq : List Val → List Val → Bool
  | [], [] => true
  | a :: as, b :: bs => vbeq a b && vsbeq as bs
  | _, _ => false
def esbeq : List (Val × Val) → List (Val × Val) → Bool
  | [], [] => true
  | (a1, a2) :: as, (b1, b2) :: bs => vbeq a1 b1 && vbeq a2 b2 && esbeq as bs
  | _, _ => false
end

mutual
theorem vbeq_eq : ∀ (a b : Val), vbeq a b = true → a = b
  | .num a, .num b, h => by simp only [vbeq, beq_iff_eq] at h; rw [h]
  | .bytes a, .bytes b, h => by simp only [vbeq, beq_iff_eq] at h; rw [h]
  | .msg s u, .msg s' u', h => by
    simp only [vbeq, Bool.and_eq_true, beq_iff_eq] at h
    rw [vsbeq_eq s s' h.1, h.2]
  | .list a, .list b, h => by simp only [vbeq] at h; rw [vsbeq_eq a b h]
  | .map a, .map b, h => by simp only [vbeq] at h; rw [esbeq_eq a b h]
  | .none, .none, _ => rfl
  | .some a, .some b, h => by simp only [vbeq] at h; rw [vbeq_eq a b h]
  | .num _, .bytes _, h | .num _, .msg _ _, h | .num _, .list _, h | .num _, .map _, h | .num _, .none, h | .num _, .some _, h => by simp [vbeq] at h
  | .bytes _, .num _, h | .bytes _, .msg _ _, h | .bytes _, .list _, h | .bytes _, .map _, h | .bytes _, .none, h | .bytes _, .some _, h => by simp [vbeq] at h
  | .msg _ _, .num _, h | .msg _ _, .bytes _, h | .msg _ _, .list _, h | .msg _ _, .map _, h | .msg _ _, .none, h | .msg _ _, .some _, h => by simp [vbeq] at h
  | .list _, .num _, h | .list _, .bytes _, h | .list _, .msg _ _, h | .list _, .map _, h | .list _, .none, h | .list _, .some _, h => by simp [vbeq] at h
  | .map _, .num _, h | .map _, .bytes _, h | .map _, .msg _ _, h | .map _, .list _, h | .map _, .none, h | .map _, .some _, h => by simp [vbeq] at h
  | .none, .num _, h | .none, .bytes _, h | .none, .msg _ _, h | .none, .list _, h | .none, .map _, h | .none, .some _, h => by simp [vbeq] at h
  | .some _, .num _, h | .some _, .bytes _, h | .some _, .msg _ _, h | .some _, .list _, h | .some _, .map _, h | .some _, .none, h => by simp [vbeq] at h
theorem vsbeq_eq : ∀ (a b : List Val), vsbeq a b = true → a = b
  | [], [], _ => rfl
  | a :: as, b :: bs, h => by
    simp only [vsbeq, Bool.and_eq_true] at h
    rw [vbeq_eq a b h.1, vsbeq_eq as bs h.2]
  | [], _ :: _, h | _ :: _, [], h => by simp [vsbeq] at h
theorem esbeq_eq : ∀ (a b : List (Val × Val)), esbeq a b = true → a = b
  | [], [], _ => rfl
  | (a1, a2) :: as, (b1, b2) :: bs, h => by
    simp only [esbeq, Bool.and_eq_true] at h
    rw [vbeq_eq a1 b1 h.1.1, vbeq_eq a2 b2 h.1.2, esbeq_eq as bs h.2]
  | [], _ :: _, h | _ :: _, [], h => by simp [esbeq] at h
end

/-- decidable form of `zeroMsgOk`: the always-present nesting has reached its fixed point -/
def zeroMsgOkB (S : Schema) : Bool :=
  (List.range S.length).all fun id => vbeq (Gen2.zeroMsgN S (S.length + 1) id) (Gen2.zeroMsgN S (S.length + 2) id)

theorem zeroMsgOk_of_B (S : Schema) (h : zeroMsgOkB S = true) : zeroMsgOk S := by
  intro id
  by_cases hid : id < S.length
  · exact vbeq_eq _ _ (List.all_eq_true.mp h id (List.mem_range.mpr hid))
  · have : S.msg id = ⟨[], false, false⟩ := by
      simp [Schema.msg, List.getD, List.getElem?_eq_none (Nat.le_of_not_lt hid)]
    simp only [Gen2.zeroMsgN, this, List.map_nil]


/-! ### main theorem -/

theorem rt_all (S : Schema) (hS : S.supported = true) (hZ : zeroMsgOk S) :
    ∀ (n : Nat) (v : Val), sizeOf v ≤ n → RT S v := by
  intro n
  induction n with
  | zero => intro v hv; cases v <;> simp at hv
  | succ n ih =>
    intro v hv id hwt hsz
    cases v with
    | msg slots unrec =>
      apply msg_rt_step S hS hZ id slots unrec hwt hsz
      intro x hx y hy
      apply ih
      have := List.sizeOf_lt_of_mem hx
      simp only [Val.msg.sizeOf_spec] at hv
      omega
    | _ => simp [wtMsg] at hwt

/-- C03 / C08 / C11 at specification level: decoding the canonical encoding of a strictly
well-typed message value, starting from a fresh message, returns that value. -/
theorem spec_roundtrip (S : Schema) (hS : S.supported = true) (hZ : zeroMsgOk S) (id : Nat) (v : Val)
    (hwt : wtMsg S true id v = true) (hsz : (specEnc S id v).length < 2 ^ 64) :
    ∃ fuel, specDec S fuel id (specEnc S id v) (Gen2.zeroMsg S id) = some v :=
  rt_all S hS hZ (sizeOf v) v (Nat.le_refl _) id hwt hsz


/-- the same with the decidable side condition -/
theorem spec_roundtrip_dec (S : Schema) (hS : S.supported = true) (hZ : zeroMsgOkB S = true) (id : Nat) (v : Val)
    (hwt : wtMsg S true id v = true) (hsz : (specEnc S id v).length < 2 ^ 64) :
    ∃ fuel, specDec S fuel id (specEnc S id v) (Gen2.zeroMsg S id) = some v :=
  spec_roundtrip S hS (zeroMsgOk_of_B S hZ) id v hwt hsz

end Pico.SpecRt

#print axioms Pico.SpecRt.spec_roundtrip
#print axioms Pico.SpecRt.spec_roundtrip_dec
#print axioms Pico.SpecRt.specDec_append
#print axioms Pico.SpecRt.specDec_mono_le
#print axioms Pico.SpecRt.parse1_append
#print axioms Pico.SpecRt.msg_empty_zero
#print axioms Pico.SpecRt.field_rt
#print axioms Pico.SpecRt.chunks_rt
#print axioms Pico.SpecRt.decs_unrec
