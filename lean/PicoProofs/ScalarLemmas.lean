import PicoModel.Spec
/-
TASK B — scalar conversion lemmas (properties C15 / C13 / C03).

The regenerated Go expressions (`PicoModel/Gen/Exprs.lean`, over `BitVec`) seen through the glue
`encBits` / `decBits` / `isDefaultBits` (`PicoModel/Conv.lean`) coincide with the closed-form
arithmetic of the specification (`Spec.scalarBits`, `Spec.scalarOfBits`), round-trip, and the
default guard of the plain writer fires exactly on the all-zero bit pattern.

Everything here is kernel-only: no `bv_decide`, no `native_decide`.
-/
namespace Pico
open Gen

/-! ### BitVec helpers -/

theorem msb32 (v : BitVec 32) : v.msb = decide (2 ^ 31 ≤ v.toNat) := BitVec.msb_eq_decide v
theorem msb64 (v : BitVec 64) : v.msb = decide (2 ^ 63 ≤ v.toNat) := BitVec.msb_eq_decide v

theorem toNat_ofNat32 {n : Nat} (h : n < 2 ^ 32) : (BitVec.ofNat 32 n).toNat = n := by
  rw [BitVec.toNat_ofNat]; exact Nat.mod_eq_of_lt h

theorem toNat_ofNat64 {n : Nat} (h : n < 2 ^ 64) : (BitVec.ofNat 64 n).toNat = n := by
  rw [BitVec.toNat_ofNat]; exact Nat.mod_eq_of_lt h

theorem sshiftRight31 (v : BitVec 32) :
    BitVec.sshiftRight v 31 = if v.msb then 0xFFFFFFFF#32 else 0#32 := by
  apply BitVec.eq_of_toNat_eq
  have := v.isLt
  rw [BitVec.toNat_sshiftRight, msb32]
  by_cases h : 2 ^ 31 ≤ v.toNat
  · simp only [h, decide_true, if_true, Nat.shiftRight_eq_div_pow]
    show _ = 4294967295
    omega
  · simp only [h, decide_false, Nat.shiftRight_eq_div_pow]
    show _ = 0
    simp; omega

theorem sshiftRight63 (v : BitVec 64) :
    BitVec.sshiftRight v 63 = if v.msb then 0xFFFFFFFFFFFFFFFF#64 else 0#64 := by
  apply BitVec.eq_of_toNat_eq
  have := v.isLt
  rw [BitVec.toNat_sshiftRight, msb64]
  by_cases h : 2 ^ 63 ≤ v.toNat
  · simp only [h, decide_true, if_true, Nat.shiftRight_eq_div_pow]
    show _ = 18446744073709551615
    omega
  · simp only [h, decide_false, Nat.shiftRight_eq_div_pow]
    show _ = 0
    simp; omega

/-! ### zig-zag, 32 bit -/

/-- C15 headline: the Go expression `(v << 1) ^ (v >> 31)` is "shift, then flip all bits when negative" -/
theorem encodeZigZag32_eq (v : BitVec 32) :
    Gen.encodeZigZag32 v = (v <<< 1) ^^^ (if v.msb then 0xFFFFFFFF#32 else 0#32) := by
  unfold encodeZigZag32
  first
  | (rw [sshiftRight31]; done)
  | (rw [sshiftRight31, BitVec.xor_comm])

theorem encodeZigZag32_not (v : BitVec 32) :
    Gen.encodeZigZag32 v = if v.msb then ~~~(v <<< 1) else v <<< 1 := by
  rw [encodeZigZag32_eq]
  cases v.msb
  · simp
  · simp only [if_true]
    rw [show 0xFFFFFFFF#32 = BitVec.allOnes 32 from rfl, BitVec.xor_allOnes]

theorem toNat_encodeZigZag32 (v : BitVec 32) : (Gen.encodeZigZag32 v).toNat =
    if v.toNat < 2 ^ 31 then 2 * v.toNat else 2 * (2 ^ 32 - v.toNat) - 1 := by
  rw [encodeZigZag32_not, msb32]
  have := v.isLt
  by_cases h : v.toNat < 2 ^ 31
  · have h' : ¬ 2 ^ 31 ≤ v.toNat := by omega
    rw [if_pos h, decide_eq_false h']
    simp only [Bool.false_eq_true, if_false, BitVec.toNat_shiftLeft, Nat.shiftLeft_eq]
    omega
  · have h' : 2 ^ 31 ≤ v.toNat := by omega
    rw [if_neg h, decide_eq_true h']
    simp only [if_true, BitVec.toNat_not, BitVec.toNat_shiftLeft, Nat.shiftLeft_eq]
    omega

/-- the sign mask spelled `-(v & 1)` -/
theorem neg_and_one32 (v : BitVec 32) :
    -(v &&& 1#32) = if v.toNat % 2 = 1 then 0xFFFFFFFF#32 else 0#32 := by
  have h : v &&& 1#32 = BitVec.ofNat 32 (v.toNat % 2) := by
    apply BitVec.eq_of_toNat_eq
    simp only [BitVec.toNat_and, BitVec.toNat_ofNat]
    rw [show (1 % 2 ^ 32 : Nat) = 1 from rfl, Nat.and_one_is_mod]
    have := v.isLt
    omega
  rw [h]
  by_cases hp : v.toNat % 2 = 1
  · rw [if_pos hp, hp]; decide
  · have h0 : v.toNat % 2 = 0 := by omega
    rw [if_neg hp, h0]; decide

theorem decodeZigZag32_not (v : BitVec 32) :
    Gen.decodeZigZag32 v = if v.toNat % 2 = 1 then ~~~(v >>> 1) else v >>> 1 := by
  first
  | -- `int32(v>>1) ^ int32(v)<<31>>31`
    (unfold decodeZigZag32
     rw [sshiftRight31, msb32, BitVec.toNat_shiftLeft, Nat.shiftLeft_eq]
     have := v.isLt
     by_cases h : v.toNat % 2 = 1
     · have h' : 2 ^ 31 ≤ v.toNat * 2 ^ 31 % 2 ^ 32 := by omega
       rw [if_pos h, decide_eq_true h']
       simp only [if_true]
       rw [show 0xFFFFFFFF#32 = BitVec.allOnes 32 from rfl, BitVec.xor_allOnes]
     · have h' : ¬ 2 ^ 31 ≤ v.toNat * 2 ^ 31 % 2 ^ 32 := by omega
       rw [if_neg h, decide_eq_false h']
       simp)
  | -- the other usual spelling, `int32(v>>1) ^ -int32(v&1)` (the mask possibly in a local)
    (unfold decodeZigZag32
     simp only []
     rw [neg_and_one32]
     by_cases h : v.toNat % 2 = 1
     · rw [if_pos h, if_pos h, show 0xFFFFFFFF#32 = BitVec.allOnes 32 from rfl, BitVec.xor_allOnes]
     · rw [if_neg h, if_neg h]; simp)

theorem toNat_decodeZigZag32 (v : BitVec 32) : (Gen.decodeZigZag32 v).toNat =
    if v.toNat % 2 = 0 then v.toNat / 2 else 2 ^ 32 - (v.toNat + 1) / 2 := by
  rw [decodeZigZag32_not]
  have := v.isLt
  by_cases h : v.toNat % 2 = 1
  · have h' : ¬ v.toNat % 2 = 0 := by omega
    rw [if_pos h, if_neg h', BitVec.toNat_not, BitVec.toNat_ushiftRight,
      Nat.shiftRight_eq_div_pow]
    omega
  · have h' : v.toNat % 2 = 0 := by omega
    rw [if_neg h, if_pos h', BitVec.toNat_ushiftRight, Nat.shiftRight_eq_div_pow]

/-- C15 headline: 32-bit zig-zag round trip on the regenerated definitions -/
theorem decodeZigZag32_encodeZigZag32 (v : BitVec 32) :
    Gen.decodeZigZag32 (Gen.encodeZigZag32 v) = v := by
  apply BitVec.eq_of_toNat_eq
  rw [toNat_decodeZigZag32, toNat_encodeZigZag32]
  have := v.isLt
  split <;> split <;> omega

/-! ### zig-zag, 64 bit -/

theorem wireEncodeZigZag_eq (v : BitVec 64) :
    Gen.wireEncodeZigZag v = (v <<< 1) ^^^ (if v.msb then 0xFFFFFFFFFFFFFFFF#64 else 0#64) := by
  unfold wireEncodeZigZag; rw [sshiftRight63]

theorem wireEncodeZigZag_not (v : BitVec 64) :
    Gen.wireEncodeZigZag v = if v.msb then ~~~(v <<< 1) else v <<< 1 := by
  rw [wireEncodeZigZag_eq]
  cases v.msb
  · simp
  · simp only [if_true]
    rw [show 0xFFFFFFFFFFFFFFFF#64 = BitVec.allOnes 64 from rfl, BitVec.xor_allOnes]

theorem toNat_wireEncodeZigZag (v : BitVec 64) : (Gen.wireEncodeZigZag v).toNat =
    if v.toNat < 2 ^ 63 then 2 * v.toNat else 2 * (2 ^ 64 - v.toNat) - 1 := by
  rw [wireEncodeZigZag_not, msb64]
  have := v.isLt
  by_cases h : v.toNat < 2 ^ 63
  · have h' : ¬ 2 ^ 63 ≤ v.toNat := by omega
    rw [if_pos h, decide_eq_false h']
    simp only [Bool.false_eq_true, if_false, BitVec.toNat_shiftLeft, Nat.shiftLeft_eq]
    omega
  · have h' : 2 ^ 63 ≤ v.toNat := by omega
    rw [if_neg h, decide_eq_true h']
    simp only [if_true, BitVec.toNat_not, BitVec.toNat_shiftLeft, Nat.shiftLeft_eq]
    omega

theorem wireDecodeZigZag_not (v : BitVec 64) :
    Gen.wireDecodeZigZag v = if v.toNat % 2 = 1 then ~~~(v >>> 1) else v >>> 1 := by
  unfold wireDecodeZigZag
  rw [sshiftRight63, msb64, BitVec.toNat_shiftLeft, Nat.shiftLeft_eq]
  have := v.isLt
  by_cases h : v.toNat % 2 = 1
  · have h' : 2 ^ 63 ≤ v.toNat * 2 ^ 63 % 2 ^ 64 := by omega
    rw [if_pos h, decide_eq_true h']
    simp only [if_true]
    rw [show 0xFFFFFFFFFFFFFFFF#64 = BitVec.allOnes 64 from rfl, BitVec.xor_allOnes]
  · have h' : ¬ 2 ^ 63 ≤ v.toNat * 2 ^ 63 % 2 ^ 64 := by omega
    rw [if_neg h, decide_eq_false h']
    simp

theorem toNat_wireDecodeZigZag (v : BitVec 64) : (Gen.wireDecodeZigZag v).toNat =
    if v.toNat % 2 = 0 then v.toNat / 2 else 2 ^ 64 - (v.toNat + 1) / 2 := by
  rw [wireDecodeZigZag_not]
  have := v.isLt
  by_cases h : v.toNat % 2 = 1
  · have h' : ¬ v.toNat % 2 = 0 := by omega
    rw [if_pos h, if_neg h', BitVec.toNat_not, BitVec.toNat_ushiftRight,
      Nat.shiftRight_eq_div_pow]
    omega
  · have h' : v.toNat % 2 = 0 := by omega
    rw [if_neg h, if_pos h', BitVec.toNat_ushiftRight, Nat.shiftRight_eq_div_pow]

/-- C15 headline: 64-bit zig-zag round trip on the regenerated definitions -/
theorem wireDecodeZigZag_wireEncodeZigZag (v : BitVec 64) :
    Gen.wireDecodeZigZag (Gen.wireEncodeZigZag v) = v := by
  apply BitVec.eq_of_toNat_eq
  rw [toNat_wireDecodeZigZag, toNat_wireEncodeZigZag]
  have := v.isLt
  split <;> split <;> omega

/-! ### sign extension -/

theorem toNat_signExtend64 (v : BitVec 32) : (BitVec.signExtend 64 v).toNat =
    if v.toNat < 2 ^ 31 then v.toNat else v.toNat + (2 ^ 64 - 2 ^ 32) := by
  rw [BitVec.toNat_signExtend, BitVec.toNat_setWidth, msb32]
  have := v.isLt
  by_cases h : v.toNat < 2 ^ 31
  · have h' : ¬ 2 ^ 31 ≤ v.toNat := by omega
    rw [if_pos h, decide_eq_false h']
    simp only [Bool.false_eq_true, if_false]
    omega
  · have h' : 2 ^ 31 ≤ v.toNat := by omega
    rw [if_neg h, decide_eq_true h']
    simp only [if_true]
    omega

/-! ### 6. headline dec ∘ enc theorems over `BitVec`, directly on the regenerated definitions -/

theorem dec_enc_Bool (b : Bool) : Gen.dec_Bool (Gen.enc_Bool b) = b := by cases b <;> rfl

theorem dec_enc_Int32 (v : BitVec 32) : Gen.dec_Int32 (Gen.enc_Int32 v) = v := by
  unfold dec_Int32 enc_Int32
  apply BitVec.eq_of_toNat_eq
  rw [BitVec.toNat_setWidth, toNat_signExtend64]
  have := v.isLt
  split <;> omega

theorem dec_enc_Uint32 (v : BitVec 32) : Gen.dec_Uint32 (Gen.enc_Uint32 v) = v := by
  unfold dec_Uint32 enc_Uint32
  apply BitVec.eq_of_toNat_eq
  rw [BitVec.toNat_setWidth, BitVec.toNat_setWidth]
  have := v.isLt
  omega

theorem dec_enc_Sint32 (v : BitVec 32) : Gen.dec_Sint32 (Gen.enc_Sint32 v) = v := by
  unfold dec_Sint32 enc_Sint32
  have : BitVec.setWidth 32 (BitVec.setWidth 64 (Gen.encodeZigZag32 v)) = Gen.encodeZigZag32 v := by
    apply BitVec.eq_of_toNat_eq
    rw [BitVec.toNat_setWidth, BitVec.toNat_setWidth]
    have := (Gen.encodeZigZag32 v).isLt
    omega
  rw [this, decodeZigZag32_encodeZigZag32]

theorem dec_enc_Fixed32 (v : BitVec 32) : Gen.dec_Fixed32 (Gen.enc_Fixed32 v) = v := rfl
theorem dec_enc_Sfixed32 (v : BitVec 32) : Gen.dec_Sfixed32 (Gen.enc_Sfixed32 v) = v := rfl
theorem dec_enc_Float (v : BitVec 32) : Gen.dec_Float (Gen.enc_Float v) = v := rfl
theorem dec_enc_Int64 (v : BitVec 64) : Gen.dec_Int64 (Gen.enc_Int64 v) = v := rfl
theorem dec_enc_Uint64 (v : BitVec 64) : Gen.dec_Uint64 (Gen.enc_Uint64 v) = v := rfl
theorem dec_enc_Sint64 (v : BitVec 64) : Gen.dec_Sint64 (Gen.enc_Sint64 v) = v :=
  wireDecodeZigZag_wireEncodeZigZag v
theorem dec_enc_Fixed64 (v : BitVec 64) : Gen.dec_Fixed64 (Gen.enc_Fixed64 v) = v := rfl
theorem dec_enc_Sfixed64 (v : BitVec 64) : Gen.dec_Sfixed64 (Gen.enc_Sfixed64 v) = v := rfl
theorem dec_enc_Double (v : BitVec 64) : Gen.dec_Double (Gen.enc_Double v) = v := rfl

/-! ### 5. the four writer variants agree -/

theorem encBits_bool_plain (n : Nat) : encBits .plain .bool n = if n = 0 then 0 else 1 := by
  by_cases h : n = 0
  · subst h; rfl
  · have hb : (n != 0) = true := by simp [h]
    simp only [encBits, hb, if_neg h]
    rfl

theorem variants_agree_bool (var : Variant) (n : Nat) :
    encBits var .bool n = encBits .plain .bool n := by
  rw [encBits_bool_plain]
  by_cases h : n = 0
  · subst h; cases var <;> rfl
  · have hb : (n != 0) = true := by simp [h]
    cases var <;> simp only [encBits, hb, if_neg h] <;> rfl

/-- every variant hands the same number to the wire primitive as the plain writer
(for packed bool the *byte* appended has the same value as the varint of the plain writer) -/
theorem variants_agree (var : Variant) (k : Scalar) (n : Nat) :
    encBits var k n = encBits .plain k n := by
  cases k
  case bool => exact variants_agree_bool var n
  all_goals cases var <;> rfl

theorem variants_agree_rep (k : Scalar) (n : Nat) : encBits .rep k n = encBits .plain k n :=
  variants_agree .rep k n
theorem variants_agree_always (k : Scalar) (n : Nat) : encBits .always k n = encBits .plain k n :=
  variants_agree .always k n
theorem variants_agree_alwaysRep (k : Scalar) (n : Nat) :
    encBits .alwaysRep k n = encBits .plain k n :=
  variants_agree .alwaysRep k n
theorem variants_agree_rep_bool (n : Nat) : encBits .rep .bool n = encBits .plain .bool n :=
  variants_agree .rep .bool n

theorem decBits_rep (rep : Bool) (k : Scalar) (x : Nat) : decBits rep k x = decBits false k x := by
  cases rep
  · rfl
  · cases k <;> rfl

/-! ### 1. `encBits` is the closed form -/

theorem enc_closed_form_bool (var : Variant) (n : Nat) (_h : n < 2 ^ 1) :
    encBits var .bool n = Spec.scalarBits .bool n := by
  rw [variants_agree, encBits_bool_plain]; rfl

theorem enc_closed_form_int32 (var : Variant) (n : Nat) (h : n < 2 ^ 32) :
    encBits var .int32 n = Spec.scalarBits .int32 n := by
  rw [variants_agree]
  show (BitVec.signExtend 64 (BitVec.ofNat 32 n)).toNat = if n < 2147483648 then n else n + (18446744073709551616 - 4294967296)
  rw [toNat_signExtend64, toNat_ofNat32 h]

theorem enc_closed_form_int64 (var : Variant) (n : Nat) (h : n < 2 ^ 64) :
    encBits var .int64 n = Spec.scalarBits .int64 n := by
  rw [variants_agree]; exact toNat_ofNat64 h

theorem enc_closed_form_uint32 (var : Variant) (n : Nat) (h : n < 2 ^ 32) :
    encBits var .uint32 n = Spec.scalarBits .uint32 n := by
  rw [variants_agree]
  show (BitVec.setWidth 64 (BitVec.ofNat 32 n)).toNat = n
  rw [BitVec.toNat_setWidth, toNat_ofNat32 h]
  omega

theorem enc_closed_form_uint64 (var : Variant) (n : Nat) (h : n < 2 ^ 64) :
    encBits var .uint64 n = Spec.scalarBits .uint64 n := by
  rw [variants_agree]; exact toNat_ofNat64 h

theorem enc_closed_form_sint32 (var : Variant) (n : Nat) (h : n < 2 ^ 32) :
    encBits var .sint32 n = Spec.scalarBits .sint32 n := by
  rw [variants_agree]
  show (BitVec.setWidth 64 (Gen.encodeZigZag32 (BitVec.ofNat 32 n))).toNat
    = if n < 2147483648 then 2 * n else 2 * (4294967296 - n) - 1
  rw [BitVec.toNat_setWidth, toNat_encodeZigZag32, toNat_ofNat32 h]
  split <;> omega

theorem enc_closed_form_sint64 (var : Variant) (n : Nat) (h : n < 2 ^ 64) :
    encBits var .sint64 n = Spec.scalarBits .sint64 n := by
  rw [variants_agree]
  show (Gen.wireEncodeZigZag (BitVec.ofNat 64 n)).toNat
    = if n < 9223372036854775808 then 2 * n else 2 * (18446744073709551616 - n) - 1
  rw [toNat_wireEncodeZigZag, toNat_ofNat64 h]

theorem enc_closed_form_fixed32 (var : Variant) (n : Nat) (h : n < 2 ^ 32) :
    encBits var .fixed32 n = Spec.scalarBits .fixed32 n := by
  rw [variants_agree]; exact toNat_ofNat32 h

theorem enc_closed_form_fixed64 (var : Variant) (n : Nat) (h : n < 2 ^ 64) :
    encBits var .fixed64 n = Spec.scalarBits .fixed64 n := by
  rw [variants_agree]; exact toNat_ofNat64 h

theorem enc_closed_form_sfixed32 (var : Variant) (n : Nat) (h : n < 2 ^ 32) :
    encBits var .sfixed32 n = Spec.scalarBits .sfixed32 n := by
  rw [variants_agree]; exact toNat_ofNat32 h

theorem enc_closed_form_sfixed64 (var : Variant) (n : Nat) (h : n < 2 ^ 64) :
    encBits var .sfixed64 n = Spec.scalarBits .sfixed64 n := by
  rw [variants_agree]; exact toNat_ofNat64 h

theorem enc_closed_form_float (var : Variant) (n : Nat) (h : n < 2 ^ 32) :
    encBits var .float n = Spec.scalarBits .float n := by
  rw [variants_agree]; exact toNat_ofNat32 h

theorem enc_closed_form_double (var : Variant) (n : Nat) (h : n < 2 ^ 64) :
    encBits var .double n = Spec.scalarBits .double n := by
  rw [variants_agree]; exact toNat_ofNat64 h

/-- 1. for every kind (string/bytes trivially: both sides are `n`) and every variant -/
theorem enc_closed_form (var : Variant) (k : Scalar) (n : Nat) (h : n < 2 ^ k.width) :
    encBits var k n = Spec.scalarBits k n := by
  cases k
  case bool => exact enc_closed_form_bool var n h
  case int32 => exact enc_closed_form_int32 var n h
  case int64 => exact enc_closed_form_int64 var n h
  case uint32 => exact enc_closed_form_uint32 var n h
  case uint64 => exact enc_closed_form_uint64 var n h
  case sint32 => exact enc_closed_form_sint32 var n h
  case sint64 => exact enc_closed_form_sint64 var n h
  case fixed32 => exact enc_closed_form_fixed32 var n h
  case fixed64 => exact enc_closed_form_fixed64 var n h
  case sfixed32 => exact enc_closed_form_sfixed32 var n h
  case sfixed64 => exact enc_closed_form_sfixed64 var n h
  case float => exact enc_closed_form_float var n h
  case double => exact enc_closed_form_double var n h
  case string => cases var <;> rfl
  case bytes => cases var <;> rfl

/-! #### bounds on `encBits` (no hypothesis on `n` needed for the numeric kinds) -/

/-- every numeric kind produces a number that fits `AppendVarint`/`AppendFixed64`'s `uint64` -/
theorem enc_lt_two64 (var : Variant) (k : Scalar) (hk : k.isBytes = false) (n : Nat) :
    encBits var k n < 2 ^ 64 := by
  rw [variants_agree]
  cases k
  case bool => rw [encBits_bool_plain]; split <;> omega
  case string => cases hk
  case bytes => cases hk
  case fixed32 => exact Nat.lt_trans (BitVec.isLt _) (by decide)
  case sfixed32 => exact Nat.lt_trans (BitVec.isLt _) (by decide)
  case float => exact Nat.lt_trans (BitVec.isLt _) (by decide)
  all_goals exact BitVec.isLt _

/-- the fixed32-wire kinds produce a number that fits `AppendFixed32`'s `uint32` -/
theorem enc_lt_two32 (var : Variant) (k : Scalar) (hk : k.wire = 5) (n : Nat) :
    encBits var k n < 2 ^ 32 := by
  rw [variants_agree]
  cases k
  case fixed32 => exact BitVec.isLt _
  case sfixed32 => exact BitVec.isLt _
  case float => exact BitVec.isLt _
  all_goals exact absurd hk (by decide)

/-- bool is 0 or 1 in every variant; in particular the packed byte is `< 256` -/
theorem enc_bool_le_one (var : Variant) (n : Nat) : encBits var .bool n ≤ 1 := by
  rw [variants_agree, encBits_bool_plain]; split <;> omega

theorem enc_lt_256_rep_bool (n : Nat) : encBits .rep .bool n < 256 :=
  Nat.lt_of_le_of_lt (enc_bool_le_one .rep n) (by decide)

theorem enc_lt_256_alwaysRep_bool (n : Nat) : encBits .alwaysRep .bool n < 256 :=
  Nat.lt_of_le_of_lt (enc_bool_le_one .alwaysRep n) (by decide)

/-- the form asked for: under `n < 2^k.width`, for all 15 kinds -/
theorem enc_lt_two64' (var : Variant) (k : Scalar) (n : Nat) (h : n < 2 ^ k.width) :
    encBits var k n < 2 ^ 64 := by
  cases hk : k.isBytes
  · exact enc_lt_two64 var k hk n
  · have hw : k.width = 0 := by cases k <;> first | rfl | cases hk
    rw [hw] at h
    have : encBits var k n = n := by cases k <;> first | (cases var <;> rfl) | cases hk
    rw [this]; omega

/-! ### 2. `decBits` is the closed form -/

theorem decBits_bool_false (x : Nat) (hx : x < 2 ^ 64) :
    decBits false .bool x = if x = 0 then 0 else 1 := by
  by_cases h : x = 0
  · subst h; rfl
  · have hb : Gen.dec_Bool (BitVec.ofNat 64 x) = true := by
      simp only [dec_Bool, Bool.not_eq_true', beq_eq_false_iff_ne, ne_eq, ← BitVec.toNat_inj,
        toNat_ofNat64 hx]
      exact h
    simp only [decBits, hb, if_neg h]
    rfl

theorem dec_closed_form_bool (rep : Bool) (x : Nat) (hx : x < 2 ^ 64) :
    decBits rep .bool x = Spec.scalarOfBits .bool x := by
  rw [decBits_rep, decBits_bool_false x hx]; rfl

theorem dec_closed_form_int32 (rep : Bool) (x : Nat) (hx : x < 2 ^ 64) :
    decBits rep .int32 x = Spec.scalarOfBits .int32 x := by
  rw [decBits_rep]
  show (BitVec.setWidth 32 (BitVec.ofNat 64 x)).toNat = x % 4294967296
  rw [BitVec.toNat_setWidth, toNat_ofNat64 hx]

theorem dec_closed_form_int64 (rep : Bool) (x : Nat) (hx : x < 2 ^ 64) :
    decBits rep .int64 x = Spec.scalarOfBits .int64 x := by
  rw [decBits_rep]; exact toNat_ofNat64 hx

theorem dec_closed_form_uint32 (rep : Bool) (x : Nat) (hx : x < 2 ^ 64) :
    decBits rep .uint32 x = Spec.scalarOfBits .uint32 x := by
  rw [decBits_rep]
  show (BitVec.setWidth 32 (BitVec.ofNat 64 x)).toNat = x % 4294967296
  rw [BitVec.toNat_setWidth, toNat_ofNat64 hx]

theorem dec_closed_form_uint64 (rep : Bool) (x : Nat) (hx : x < 2 ^ 64) :
    decBits rep .uint64 x = Spec.scalarOfBits .uint64 x := by
  rw [decBits_rep]; exact toNat_ofNat64 hx

theorem dec_closed_form_sint32 (rep : Bool) (x : Nat) (hx : x < 2 ^ 64) :
    decBits rep .sint32 x = Spec.scalarOfBits .sint32 x := by
  rw [decBits_rep]
  show (Gen.decodeZigZag32 (BitVec.setWidth 32 (BitVec.ofNat 64 x))).toNat
    = if x % 4294967296 % 2 = 0 then x % 4294967296 / 2 else 4294967296 - (x % 4294967296 + 1) / 2
  rw [toNat_decodeZigZag32, BitVec.toNat_setWidth, toNat_ofNat64 hx]

theorem dec_closed_form_sint64 (rep : Bool) (x : Nat) (hx : x < 2 ^ 64) :
    decBits rep .sint64 x = Spec.scalarOfBits .sint64 x := by
  rw [decBits_rep]
  show (Gen.wireDecodeZigZag (BitVec.ofNat 64 x)).toNat
    = if x % 2 = 0 then x / 2 else 18446744073709551616 - (x + 1) / 2
  rw [toNat_wireDecodeZigZag, toNat_ofNat64 hx]

theorem dec_closed_form_fixed32 (rep : Bool) (x : Nat) (hx : x < 2 ^ 32) :
    decBits rep .fixed32 x = Spec.scalarOfBits .fixed32 x := by
  rw [decBits_rep]; exact toNat_ofNat32 hx

theorem dec_closed_form_fixed64 (rep : Bool) (x : Nat) (hx : x < 2 ^ 64) :
    decBits rep .fixed64 x = Spec.scalarOfBits .fixed64 x := by
  rw [decBits_rep]; exact toNat_ofNat64 hx

theorem dec_closed_form_sfixed32 (rep : Bool) (x : Nat) (hx : x < 2 ^ 32) :
    decBits rep .sfixed32 x = Spec.scalarOfBits .sfixed32 x := by
  rw [decBits_rep]; exact toNat_ofNat32 hx

theorem dec_closed_form_sfixed64 (rep : Bool) (x : Nat) (hx : x < 2 ^ 64) :
    decBits rep .sfixed64 x = Spec.scalarOfBits .sfixed64 x := by
  rw [decBits_rep]; exact toNat_ofNat64 hx

theorem dec_closed_form_float (rep : Bool) (x : Nat) (hx : x < 2 ^ 32) :
    decBits rep .float x = Spec.scalarOfBits .float x := by
  rw [decBits_rep]; exact toNat_ofNat32 hx

theorem dec_closed_form_double (rep : Bool) (x : Nat) (hx : x < 2 ^ 64) :
    decBits rep .double x = Spec.scalarOfBits .double x := by
  rw [decBits_rep]; exact toNat_ofNat64 hx

/-- 2. for every kind; `hx5` is the tighter input bound of the fixed32-wire kinds -/
theorem dec_closed_form (rep : Bool) (k : Scalar) (x : Nat) (hx : x < 2 ^ 64)
    (hx5 : k.wire = 5 → x < 2 ^ 32) :
    decBits rep k x = Spec.scalarOfBits k x := by
  cases k
  case bool => exact dec_closed_form_bool rep x hx
  case int32 => exact dec_closed_form_int32 rep x hx
  case int64 => exact dec_closed_form_int64 rep x hx
  case uint32 => exact dec_closed_form_uint32 rep x hx
  case uint64 => exact dec_closed_form_uint64 rep x hx
  case sint32 => exact dec_closed_form_sint32 rep x hx
  case sint64 => exact dec_closed_form_sint64 rep x hx
  case fixed32 => exact dec_closed_form_fixed32 rep x (hx5 rfl)
  case fixed64 => exact dec_closed_form_fixed64 rep x hx
  case sfixed32 => exact dec_closed_form_sfixed32 rep x (hx5 rfl)
  case sfixed64 => exact dec_closed_form_sfixed64 rep x hx
  case float => exact dec_closed_form_float rep x (hx5 rfl)
  case double => exact dec_closed_form_double rep x hx
  case string => cases rep <;> rfl
  case bytes => cases rep <;> rfl

/-- the stored bit pattern fits the kind (no hypothesis on `x` needed except for bool's glue) -/
theorem dec_lt_width (rep : Bool) (k : Scalar) (hk : k.isBytes = false) (x : Nat)
    (hx : x < 2 ^ 64) : decBits rep k x < 2 ^ k.width := by
  rw [decBits_rep]
  cases k
  case bool => rw [decBits_bool_false x hx]; show _ < 2; split <;> omega
  case string => cases hk
  case bytes => cases hk
  all_goals exact BitVec.isLt _

theorem scalarOfBits_lt_width (k : Scalar) (hk : k.isBytes = false) (x : Nat)
    (hx : x < 2 ^ 64) (hx5 : k.wire = 5 → x < 2 ^ 32) : Spec.scalarOfBits k x < 2 ^ k.width := by
  rw [← dec_closed_form false k x hx hx5]; exact dec_lt_width false k hk x hx

/-! ### 3. round trip -/

theorem scalarBits_lt_two64 (k : Scalar) (n : Nat) (h : n < 2 ^ k.width) :
    Spec.scalarBits k n < 2 ^ 64 := by
  rw [← enc_closed_form .plain k n h]; exact enc_lt_two64' .plain k n h

theorem scalarBits_lt_two32 (k : Scalar) (hk : k.wire = 5) (n : Nat) (h : n < 2 ^ k.width) :
    Spec.scalarBits k n < 2 ^ 32 := by
  rw [← enc_closed_form .plain k n h]; exact enc_lt_two32 .plain k hk n

theorem roundtrip_spec (k : Scalar) (n : Nat) (h : n < 2 ^ k.width) :
    Spec.scalarOfBits k (Spec.scalarBits k n) = n := by
  cases k
  case bool =>
    have h : n < 2 := h
    simp only [Spec.scalarBits, Spec.scalarOfBits]
    split <;> simp <;> omega
  case int32 =>
    have h : n < 4294967296 := h
    show (if n < 2147483648 then n else n + (18446744073709551616 - 4294967296)) % 4294967296 = n
    by_cases hn : n < 2147483648
    · rw [if_pos hn]; omega
    · rw [if_neg hn]; omega
  case sint32 =>
    have h : n < 4294967296 := h
    show (if (if n < 2147483648 then 2 * n else 2 * (4294967296 - n) - 1) % 4294967296 % 2 = 0
      then (if n < 2147483648 then 2 * n else 2 * (4294967296 - n) - 1) % 4294967296 / 2
      else 4294967296 -
        ((if n < 2147483648 then 2 * n else 2 * (4294967296 - n) - 1) % 4294967296 + 1) / 2) = n
    by_cases hn : n < 2147483648
    · rw [if_pos hn]
      have h0 : 2 * n % 4294967296 % 2 = 0 := by omega
      rw [if_pos h0]; omega
    · rw [if_neg hn]
      have h0 : ¬ (2 * (4294967296 - n) - 1) % 4294967296 % 2 = 0 := by omega
      rw [if_neg h0]; omega
  case sint64 =>
    have h : n < 18446744073709551616 := h
    show (if (if n < 9223372036854775808 then 2 * n else 2 * (18446744073709551616 - n) - 1) % 2 = 0
      then (if n < 9223372036854775808 then 2 * n else 2 * (18446744073709551616 - n) - 1) / 2
      else 18446744073709551616 -
        ((if n < 9223372036854775808 then 2 * n else 2 * (18446744073709551616 - n) - 1) + 1) / 2) = n
    by_cases hn : n < 9223372036854775808
    · rw [if_pos hn]
      have h0 : 2 * n % 2 = 0 := by omega
      rw [if_pos h0]; omega
    · rw [if_neg hn]
      have h0 : ¬ (2 * (18446744073709551616 - n) - 1) % 2 = 0 := by omega
      rw [if_neg h0]; omega
  case uint32 =>
    have h : n < 4294967296 := h
    show n % 4294967296 = n
    omega
  all_goals rfl

/-- 3. what the reader stores after the writer wrote `n` is `n`, for every kind, every writer
variant and both readers -/
theorem roundtrip_bits (rep : Bool) (var : Variant) (k : Scalar) (n : Nat) (h : n < 2 ^ k.width) :
    Spec.scalarOfBits k (Spec.scalarBits k n) = n ∧ decBits rep k (encBits var k n) = n := by
  refine ⟨roundtrip_spec k n h, ?_⟩
  rw [enc_closed_form var k n h,
    dec_closed_form rep k _ (scalarBits_lt_two64 k n h) (fun hk => scalarBits_lt_two32 k hk n h)]
  exact roundtrip_spec k n h

theorem roundtrip_bits_bool (rep : Bool) (var : Variant) (n : Nat) (h : n < 2 ^ 1) :
    decBits rep .bool (encBits var .bool n) = n := (roundtrip_bits rep var .bool n h).2
theorem roundtrip_bits_int32 (rep : Bool) (var : Variant) (n : Nat) (h : n < 2 ^ 32) :
    decBits rep .int32 (encBits var .int32 n) = n := (roundtrip_bits rep var .int32 n h).2
theorem roundtrip_bits_int64 (rep : Bool) (var : Variant) (n : Nat) (h : n < 2 ^ 64) :
    decBits rep .int64 (encBits var .int64 n) = n := (roundtrip_bits rep var .int64 n h).2
theorem roundtrip_bits_uint32 (rep : Bool) (var : Variant) (n : Nat) (h : n < 2 ^ 32) :
    decBits rep .uint32 (encBits var .uint32 n) = n := (roundtrip_bits rep var .uint32 n h).2
theorem roundtrip_bits_uint64 (rep : Bool) (var : Variant) (n : Nat) (h : n < 2 ^ 64) :
    decBits rep .uint64 (encBits var .uint64 n) = n := (roundtrip_bits rep var .uint64 n h).2
theorem roundtrip_bits_sint32 (rep : Bool) (var : Variant) (n : Nat) (h : n < 2 ^ 32) :
    decBits rep .sint32 (encBits var .sint32 n) = n := (roundtrip_bits rep var .sint32 n h).2
theorem roundtrip_bits_sint64 (rep : Bool) (var : Variant) (n : Nat) (h : n < 2 ^ 64) :
    decBits rep .sint64 (encBits var .sint64 n) = n := (roundtrip_bits rep var .sint64 n h).2
theorem roundtrip_bits_fixed32 (rep : Bool) (var : Variant) (n : Nat) (h : n < 2 ^ 32) :
    decBits rep .fixed32 (encBits var .fixed32 n) = n := (roundtrip_bits rep var .fixed32 n h).2
theorem roundtrip_bits_fixed64 (rep : Bool) (var : Variant) (n : Nat) (h : n < 2 ^ 64) :
    decBits rep .fixed64 (encBits var .fixed64 n) = n := (roundtrip_bits rep var .fixed64 n h).2
theorem roundtrip_bits_sfixed32 (rep : Bool) (var : Variant) (n : Nat) (h : n < 2 ^ 32) :
    decBits rep .sfixed32 (encBits var .sfixed32 n) = n := (roundtrip_bits rep var .sfixed32 n h).2
theorem roundtrip_bits_sfixed64 (rep : Bool) (var : Variant) (n : Nat) (h : n < 2 ^ 64) :
    decBits rep .sfixed64 (encBits var .sfixed64 n) = n := (roundtrip_bits rep var .sfixed64 n h).2
theorem roundtrip_bits_float (rep : Bool) (var : Variant) (n : Nat) (h : n < 2 ^ 32) :
    decBits rep .float (encBits var .float n) = n := (roundtrip_bits rep var .float n h).2
theorem roundtrip_bits_double (rep : Bool) (var : Variant) (n : Nat) (h : n < 2 ^ 64) :
    decBits rep .double (encBits var .double n) = n := (roundtrip_bits rep var .double n h).2

/-! ### 4. the default guard fires exactly on the zero bit pattern -/

theorem ofNat32_beq_zero (n : Nat) (h : n < 2 ^ 32) :
    ((BitVec.ofNat 32 n == 0#32) = true) ↔ n = 0 := by
  rw [beq_iff_eq, ← BitVec.toNat_inj, toNat_ofNat32 h]; rfl

theorem ofNat64_beq_zero (n : Nat) (h : n < 2 ^ 64) :
    ((BitVec.ofNat 64 n == 0#64) = true) ↔ n = 0 := by
  rw [beq_iff_eq, ← BitVec.toNat_inj, toNat_ofNat64 h]; rfl

theorem default_iff_zero_bool (n : Nat) (_h : n < 2 ^ 1) :
    isDefaultBits .bool n = true ↔ n = 0 := by
  show (!(n != 0)) = true ↔ n = 0
  simp

theorem default_iff_zero_int32 (n : Nat) (h : n < 2 ^ 32) :
    isDefaultBits .int32 n = true ↔ n = 0 := ofNat32_beq_zero n h
theorem default_iff_zero_int64 (n : Nat) (h : n < 2 ^ 64) :
    isDefaultBits .int64 n = true ↔ n = 0 := ofNat64_beq_zero n h
theorem default_iff_zero_uint32 (n : Nat) (h : n < 2 ^ 32) :
    isDefaultBits .uint32 n = true ↔ n = 0 := ofNat32_beq_zero n h
theorem default_iff_zero_uint64 (n : Nat) (h : n < 2 ^ 64) :
    isDefaultBits .uint64 n = true ↔ n = 0 := ofNat64_beq_zero n h
theorem default_iff_zero_sint32 (n : Nat) (h : n < 2 ^ 32) :
    isDefaultBits .sint32 n = true ↔ n = 0 := ofNat32_beq_zero n h
theorem default_iff_zero_sint64 (n : Nat) (h : n < 2 ^ 64) :
    isDefaultBits .sint64 n = true ↔ n = 0 := ofNat64_beq_zero n h
theorem default_iff_zero_fixed32 (n : Nat) (h : n < 2 ^ 32) :
    isDefaultBits .fixed32 n = true ↔ n = 0 := ofNat32_beq_zero n h
theorem default_iff_zero_fixed64 (n : Nat) (h : n < 2 ^ 64) :
    isDefaultBits .fixed64 n = true ↔ n = 0 := ofNat64_beq_zero n h
theorem default_iff_zero_sfixed32 (n : Nat) (h : n < 2 ^ 32) :
    isDefaultBits .sfixed32 n = true ↔ n = 0 := ofNat32_beq_zero n h
theorem default_iff_zero_sfixed64 (n : Nat) (h : n < 2 ^ 64) :
    isDefaultBits .sfixed64 n = true ↔ n = 0 := ofNat64_beq_zero n h
/-- for floats the omitted pattern is +0.0 (all bits zero) only; -0.0 = 0x80000000 is written -/
theorem default_iff_zero_float (n : Nat) (h : n < 2 ^ 32) :
    isDefaultBits .float n = true ↔ n = 0 := ofNat32_beq_zero n h
theorem default_iff_zero_double (n : Nat) (h : n < 2 ^ 64) :
    isDefaultBits .double n = true ↔ n = 0 := ofNat64_beq_zero n h

/-- 4. for the 13 numeric kinds. (For string/bytes `isDefaultBits` is constantly `false` — their
emptiness guard lives elsewhere — so the hypothesis `hk` cannot be dropped.) -/
theorem default_iff_zero (k : Scalar) (hk : k.isBytes = false) (n : Nat) (h : n < 2 ^ k.width) :
    isDefaultBits k n = true ↔ n = 0 := by
  cases k
  case bool => exact default_iff_zero_bool n h
  case int32 => exact default_iff_zero_int32 n h
  case int64 => exact default_iff_zero_int64 n h
  case uint32 => exact default_iff_zero_uint32 n h
  case uint64 => exact default_iff_zero_uint64 n h
  case sint32 => exact default_iff_zero_sint32 n h
  case sint64 => exact default_iff_zero_sint64 n h
  case fixed32 => exact default_iff_zero_fixed32 n h
  case fixed64 => exact default_iff_zero_fixed64 n h
  case sfixed32 => exact default_iff_zero_sfixed32 n h
  case sfixed64 => exact default_iff_zero_sfixed64 n h
  case float => exact default_iff_zero_float n h
  case double => exact default_iff_zero_double n h
  case string => cases hk
  case bytes => cases hk

/-- negative zero is *not* a default: the float with only the sign bit set is written -/
example : isDefaultBits .float 0x80000000 = false := by decide
example : isDefaultBits .double 0x8000000000000000 = false := by decide
/-- the hypothesis `k.isBytes = false` of `default_iff_zero` is necessary -/
example : ¬ (isDefaultBits .string 0 = true ↔ (0 : Nat) = 0) := by decide

end Pico

#print axioms Pico.enc_closed_form
#print axioms Pico.enc_lt_two64
#print axioms Pico.enc_lt_two64'
#print axioms Pico.enc_lt_two32
#print axioms Pico.enc_lt_256_rep_bool
#print axioms Pico.enc_lt_256_alwaysRep_bool
#print axioms Pico.dec_closed_form
#print axioms Pico.dec_lt_width
#print axioms Pico.roundtrip_spec
#print axioms Pico.roundtrip_bits
#print axioms Pico.default_iff_zero
#print axioms Pico.variants_agree
#print axioms Pico.variants_agree_rep_bool
#print axioms Pico.decBits_rep
#print axioms Pico.encodeZigZag32_eq
#print axioms Pico.decodeZigZag32_encodeZigZag32
#print axioms Pico.wireDecodeZigZag_wireEncodeZigZag
#print axioms Pico.dec_enc_Bool
#print axioms Pico.dec_enc_Int32
#print axioms Pico.dec_enc_Uint32
#print axioms Pico.dec_enc_Sint32
#print axioms Pico.dec_enc_Fixed32
#print axioms Pico.dec_enc_Sfixed32
#print axioms Pico.dec_enc_Float
#print axioms Pico.dec_enc_Int64
#print axioms Pico.dec_enc_Uint64
#print axioms Pico.dec_enc_Sint64
#print axioms Pico.dec_enc_Fixed64
#print axioms Pico.dec_enc_Sfixed64
#print axioms Pico.dec_enc_Double
