import PicoModel.Gen.GoCoverage
/-
Which functions of the hand-written runtime files (decoder.go, encoder.go, message.go, conv.go,
internal/protowire/wire.go + stdlib.go, internal/bitset/set.go, picoconv/*.go) are covered by no
translator output. The list is regenerated from the working tree; pinning it means that a function
added to (or removed from) those files cannot go unnoticed. All nine are helpers of the protowire
clone that nothing in the repository calls.
-/
namespace Pico.GoTie

theorem untranslated_expected : GoSrc.untranslated =
    ["/internal/protowire.AppendGroup", "/internal/protowire.ConsumeField",
     "/internal/protowire.ConsumeGroup", "/internal/protowire.ParseError",
     "/internal/protowire.SizeBytes", "/internal/protowire.SizeFixed32", "/internal/protowire.SizeFixed64",
     "/internal/protowire.SizeGroup", "/internal/protowire.SizeTag"] := by decide

end Pico.GoTie
