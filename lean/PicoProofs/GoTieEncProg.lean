import PicoProofs.GoTieEncoder
import PicoProofs.EncProg
import PicoProofs.WireLemmas
/-
Whole encoder programs run through the TRANSLATED encoder.go (`GoSrc.Encoder.Message`,
`PresentMessage`, `AlwaysMessage`, `UnrecognizedFields`; `Marshal` / `MarshalBuffer`) equal the same
programs on the Go-slice model (`EncLow.runOps`), hence — by `runOps_appends` — append exactly the
abstract encoder's bytes whatever buffer they start on. Side condition: the buffers stay below 2^63
bytes.
-/
namespace Pico.GoTie.E
open Pico Pico.EncLow Pico.Wire

/-- programs over the encoder API, by field number -/
inductive SOp where
  /-- an appending writer (every typed writer, `UnrecognizedFields`) -/
  | raw (bs : Bytes)
  | msg (field : Int) (ok : Bool) (ops : List SOp)
  | present (field : Int) (ops : List SOp)
  | always (field : Int) (ops : List SOp)

mutual
def SOp.toL : SOp → LOp
  | .raw bs => .raw bs
  | .msg f ok ops => .any (Enc.appendTag f 2) ok (SOp.toLs ops)
  | .present f ops => .present (Enc.appendTag f 2) (SOp.toLs ops)
  | .always f ops => .always (Enc.appendTag f 2) (SOp.toLs ops)
def SOp.toLs : List SOp → List LOp
  | [] => []
  | op :: ops => op.toL :: SOp.toLs ops
end

mutual
/-- an upper bound on what an op appends (tag, at most ten length bytes, payload) -/
def SOp.weight : SOp → Nat
  | .raw bs => bs.length
  | .msg f _ ops => (Enc.appendTag f 2).length + 10 + SOp.weights ops
  | .present f ops => (Enc.appendTag f 2).length + 10 + SOp.weights ops
  | .always f ops => (Enc.appendTag f 2).length + 10 + SOp.weights ops
def SOp.weights : List SOp → Nat
  | [] => 0
  | op :: ops => op.weight + SOp.weights ops
end

mutual
/-- the program run through the translated encoder.go -/
def srcOp (oracle : Nat → Bytes) : SOp → Buf → Res Buf
  | .raw bs, b => GoSrc.Encoder.UnrecognizedFields oracle bs b
  | .msg f ok ops, b => GoSrc.Encoder.Message oracle f (fun b => do let b' ← srcOps oracle ops b; pure (b', ok)) b
  | .present f ops, b => GoSrc.Encoder.PresentMessage oracle f (fun b => do let b' ← srcOps oracle ops b; pure (b', true)) b
  | .always f ops, b => GoSrc.Encoder.AlwaysMessage oracle f (fun b => do let b' ← srcOps oracle ops b; pure (b', true)) b
def srcOps (oracle : Nat → Bytes) : List SOp → Buf → Res Buf
  | [], b => .ok b
  | op :: ops, b => do
    let b' ← srcOp oracle op b
    srcOps oracle ops b'
end


/-- `anyBytes` calls its callback once, on the buffer with tag and reserved length bytes appended -/
theorem anyBytesLow_congr (oracle : Nat → Bytes) (field : Int) (fn1 fn2 : Buf → Res (Buf × Bool)) (b : Buf)
    (h : fn1 (start oracle field b) = fn2 (start oracle field b)) :
    anyBytesLow oracle (Enc.appendTag field 2) fn1 b = anyBytesLow oracle (Enc.appendTag field 2) fn2 b := by
  unfold anyBytesLow anyBytesLowWith
  unfold start at h
  have hl2 : lengthBufferPrediction = List.replicate 2 (0 : Byte) := rfl
  simp only [hl2, h]

theorem alwaysAnyBytesLow_congr (oracle : Nat → Bytes) (field : Int) (fn1 fn2 : Buf → Res Buf) (b : Buf)
    (h : fn1 (start oracle field b) = fn2 (start oracle field b)) :
    alwaysAnyBytesLow oracle (Enc.appendTag field 2) fn1 b = alwaysAnyBytesLow oracle (Enc.appendTag field 2) fn2 b := by
  unfold alwaysAnyBytesLow alwaysAnyBytesLowWith
  unfold start at h
  have hl2 : lengthBufferPrediction = List.replicate 2 (0 : Byte) := rfl
  simp only [hl2, h]

theorem start_len (oracle : Nat → Bytes) (field : Int) (b : Buf) :
    (start oracle field b).len = b.len + (Enc.appendTag field 2).length + 2 := by
  unfold start
  rw [append_len, append_len]
  simp

mutual
theorem abs_le_weight : ∀ (op : SOp), sizeOk op.toL → (absOp op.toL).length ≤ op.weight
  | .raw bs, _ => by simp [SOp.toL, absOp, SOp.weight]
  | .msg f ok ops, h => by
    simp only [SOp.toL, sizeOk] at h
    have ih := abs_le_weights ops h.2
    have hv := varint_length_le_ten (absOps (SOp.toLs ops)).length h.1
    simp only [SOp.toL, absOp, SOp.weight]
    split
    · simp only [List.length_append]; omega
    · simp
  | .present f ops, h => by
    simp only [SOp.toL, sizeOk] at h
    have ih := abs_le_weights ops h.2
    have hv := varint_length_le_ten (absOps (SOp.toLs ops)).length h.1
    simp only [SOp.toL, absOp, SOp.weight]
    split
    · simp
    · simp only [List.length_append]; omega
  | .always f ops, h => by
    simp only [SOp.toL, sizeOk] at h
    have ih := abs_le_weights ops h.2
    have hv := varint_length_le_ten (absOps (SOp.toLs ops)).length h.1
    simp only [SOp.toL, absOp, SOp.weight, List.length_append]
    omega
theorem abs_le_weights : ∀ (ops : List SOp), sizesOk (SOp.toLs ops) → (absOps (SOp.toLs ops)).length ≤ SOp.weights ops
  | [], _ => by simp [SOp.toLs, absOps, SOp.weights]
  | op :: ops, h => by
    simp only [SOp.toLs, sizesOk] at h
    have h1 := abs_le_weight op h.1
    have h2 := abs_le_weights ops h.2
    simp only [SOp.toLs, absOps, SOp.weights, List.length_append]
    omega
end


mutual
theorem srcOp_eq (oracle : Nat → Bytes) : ∀ (op : SOp), sizeOk op.toL → ∀ b : Buf,
    b.len + op.weight < 9223372036854775808 → srcOp oracle op b = runOp oracle op.toL b
  | .raw bs, _, b, _ => by simp [srcOp, runOp, SOp.toL, UnrecognizedFields_eq]
  | .msg f ok ops, h, b, hb => by
    have hs := h
    simp only [SOp.toL, sizeOk] at hs
    simp only [SOp.weight] at hb
    have hsl := start_len oracle f b
    have ih := srcOps_eq oracle ops hs.2 (start oracle f b) (by omega)
    obtain ⟨t, ht⟩ := runOps_appends oracle (SOp.toLs ops) hs.2 (start oracle f b)
    have hw := abs_le_weights ops hs.2
    have hg : Grows (fun b => do let b' ← srcOps oracle ops b; pure (b', ok)) (start oracle f b) := by
      intro b' ok' hfn
      simp only [ih, ht, Res.bind_ok, pure, Res.ok.injEq, Prod.mk.injEq] at hfn
      rw [← hfn.1]
      simp only [Buf.len, List.length_append] at hsl hb ⊢
      omega
    simp only [srcOp, runOp, SOp.toL]
    rw [Message_eq oracle f _ b hg (by omega)]
    rw [anyBytesLow_congr oracle f _ (fun b => do let b' ← runOps oracle (SOp.toLs ops) b; pure (b', ok)) b (by simp only [ih])]
  | .present f ops, h, b, hb => by
    have hs := h
    simp only [SOp.toL, sizeOk] at hs
    simp only [SOp.weight] at hb
    have hsl := start_len oracle f b
    have ih := srcOps_eq oracle ops hs.2 (start oracle f b) (by omega)
    obtain ⟨t, ht⟩ := runOps_appends oracle (SOp.toLs ops) hs.2 (start oracle f b)
    have hw := abs_le_weights ops hs.2
    have hg : Grows (fun b => do let b' ← srcOps oracle ops b; pure (b', true)) (start oracle f b) := by
      intro b' ok' hfn
      simp only [ih, ht, Res.bind_ok, pure, Res.ok.injEq, Prod.mk.injEq] at hfn
      rw [← hfn.1]
      simp only [Buf.len, List.length_append] at hsl hb ⊢
      omega
    simp only [srcOp, runOp, SOp.toL]
    rw [PresentMessage_eq oracle f _ b hg (by omega)]
    rw [anyBytesLow_congr oracle f _ (fun b => do
        let lengthStart := b.len
        let b' ← runOps oracle (SOp.toLs ops) b
        pure (b', decide (b'.len > lengthStart))) b (by simp only [ih, ht]; rfl)]
  | .always f ops, h, b, hb => by
    have hs := h
    simp only [SOp.toL, sizeOk] at hs
    simp only [SOp.weight] at hb
    have hsl := start_len oracle f b
    have ih := srcOps_eq oracle ops hs.2 (start oracle f b) (by omega)
    obtain ⟨t, ht⟩ := runOps_appends oracle (SOp.toLs ops) hs.2 (start oracle f b)
    have hw := abs_le_weights ops hs.2
    have hg : Grows (fun b => do let b' ← srcOps oracle ops b; pure (b', true)) (start oracle f b) := by
      intro b' ok' hfn
      simp only [ih, ht, Res.bind_ok, pure, Res.ok.injEq, Prod.mk.injEq] at hfn
      rw [← hfn.1]
      simp only [Buf.len, List.length_append] at hsl hb ⊢
      omega
    simp only [srcOp, runOp, SOp.toL]
    rw [AlwaysMessage_eq oracle f _ b hg]
    rw [alwaysAnyBytesLow_congr oracle f _ (runOps oracle (SOp.toLs ops)) b (by simp only [ih, ht]; rfl)]

theorem srcOps_eq (oracle : Nat → Bytes) : ∀ (ops : List SOp), sizesOk (SOp.toLs ops) → ∀ b : Buf,
    b.len + SOp.weights ops < 9223372036854775808 → srcOps oracle ops b = runOps oracle (SOp.toLs ops) b
  | [], _, b, _ => by simp [srcOps, runOps, SOp.toLs]
  | op :: ops, h, b, hb => by
    have hs := h
    simp only [SOp.toLs, sizesOk] at hs
    simp only [SOp.weights] at hb
    obtain ⟨t, ht⟩ := runOp_appends oracle op.toL hs.1 b
    have hw := abs_le_weight op hs.1
    have h1 := srcOp_eq oracle op hs.1 b (by omega)
    have h2 := srcOps_eq oracle ops hs.2 ⟨b.data ++ absOp op.toL, t⟩ (by simp only [Buf.len, List.length_append] at hb ⊢; omega)
    simp only [srcOps, runOps, SOp.toLs, h1, ht, Res.bind_ok, h2]
end

end Pico.GoTie.E
