import PicoProofs.SpecRtZero
/-
Task F, part 6: decoding the chunk of one field.
-/
namespace Pico.SpecRt
open Pico Pico.Spec
open Pico.Wire

/-- the message-level round trip, as an induction hypothesis -/
def RT (S : Schema) (y : Val) : Prop :=
  ∀ id', wtMsg S true id' y = true → (specEnc S id' y).length < 2 ^ 64 →
    Decs S id' (specEnc S id' y) (Gen2.zeroMsg S id') y

theorem field1_length_ge (num : Nat) (k : Scalar) (b : Bytes) (hb : k.isBytes = true) :
    b.length ≤ (field1 num k (.bytes b)).length := by
  rcases wire_cases k with hw | hw | hw | hw
  · rw [hw.2] at hb; cases hb
  · rw [hw.2] at hb; cases hb
  · rw [hw.2] at hb; cases hb
  · simp only [field1, scalarWire, hw.1, Enc.SVal.bytes!, lenPrefixed, List.length_append]; omega

theorem svOk_of_scalarOk (k : Scalar) (y : Val) (num : Nat) (hy : scalarOk k y = true)
    (hsz : (field1 num k y.toSVal).length < 2 ^ 64) : SvOk k y.toSVal ∧ Val.ofSVal y.toSVal = y := by
  cases y with
  | num n => rw [scalarOk_num] at hy; exact ⟨hy, rfl⟩
  | bytes b =>
    rw [scalarOk_bytes] at hy
    have := field1_length_ge num k b hy
    exact ⟨⟨hy, by simp only [Val.toSVal] at hsz; omega⟩, rfl⟩
  | _ => simp [scalarOk] at hy

theorem payload_lt (num : Nat) (p : Bytes) (h : (lenField num p).length < 2 ^ 64) : p.length < 2 ^ 64 := by
  rw [lenField_length] at h; omega

/-- the field `f` taken out of its oneof -/
abbrev deOneof (f : Field) : Field := { f with oneof := 0 }

theorem shape_single (S : Schema) (w : Bool) (f : Field) (x : Val) (e : Bytes) (hs : Shape S w f x e)
    (hF : FieldFacts S f) (hr : f.repeated = false) (hnm : ∀ k v, f.kind ≠ .map k v) (hne : e ≠ [])
    (hsz : e.length < 2 ^ 64) (hRT : ∀ y, sizeOf y ≤ sizeOf x → RT S y) :
    ∃ rc, parse1 e = some (rc, []) ∧ rc.num = f.num ∧
      Applies S (deOneof f) rc (Gen2.zeroField S (deOneof f)) x := by
  have hz := zeroField_plain S (deOneof f) rfl hr
  have hn1 := hF.num1
  have hn2 := hF.num2
  cases hs with
  | none hw hz => exact absurd rfl hne
  | ptrScalar k y hk hr' hp hy =>
    obtain ⟨hsv, hof⟩ := svOk_of_scalarOk k y f.num hy hsz
    have hp1 := parse1_field1 f.num hn1 hn2 k y.toSVal hsv []
    rw [List.append_nil] at hp1
    refine ⟨_, hp1, rfl, ?_⟩
    have := applies_scalar S (deOneof f) k hk hr y.toSVal hsv f.num (Gen2.zeroField S (deOneof f))
    rw [show Field.pointer S (deOneof f) = true from hp, hof] at this
    exact this
  | ptrTs id' c hk hc hr' hp hok hnz =>
    have hps := payload_lt _ _ hsz
    have hp1 := parse1_lenField f.num hn1 hn2 _ hps []
    rw [List.append_nil] at hp1
    refine ⟨_, hp1, rfl, ?_⟩
    have := applies_ts S (deOneof f) id' hk hc c hok hps f.num (Gen2.zeroField S (deOneof f))
    rw [show Field.pointer S (deOneof f) = true from hp, show (deOneof f).repeated = false from hr] at this
    exact this
  | ptrDur id' c hk hc hr' hp hok =>
    have hps := payload_lt _ _ hsz
    have hp1 := parse1_lenField f.num hn1 hn2 _ hps []
    rw [List.append_nil] at hp1
    refine ⟨_, hp1, rfl, ?_⟩
    have := applies_dur S (deOneof f) id' hk hc c hok hps f.num (Gen2.zeroField S (deOneof f))
    rw [show Field.pointer S (deOneof f) = true from hp, show (deOneof f).repeated = false from hr] at this
    exact this
  | ptrMsg id' y hk hc1 hc2 hr' hp hy =>
    have hps := payload_lt _ _ hsz
    have hp1 := parse1_lenField f.num hn1 hn2 _ hps []
    rw [List.append_nil] at hp1
    refine ⟨_, hp1, rfl, ?_⟩
    have hd := hRT y (by simp only [Val.some.sizeOf_spec]; omega) id' hy hps
    have := applies_msg_ptr S (deOneof f) id' hk hc1 hc2 hr hp _ hps y hd f.num
    rw [hz]
    simp only [hk, show Field.pointer S (deOneof f) = true from hp, ↓reduceIte]
    exact this
  | numScalar k n hk hr' hp hb hn =>
    have he : (if (!w && isZeroVal k (.num n)) = true then [] else field1 f.num k (.num n)) = field1 f.num k (.num n) := by
      split
      · rename_i h0; rw [if_pos h0] at hne; exact absurd rfl hne
      · rfl
    rw [he] at hsz hne ⊢
    have hsv : SvOk k (.num n) := ⟨hb, hn⟩
    have hp1 := parse1_field1 f.num hn1 hn2 k (.num n) hsv []
    rw [List.append_nil] at hp1
    refine ⟨_, hp1, rfl, ?_⟩
    have := applies_scalar S (deOneof f) k hk hr (.num n) hsv f.num (Gen2.zeroField S (deOneof f))
    rw [show Field.pointer S (deOneof f) = false from hp] at this
    exact this
  | numEnum n hk hr' hp hn =>
    have he : (if (!w && n == 0) = true then [] else field1 f.num .int32 (.num n)) = field1 f.num .int32 (.num n) := by
      split
      · rename_i h0; rw [if_pos h0] at hne; exact absurd rfl hne
      · rfl
    rw [he] at hsz hne ⊢
    have hsv : SvOk .int32 (.num n) := ⟨rfl, hn⟩
    have hp1 := parse1_field1 f.num hn1 hn2 .int32 (.num n) hsv []
    rw [List.append_nil] at hp1
    exact ⟨_, hp1, rfl, applies_enum S (deOneof f) hk hr n hn f.num _⟩
  | numTs id' c hk hc hr' hp hok hw =>
    have hnz : isZeroTime c = false := by
      cases h : isZeroTime c with
      | false => rfl
      | true =>
        exfalso; apply hne
        unfold tsField; unfold isZeroTime at h; rw [h]; rfl
    rw [tsField_of_nz _ _ hnz] at hsz hne ⊢
    have hps := payload_lt _ _ hsz
    have hp1 := parse1_lenField f.num hn1 hn2 _ hps []
    rw [List.append_nil] at hp1
    refine ⟨_, hp1, rfl, ?_⟩
    have := applies_ts S (deOneof f) id' hk hc c hok hps f.num (Gen2.zeroField S (deOneof f))
    rw [show Field.pointer S (deOneof f) = false from hp, show (deOneof f).repeated = false from hr] at this
    exact this
  | numDur id' c hk hc hr' hp hok hw =>
    have hps := payload_lt _ _ hsz
    have hp1 := parse1_lenField f.num hn1 hn2 _ hps []
    rw [List.append_nil] at hp1
    refine ⟨_, hp1, rfl, ?_⟩
    have := applies_dur S (deOneof f) id' hk hc c hok hps f.num (Gen2.zeroField S (deOneof f))
    rw [show Field.pointer S (deOneof f) = false from hp, show (deOneof f).repeated = false from hr] at this
    exact this
  | bytes k b hk hr' hp hb =>
    have he : (if (!w && b.isEmpty) = true then [] else field1 f.num k (.bytes b)) = field1 f.num k (.bytes b) := by
      split
      · rename_i h0; rw [if_pos h0] at hne; exact absurd rfl hne
      · rfl
    rw [he] at hsz hne ⊢
    have hsv : SvOk k (.bytes b) := ⟨hb, by have := field1_length_ge f.num k b hb; omega⟩
    have hp1 := parse1_field1 f.num hn1 hn2 k (.bytes b) hsv []
    rw [List.append_nil] at hp1
    refine ⟨_, hp1, rfl, ?_⟩
    have := applies_scalar S (deOneof f) k hk hr (.bytes b) hsv f.num (Gen2.zeroField S (deOneof f))
    rw [show Field.pointer S (deOneof f) = false from hp] at this
    exact this
  | msg id' slots unrec hk hc1 hc2 hr' hp hy hne' =>
    have he : (if (specEnc S id' (.msg slots unrec)).isEmpty = true then []
        else lenField f.num (specEnc S id' (.msg slots unrec))) = lenField f.num (specEnc S id' (.msg slots unrec)) := by
      split
      · rename_i h0; rw [if_pos h0] at hne; exact absurd rfl hne
      · rfl
    rw [he] at hsz hne ⊢
    have hps := payload_lt _ _ hsz
    have hp1 := parse1_lenField f.num hn1 hn2 _ hps []
    rw [List.append_nil] at hp1
    refine ⟨_, hp1, rfl, ?_⟩
    have hd := hRT (.msg slots unrec) (Nat.le_refl _) id' hy hps
    rw [hz]
    simp only [hk, show Field.pointer S (deOneof f) = false from hp,
      beq_iff_eq, hc1, hc2, Bool.false_eq_true, ↓reduceIte]
    exact applies_msg_plain S (deOneof f) id' hk hc1 hc2 hr hp _ hps _ _ hd f.num
  | listPacked k vs hk hr' hw hb hall => rw [hr] at hr'; cases hr'
  | listBytes k vs hk hr' hw hb hall => rw [hr] at hr'; cases hr'
  | listEnum vs hk hr' hw hall => rw [hr] at hr'; cases hr'
  | listTs id' vs hk hc hr' hw hall => rw [hr] at hr'; cases hr'
  | listDur id' vs hk hc hr' hw hall => rw [hr] at hr'; cases hr'
  | listMsg id' vs hk hc1 hc2 hr' hw hall => rw [hr] at hr'; cases hr'
  | map k v es hk hw hall hne hnd => exact absurd hk (hnm k v)


/-! ### repeated fields and maps -/

theorem mem_flatten_length {α β} (vs : List α) (F : α → List β) (a : α) (ha : a ∈ vs) :
    (F a).length ≤ (vs.map F).flatten.length := by
  induction vs with
  | nil => cases ha
  | cons b bs ih =>
    simp only [List.map_cons, List.flatten_cons, List.length_append]
    rcases List.mem_cons.mp ha with rfl | h
    · omega
    · have := ih h; omega

theorem map_ofSVal_toSVal (k : Scalar) (vs : List Val) (h : ∀ v ∈ vs, scalarOk k v = true) :
    (vs.map Val.toSVal).map Val.ofSVal = vs := by
  induction vs with
  | nil => rfl
  | cons a as ih =>
    simp only [List.map_cons]
    rw [ih (fun v hv => h v (List.mem_cons_of_mem _ hv))]
    have := h a List.mem_cons_self
    cases a <;> first | rfl | simp [scalarOk] at this

theorem svOk_of_num (k : Scalar) (hb : k.isBytes = false) (vs : List Val) (h : ∀ v ∈ vs, scalarOk k v = true) :
    ∀ sv ∈ vs.map Val.toSVal, SvOk k sv := by
  intro sv hsv
  obtain ⟨v, hv, rfl⟩ := List.mem_map.mp hsv
  have := h v hv
  cases v with
  | num n => rw [scalarOk_num] at this; exact this
  | bytes b => rw [scalarOk_bytes, hb] at this; cases this
  | _ => simp [scalarOk] at this

theorem mem_of_split {α} {l pre post : List α} {a : α} (h : l = pre ++ a :: post) : a ∈ l := by
  rw [h]; simp

theorem list_zero_set (cs : List Val) (i : Nat) (z : Val) (h : cs[i]? = some z) : cs.set i z = cs :=
  set_self cs i z h

theorem keyEq_toSVal (a b : Val) (h : Gen2.keyEq a b = true) : a.toSVal = b.toSVal := by
  cases a <;> cases b <;> simp [Gen2.keyEq] at h <;> simp [Val.toSVal, h]

theorem mapInsert_fresh (acc : List (Val × Val)) (key val : Val)
    (h : ∀ e ∈ acc, e.1.toSVal ≠ key.toSVal) :
    Gen2.mapInsert acc key val Gen2.keyEq = acc ++ [(key, val)] := by
  unfold Gen2.mapInsert
  have : acc.any (fun e => Gen2.keyEq e.1 key) = false := by
    rw [List.any_eq_false]
    intro e he hk
    exact h e he (keyEq_toSVal _ _ hk)
  rw [this]; rfl

theorem svOk_entry (k : Scalar) (y : Val) (num : Nat) (hy : scalarOk k y = true)
    (hsz : isZeroVal k y.toSVal = false → (field1 num k y.toSVal).length < 2 ^ 64) :
    SvOk k y.toSVal ∧ Val.ofSVal y.toSVal = y ∧ (isZeroVal k y.toSVal = true → Val.ofSVal y.toSVal = k.zero) := by
  cases y with
  | num n =>
    rw [scalarOk_num] at hy
    refine ⟨hy, rfl, ?_⟩
    intro h0
    simp only [isZeroVal, hy.1, Bool.false_eq_true, ↓reduceIte, Val.toSVal, Enc.SVal.num!, beq_iff_eq] at h0
    simp [Val.toSVal, Val.ofSVal, Scalar.zero, hy.1, h0]
  | bytes b =>
    rw [scalarOk_bytes] at hy
    refine ⟨⟨hy, ?_⟩, rfl, ?_⟩
    · cases hz : isZeroVal k (Val.bytes b).toSVal with
      | true =>
        simp only [isZeroVal, hy, ↓reduceIte, Val.toSVal, Enc.SVal.bytes!, List.isEmpty_iff] at hz
        rw [hz]; simp
      | false =>
        have := hsz hz
        have := field1_length_ge num k b hy
        simp only [Val.toSVal] at *
        omega
    · intro h0
      simp only [isZeroVal, hy, ↓reduceIte, Val.toSVal, Enc.SVal.bytes!, List.isEmpty_iff] at h0
      simp [Val.toSVal, Val.ofSVal, Scalar.zero, hy, h0]
  | _ => simp [scalarOk] at hy

/-- the state of a map-typed variable after the entries `acc` -/
def mapSt (acc : List (Val × Val)) : Val := if acc.isEmpty then .none else .map acc

theorem mapSt_entries (acc : List (Val × Val)) : entriesOf (mapSt acc) = acc := by
  cases acc <;> rfl

/-- the payload of one map entry -/
def entryPayload (k v : Scalar) (e : Val × Val) : Bytes :=
  (if isZeroVal k e.1.toSVal then [] else field1 1 k e.1.toSVal) ++
  (if isZeroVal v e.2.toSVal then [] else field1 2 v e.2.toSVal)

theorem mapEntries_eq (k v : Scalar) (num : Nat) (es : List (Val × Val)) :
    mapEntries k v num es = (es.map fun e => lenField num (entryPayload k v e)).flatten := rfl

theorem shape_loop (S : Schema) (id i : Nat) (f : Field) (x : Val) (e : Bytes) (hs : Shape S false f x e)
    (hF : FieldFacts S f) (hfind : findField (S.msg id).fields f.num = some (i, f)) (ho : f.inOneof = false)
    (hrm : f.repeated = true ∨ ∃ k v, f.kind = .map k v) (hsz : e.length < 2 ^ 64)
    (hRT : ∀ y, sizeOf y < sizeOf x → RT S y) (cs : List Val) (u : Bytes)
    (hc : cs[i]? = some (Gen2.zeroField S f)) :
    Decs S id e (.msg cs u) (.msg (cs.set i x) u) := by
  have hn1 := hF.num1
  have hn2 := hF.num2
  have hnr : ∀ {P : Prop}, f.repeated = false → (∀ k v, f.kind ≠ .map k v) → P := by
    intro P h1 h2
    rcases hrm with h | ⟨k, v, h⟩
    · rw [h1] at h; cases h
    · exact absurd h (h2 k v)
  cases hs with
  | none hw hz => rw [hz] at hc; rw [set_self cs i _ hc]; exact Decs.nil S id _
  | ptrScalar k y hk hr hp hy => exact hnr hr (by intro k v h; rw [hk] at h; cases h)
  | ptrTs id' c hk hc' hr hp hok hnz => exact hnr hr (by intro k v h; rw [hk] at h; cases h)
  | ptrDur id' c hk hc' hr hp hok => exact hnr hr (by intro k v h; rw [hk] at h; cases h)
  | ptrMsg id' y hk hc1 hc2 hr hp hy => exact hnr hr (by intro k v h; rw [hk] at h; cases h)
  | numScalar k n hk hr hp hb hn => exact hnr hr (by intro k v h; rw [hk] at h; cases h)
  | numEnum n hk hr hp hn => exact hnr hr (by intro k v h; rw [hk] at h; cases h)
  | numTs id' c hk hc' hr hp hok hw => exact hnr hr (by intro k v h; rw [hk] at h; cases h)
  | numDur id' c hk hc' hr hp hok hw => exact hnr hr (by intro k v h; rw [hk] at h; cases h)
  | bytes k b hk hr hp hb => exact hnr hr (by intro k v h; rw [hk] at h; cases h)
  | msg id' slots unrec hk hc1 hc2 hr hp hy hne => exact hnr hr (by intro k v h; rw [hk] at h; cases h)
  | listPacked k vs hk hr hw hb hall =>
    rw [zeroField_rep S f ho hr] at hc
    cases vs with
    | nil => rw [set_self cs i _ hc]; exact Decs.nil S id _
    | cons a as =>
      simp only [List.isEmpty_cons, Bool.false_eq_true, ↓reduceIte] at hsz ⊢
      have hps := payload_lt _ _ hsz
      have hp1 := parse1_lenField f.num hn1 hn2 _ hps []
      rw [List.append_nil] at hp1
      have happ := applies_packed S f k hk hr hb _ (svOk_of_num k hb _ hall) hps f.num (.list [])
      simp only [Val.list!, List.nil_append, map_ofSVal_toSVal k _ hall] at happ
      exact decs_known hfind ho hp1 rfl hc happ (Decs.nil S id _)
  | listBytes k vs hk hr hw hb hall =>
    rw [zeroField_rep S f ho hr] at hc
    have := decs_loop (S := S) (id := id) (i := i) (f := f) Val.list (fun v => field1 f.num k v.toSVal)
      (fun _ a => scalarOk k a = true ∧ (field1 f.num k a.toSVal).length < 2 ^ 64) hfind ho
      (by
        intro acc a ⟨ha, hsa⟩
        obtain ⟨hsv, hof⟩ := svOk_of_scalarOk k a f.num ha hsa
        refine ⟨_, fun rest => parse1_field1 f.num hn1 hn2 k a.toSVal hsv rest, rfl, ?_⟩
        have := applies_rep_bytes S f k hk hr hb a.toSVal hsv f.num (.list acc)
        rw [hof] at this
        exact this)
      vs [] cs u
      (by
        intro pre a post he
        have ha := mem_of_split he
        refine ⟨hall a ha, ?_⟩
        have := mem_flatten_length vs (fun v => field1 f.num k v.toSVal) a ha
        omega)
      hc
    simpa using this
  | listEnum vs hk hr hw hall =>
    rw [zeroField_rep S f ho hr] at hc
    cases vs with
    | nil => rw [set_self cs i _ hc]; exact Decs.nil S id _
    | cons a as =>
      simp only [List.isEmpty_cons, Bool.false_eq_true, ↓reduceIte] at hsz ⊢
      have hps := payload_lt _ _ hsz
      have hp1 := parse1_lenField f.num hn1 hn2 _ hps []
      rw [List.append_nil] at hp1
      have happ := applies_packed_enum S f hk hr _ (svOk_of_num .int32 rfl _ hall) hps f.num (.list [])
      simp only [Val.list!, List.nil_append, map_ofSVal_toSVal .int32 _ hall] at happ
      exact decs_known hfind ho hp1 rfl hc happ (Decs.nil S id _)
  | listTs id' vs hk hc' hr hw hall =>
    rw [zeroField_rep S f ho hr] at hc
    have := decs_loop (S := S) (id := id) (i := i) (f := f) Val.list (fun v => lenField f.num (tsPayload (codeOf v)))
      (fun _ a => (a = (if f.pointer S then .some (.num (codeOf a)) else .num (codeOf a)) ∧
        timeOk (codeOf a) = true) ∧ (tsPayload (codeOf a)).length < 2 ^ 64) hfind ho
      (by
        intro acc a ⟨⟨ha, hok⟩, hsa⟩
        refine ⟨_, fun rest => parse1_lenField f.num hn1 hn2 _ hsa rest, rfl, ?_⟩
        have := applies_ts S f id' hk hc' (codeOf a) hok hsa f.num (.list acc)
        rw [hr] at this
        simp only [↓reduceIte, Val.list!] at this
        rw [← ha] at this
        exact this)
      vs [] cs u
      (by
        intro pre a post he
        have ha := mem_of_split he
        obtain ⟨h1, h2, _⟩ := hall a ha
        refine ⟨⟨h1, h2⟩, ?_⟩
        have := mem_flatten_length vs (fun v => lenField f.num (tsPayload (codeOf v))) a ha
        exact payload_lt f.num _ (by omega))
      hc
    simpa using this
  | listDur id' vs hk hc' hr hw hall =>
    rw [zeroField_rep S f ho hr] at hc
    have := decs_loop (S := S) (id := id) (i := i) (f := f) Val.list (fun v => lenField f.num (durPayload (codeOf v)))
      (fun _ a => (a = (if f.pointer S then .some (.num (codeOf a)) else .num (codeOf a)) ∧
        codeOf a < 2 ^ 64) ∧ (durPayload (codeOf a)).length < 2 ^ 64) hfind ho
      (by
        intro acc a ⟨⟨ha, hok⟩, hsa⟩
        refine ⟨_, fun rest => parse1_lenField f.num hn1 hn2 _ hsa rest, rfl, ?_⟩
        have := applies_dur S f id' hk hc' (codeOf a) hok hsa f.num (.list acc)
        rw [hr] at this
        simp only [↓reduceIte, Val.list!] at this
        rw [← ha] at this
        exact this)
      vs [] cs u
      (by
        intro pre a post he
        have ha := mem_of_split he
        obtain ⟨h1, h2⟩ := hall a ha
        refine ⟨⟨h1, h2⟩, ?_⟩
        have := mem_flatten_length vs (fun v => lenField f.num (durPayload (codeOf v))) a ha
        exact payload_lt f.num _ (by omega))
      hc
    simpa using this
  | listMsg id' vs hk hc1 hc2 hr hw hall =>
    rw [zeroField_rep S f ho hr] at hc
    have := decs_loop (S := S) (id := id) (i := i) (f := f) Val.list (fun v => lenField f.num (specEnc S id' v))
      (fun _ a => (wtMsg S true id' a = true ∧ RT S a) ∧ (specEnc S id' a).length < 2 ^ 64) hfind ho
      (by
        intro acc a ⟨⟨ha, hrt⟩, hsa⟩
        refine ⟨_, fun rest => parse1_lenField f.num hn1 hn2 _ hsa rest, rfl, ?_⟩
        exact applies_msg_rep S f id' hk hc1 hc2 hr _ hsa a (hrt id' ha hsa) f.num (.list acc))
      vs [] cs u
      (by
        intro pre a post he
        have ha := mem_of_split he
        refine ⟨⟨hall a ha, hRT a ?_⟩, ?_⟩
        · have := List.sizeOf_lt_of_mem ha
          simp only [Val.list.sizeOf_spec]; omega
        · have := mem_flatten_length vs (fun v => lenField f.num (specEnc S id' v)) a ha
          exact payload_lt f.num _ (by omega))
      hc
    simpa using this
  | map k v es hk hw hall hne hnd =>
    have hr : f.repeated = false := by simp [Field.repeated, hk]
    rw [zeroField_plain S f ho hr] at hc
    simp only [hk] at hc
    rw [mapEntries_eq] at hsz ⊢
    have := decs_loop (S := S) (id := id) (i := i) (f := f) mapSt (fun e => lenField f.num (entryPayload k v e))
      (fun acc a => ((scalarOk k a.1 = true ∧ scalarOk v a.2 = true) ∧ (∀ e' ∈ acc, e'.1.toSVal ≠ a.1.toSVal)) ∧
        (entryPayload k v a).length < 2 ^ 64) hfind ho
      (by
        intro acc a ⟨⟨⟨ha1, ha2⟩, hfresh⟩, hsa⟩
        refine ⟨_, fun rest => parse1_lenField f.num hn1 hn2 _ hsa rest, rfl, ?_⟩
        obtain ⟨hs1, ho1, hz1⟩ := svOk_entry k a.1 1 ha1 (by
          intro h0
          simp only [entryPayload, h0, Bool.false_eq_true, ↓reduceIte, List.length_append] at hsa
          omega)
        obtain ⟨hs2, ho2, hz2⟩ := svOk_entry v a.2 2 ha2 (by
          intro h0
          simp only [entryPayload, h0, Bool.false_eq_true, ↓reduceIte, List.length_append] at hsa
          omega)
        have hme := mapEntry_two k v (isZeroVal k a.1.toSVal = true) (isZeroVal v a.2.toSVal = true)
          a.1.toSVal a.2.toSVal hs1 hs2 hz1 hz2
        rw [ho1, ho2] at hme
        have := applies_map S f k v hk (entryPayload k v a) hsa a.1 a.2 hme f.num (mapSt acc)
        rw [mapSt_entries, mapInsert_fresh acc a.1 a.2 hfresh] at this
        have e2 : mapSt (acc ++ [a]) = .map (acc ++ [(a.1, a.2)]) := by
          cases acc <;> rfl
        rw [e2]; exact this)
      es [] cs u
      (by
        intro pre a post he
        have ha := mem_of_split he
        refine ⟨⟨hall a ha, ?_⟩, ?_⟩
        · intro e' he' heq
          rw [he] at hnd
          simp only [List.nil_append] at he'
          simp only [List.map_append, List.map_cons] at hnd
          have := (List.nodup_append.mp hnd).2.2 _ (List.mem_map.mpr ⟨e', he', rfl⟩) _ List.mem_cons_self
          exact this heq
        · have := mem_flatten_length es (fun e => lenField f.num (entryPayload k v e)) a ha
          exact payload_lt f.num _ (by omega))
      hc
    have e3 : mapSt ([] ++ es) = .map es := by
      cases es with
      | nil => exact absurd rfl hne
      | cons _ _ => rfl
    rw [e3] at this
    exact this


/-! ### one field -/

theorem deOneof_eq (f : Field) (ho : f.inOneof = false) : deOneof f = f := by
  cases f with
  | mk num kind label oneof always cat =>
    simp only [Field.inOneof, bne_eq_false_iff_eq] at ho
    simp only [deOneof, ho]

theorem sizeOf_some_le (y z : Val) (h : sizeOf z ≤ sizeOf y) : sizeOf z ≤ sizeOf (Val.some y) := by
  simp only [Val.some.sizeOf_spec]; omega

/-- decoding the chunk of field `i` into a message whose slot `i` is still zero stores the value -/
theorem field_rt (S : Schema) (hS : S.supported = true) (id i : Nat) (f : Field) (x : Val)
    (hf : (S.msg id).fields[i]? = some f) (hwt : wtField S true false f x = true)
    (hsz : (encField S false f x).length < 2 ^ 64)
    (hRT : ∀ y, sizeOf y ≤ sizeOf x → RT S y)
    (hEZ : ∀ id', wtMsg S true id' x = true → specEnc S id' x = [] → x = Gen2.zeroMsg S id')
    (cs : List Val) (u : Bytes) (hlen : cs.length = (S.msg id).fields.length)
    (hc : cs[i]? = some (Gen2.zeroField S f))
    (hgrp : f.inOneof = true → (∃ y, x = .some y) → ∀ j g, j ≠ i → (S.msg id).fields[j]? = some g →
      g.oneof = f.oneof → cs[j]? = some .none) :
    Decs S id (encField S false f x) (.msg cs u) (.msg (cs.set i x) u) := by
  have hF := fieldFacts S f (field_supported S hS id i f hf)
  have hfind := findField_of_nodup _ (nums_nodup S hS id) i f hf
  cases ho : f.inOneof with
  | false =>
    by_cases he : encField S false f x = []
    · have hx := field_empty_zero S f hF x hwt he hEZ
      rw [he, hx, set_self cs i _ hc]
      exact Decs.nil S id _
    · have hs := classify S false f ho hF x hwt
      by_cases hrm : f.repeated = true ∨ ∃ k v, f.kind = .map k v
      · exact shape_loop S id i f x _ hs hF hfind ho hrm hsz
          (fun y hy => hRT y (Nat.le_of_lt hy)) cs u hc
      · have hr : f.repeated = false := by
          cases h : f.repeated with
          | false => rfl
          | true => exact absurd (Or.inl h) hrm
        have hnm : ∀ k v, f.kind ≠ .map k v := fun k v h => hrm (Or.inr ⟨k, v, h⟩)
        obtain ⟨rc, hp, hn, happ⟩ := shape_single S false f x _ hs hF hr hnm he hsz hRT
        rw [deOneof_eq f ho] at happ
        exact decs_known hfind ho hp hn hc happ (Decs.nil S id _)
  | true =>
    rw [zeroField_oneof S f ho] at hc
    rcases wt_oneof_cases S f ho x hwt with rfl | ⟨y, rfl, hy, henc⟩
    · rw [encField.eq_1, set_self cs i _ hc]
      exact Decs.nil S id _
    · rw [henc] at hsz ⊢
      have hs := classify S true f ho hF y hy
      have hr : f.repeated = false := by
        cases h : f.repeated with
        | false => rfl
        | true =>
          have := hF.repOneof h
          simp [Field.inOneof, this] at ho
      have hnm : ∀ k v, f.kind ≠ .map k v := by
        intro k v h
        have := hF.mapOneof k v h
        simp [Field.inOneof, this] at ho
      obtain ⟨rc, hp, hn, ⟨fuel, happ⟩⟩ := shape_single S true f y _ hs hF hr hnm
        (shape_wrapper_ne_nil S f y _ hs) hsz (fun z hz => hRT z (sizeOf_some_le y z hz))
      rw [← hn] at hfind
      have hu := upd_oneof_fresh (cur := .msg cs u) hfind ho (getSlot_of_getElem? hc) happ
      rw [clearGroup_id _ _ _ cs u hlen (hgrp ho ⟨y, rfl⟩)] at hu
      exact Decs.single hp hu

end Pico.SpecRt
