import PicoModel.Wire
import PicoProofs.Varint
/-
Wire-level lemma library (task A). Kernel-only.
-/
namespace Pico.Wire

/-! ## 1. Fixed width -/

theorem byteOfNat_toNat_mod (n : Nat) : (byteOfNat n).toNat = n % 256 := by
  simp [byteOfNat, BitVec.toNat_ofNat]

theorem fixed32_length (v : Nat) : (fixed32 v).length = 4 := rfl

theorem fixed64_length (v : Nat) : (fixed64 v).length = 8 := rfl

theorem consumeFixed32_fixed32 (v : Nat) (r : Bytes) (h : v < 2 ^ 32) :
    consumeFixed32 (fixed32 v ++ r) = (v, 4) := by
  simp only [fixed32, List.cons_append, List.nil_append, consumeFixed32, byteOfNat_toNat_mod]
  congr 1
  omega

theorem consumeFixed64_fixed64 (v : Nat) (r : Bytes) (h : v < 2 ^ 64) :
    consumeFixed64 (fixed64 v ++ r) = (v, 8) := by
  simp only [fixed64, fixed32, List.cons_append, List.nil_append, consumeFixed64,
    byteOfNat_toNat_mod]
  congr 1
  omega

theorem consumeFixed32_progress (b : Bytes) (h : 0 ≤ (consumeFixed32 b).2) :
    (consumeFixed32 b).2 = 4 ∧ 4 ≤ b.length := by
  match b, h with
  | [], h => simp [consumeFixed32, errTruncated] at h
  | [_], h => simp [consumeFixed32, errTruncated] at h
  | [_, _], h => simp [consumeFixed32, errTruncated] at h
  | [_, _, _], h => simp [consumeFixed32, errTruncated] at h
  | _ :: _ :: _ :: _ :: _, _ => simp [consumeFixed32]

theorem consumeFixed64_progress (b : Bytes) (h : 0 ≤ (consumeFixed64 b).2) :
    (consumeFixed64 b).2 = 8 ∧ 8 ≤ b.length := by
  match b, h with
  | [], h => simp [consumeFixed64, errTruncated] at h
  | [_], h => simp [consumeFixed64, errTruncated] at h
  | [_, _], h => simp [consumeFixed64, errTruncated] at h
  | [_, _, _], h => simp [consumeFixed64, errTruncated] at h
  | [_, _, _, _], h => simp [consumeFixed64, errTruncated] at h
  | [_, _, _, _, _], h => simp [consumeFixed64, errTruncated] at h
  | [_, _, _, _, _, _], h => simp [consumeFixed64, errTruncated] at h
  | [_, _, _, _, _, _, _], h => simp [consumeFixed64, errTruncated] at h
  | _ :: _ :: _ :: _ :: _ :: _ :: _ :: _ :: _, _ => simp [consumeFixed64]

/-! ## 3. Length-delimited -/

theorem lenPrefixed_length (p : Bytes) :
    (lenPrefixed p).length = (varint p.length).length + p.length := by
  simp [lenPrefixed]

theorem consumeBytes_lenPrefixed (p r : Bytes) (h : p.length < 2 ^ 64) :
    consumeBytes (lenPrefixed p ++ r) = (p, ((lenPrefixed p).length : Int)) := by
  have hv := consumeVarint_varint p.length h (p ++ r)
  simp only [consumeBytes, lenPrefixed, List.append_assoc, hv]
  have hneg : ¬ (((varint p.length).length : Int) < 0) := by omega
  simp only [hneg, ↓reduceIte, Int.toNat_natCast, List.drop_left, List.length_append,
    List.take_left]
  have : ¬ (p.length > p.length + r.length) := by omega
  simp only [this, ↓reduceIte, Int.natCast_add]

theorem consumeBytes_progress (b : Bytes) (h : 0 ≤ (consumeBytes b).2) :
    1 ≤ (consumeBytes b).2 ∧ (consumeBytes b).2 ≤ b.length ∧
      (consumeBytes b).1.length + 1 ≤ (consumeBytes b).2 := by
  simp only [consumeBytes] at h ⊢
  by_cases hneg : (consumeVarint b).2 < 0
  · simp only [hneg, ↓reduceIte] at h; omega
  · have hp := consumeVarint_progress b (by omega)
    simp only [hneg, ↓reduceIte] at h ⊢
    by_cases hgt : (consumeVarint b).1 > (List.drop (consumeVarint b).2.toNat b).length
    · rw [if_pos hgt] at h; simp [errTruncated] at h
    · rw [if_neg hgt] at h ⊢
      simp only [List.length_take]
      simp only [List.length_drop] at hgt ⊢
      omega

/-! ## 4. Tags -/

theorem u64OfInt_valid (num : Int) (h1 : 1 ≤ num) (h2 : num ≤ 536870911) :
    u64OfInt num = num.toNat := by
  unfold u64OfInt; omega

theorem encodeTag_valid (num : Int) (typ : Nat) (h1 : 1 ≤ num) (h2 : num ≤ 536870911)
    (ht : typ < 8) : encodeTag num typ = num.toNat * 8 + typ := by
  unfold encodeTag; rw [u64OfInt_valid num h1 h2]; omega

theorem encodeTag_lt (num : Int) (typ : Nat) (h1 : 1 ≤ num) (h2 : num ≤ 536870911)
    (ht : typ < 8) : encodeTag num typ < 2 ^ 64 := by
  rw [encodeTag_valid num typ h1 h2 ht]; omega

theorem decodeTag_encodeTag (num : Int) (typ : Nat) (h1 : 1 ≤ num) (h2 : num ≤ 536870911)
    (ht : typ < 8) : decodeTag (encodeTag num typ) = (num, typ) := by
  rw [encodeTag_valid num typ h1 h2 ht]
  unfold decodeTag
  have e1 : (num.toNat * 8 + typ) / 8 = num.toNat := by omega
  have e2 : (num.toNat * 8 + typ) % 8 = typ := by omega
  have e3 : ¬ (num.toNat > 2147483647) := by omega
  rw [e1, e2, if_neg e3]
  congr 1
  simp only [Int.ofNat_eq_natCast]; omega

theorem consumeTag_tag (num : Int) (typ : Nat) (r : Bytes) (h1 : 1 ≤ num)
    (h2 : num ≤ 536870911) (ht : typ < 8) :
    consumeTag (tag num typ ++ r) = (num, typ, ((tag num typ).length : Int)) := by
  have hv := consumeVarint_varint (encodeTag num typ) (encodeTag_lt num typ h1 h2 ht) r
  unfold consumeTag tag
  simp only [hv, decodeTag_encodeTag num typ h1 h2 ht]
  have a : ¬ (((varint (encodeTag num typ)).length : Int) < 0) := by omega
  have b : ¬ (num < 1) := by omega
  rw [if_neg a, if_neg b]

theorem decodeTag_snd_lt (x : Nat) : (decodeTag x).2 < 8 := by
  unfold decodeTag; split
  · simp
  · simp only; omega

theorem consumeTag_progress (b : Bytes) (h : 0 ≤ (consumeTag b).2.2) :
    1 ≤ (consumeTag b).2.2 ∧ (consumeTag b).2.2 ≤ b.length ∧ 1 ≤ (consumeTag b).1 ∧
      (consumeTag b).2.1 < 8 := by
  simp only [consumeTag] at h ⊢
  by_cases hneg : (consumeVarint b).2 < 0
  · rw [if_pos hneg] at h; simp only at h; omega
  · have hp := consumeVarint_progress b (by omega)
    rw [if_neg hneg] at h ⊢
    by_cases hd : (decodeTag (consumeVarint b).1).1 < 1
    · rw [if_pos hd] at h; simp [errFieldNumber] at h
    · rw [if_neg hd]
      have := decodeTag_snd_lt (consumeVarint b).1
      simp only
      omega

/-- error codes of `consumeTag` are in -3..-1 -/
theorem consumeVarintAux_ge : ∀ (b : Bytes) (idx : Nat), -3 ≤ (consumeVarintAux idx b).2 := by
  intro b
  induction b with
  | nil => intro idx; simp [consumeVarintAux, errTruncated]
  | cons y ys ih =>
    intro idx
    have := ih (idx + 1)
    simp only [consumeVarintAux]
    split
    · split <;> simp [errOverflow]
    · split
      · simp
      · split
        · simp only; omega
        · simp only; omega

theorem consumeVarint_ge (b : Bytes) : -3 ≤ (consumeVarint b).2 := consumeVarintAux_ge b 0

theorem consumeTag_ge (b : Bytes) : -3 ≤ (consumeTag b).2.2 := by
  have := consumeVarint_ge b
  simp only [consumeTag]
  split
  · simp only; omega
  · split
    · simp [errFieldNumber]
    · simp only; omega

/-! ## 5. Field values -/

theorem consumeBytes_ge (b : Bytes) : -3 ≤ (consumeBytes b).2 := by
  have := consumeVarint_ge b
  simp only [consumeBytes]
  split
  · simp only; omega
  · split
    · simp [errTruncated]
    · simp only; omega

theorem consumeFixed32_ge (b : Bytes) : -3 ≤ (consumeFixed32 b).2 := by
  unfold consumeFixed32; split <;> simp [errTruncated]

theorem consumeFixed64_ge (b : Bytes) : -3 ≤ (consumeFixed64 b).2 := by
  unfold consumeFixed64; split <;> simp [errTruncated]

theorem consumeScalarValue_ge (typ : Nat) (b : Bytes) : -5 ≤ consumeScalarValue typ b := by
  have h0 := consumeVarint_ge b
  have h1 := consumeFixed64_ge b
  have h2 := consumeBytes_ge b
  have h5 := consumeFixed32_ge b
  unfold consumeScalarValue
  split <;> (try simp only [errEndGroup, errReserved]) <;> omega

/-- for every wire type: a non-negative result is between 1 and `len(b)` -/
theorem consumeScalarValue_progress (typ : Nat) (b : Bytes) (h : 0 ≤ consumeScalarValue typ b) :
    1 ≤ consumeScalarValue typ b ∧ consumeScalarValue typ b ≤ b.length := by
  unfold consumeScalarValue at h ⊢
  split at h
  · exact consumeVarint_progress b h
  · have := consumeFixed32_progress b h; omega
  · have := consumeFixed64_progress b h; omega
  · have := consumeBytes_progress b h; omega
  · simp [errEndGroup] at h
  · simp [errReserved] at h

/-- the length `m` of one field value inside a group (the `let m` of `groupLoop`) -/
def groupM (fuel : Nat) (b : Bytes) (depth : Int) : Int :=
  if (consumeTag b).2.1 = 3 then
    (if depth - 1 < 0 then errRecursionDepth
     else groupLoop fuel (consumeTag b).1 (b.drop (consumeTag b).2.2.toNat) (depth - 1) 0)
  else consumeScalarValue (consumeTag b).2.1 (b.drop (consumeTag b).2.2.toNat)

theorem groupLoop_zero (num : Int) (b : Bytes) (depth acc : Int) :
    groupLoop 0 num b depth acc = errFuel := rfl

theorem groupLoop_succ (fuel : Nat) (num : Int) (b : Bytes) (depth acc : Int) :
    groupLoop (fuel + 1) num b depth acc =
      if (consumeTag b).2.2 < 0 then (consumeTag b).2.2
      else if (consumeTag b).2.1 = 4 then
        (if num ≠ (consumeTag b).1 then errEndGroup else acc + (consumeTag b).2.2)
      else if groupM fuel b depth < 0 then groupM fuel b depth
      else groupLoop fuel num ((b.drop (consumeTag b).2.2.toNat).drop (groupM fuel b depth).toNat)
        depth (acc + (consumeTag b).2.2 + groupM fuel b depth) := rfl

/-- (a) with enough fuel the only negative results are the Go error codes -6..-1 -/
theorem groupLoop_ge (fuel : Nat) : ∀ (num : Int) (b : Bytes) (depth acc : Int),
    b.length < fuel → 0 ≤ acc → -6 ≤ groupLoop fuel num b depth acc := by
  induction fuel with
  | zero => intro num b depth acc h; omega
  | succ f ih =>
    intro num b depth acc hlen hacc
    rw [groupLoop_succ]
    have hge := consumeTag_ge b
    by_cases hneg : (consumeTag b).2.2 < 0
    · rw [if_pos hneg]; omega
    · rw [if_neg hneg]
      have hp := consumeTag_progress b (by omega)
      by_cases h4 : (consumeTag b).2.1 = 4
      · rw [if_pos h4]
        split
        · simp [errEndGroup]
        · omega
      · rw [if_neg h4]
        have hl1 : (b.drop (consumeTag b).2.2.toNat).length < f := by
          simp only [List.length_drop]; omega
        have hm : -6 ≤ groupM f b depth := by
          unfold groupM
          split
          · split
            · simp [errRecursionDepth]
            · exact ih _ _ _ _ hl1 (by omega)
          · have := consumeScalarValue_ge (consumeTag b).2.1 (b.drop (consumeTag b).2.2.toNat)
            omega
        by_cases hmneg : groupM f b depth < 0
        · rw [if_pos hmneg]; exact hm
        · rw [if_neg hmneg]
          apply ih
          · simp only [List.length_drop] at hl1 ⊢; omega
          · omega

theorem groupLoop_ne_errFuel (fuel : Nat) (num : Int) (b : Bytes) (depth acc : Int)
    (hlen : b.length < fuel) (hacc : 0 ≤ acc) : groupLoop fuel num b depth acc ≠ -100 := by
  have := groupLoop_ge fuel num b depth acc hlen hacc
  omega

/-- (b) progress -/
theorem groupLoop_progress (fuel : Nat) : ∀ (num : Int) (b : Bytes) (depth acc : Int),
    0 ≤ acc → 0 ≤ groupLoop fuel num b depth acc →
    acc + 1 ≤ groupLoop fuel num b depth acc ∧ groupLoop fuel num b depth acc ≤ acc + b.length := by
  induction fuel with
  | zero => intro num b depth acc _ h; simp [groupLoop_zero, errFuel] at h
  | succ f ih =>
    intro num b depth acc hacc h
    rw [groupLoop_succ] at h ⊢
    by_cases hneg : (consumeTag b).2.2 < 0
    · rw [if_pos hneg] at h; omega
    · rw [if_neg hneg] at h ⊢
      have hp := consumeTag_progress b (by omega)
      by_cases h4 : (consumeTag b).2.1 = 4
      · rw [if_pos h4] at h ⊢
        by_cases hn : num ≠ (consumeTag b).1
        · rw [if_pos hn] at h; simp [errEndGroup] at h
        · rw [if_neg hn]; omega
      · rw [if_neg h4] at h ⊢
        by_cases hmneg : groupM f b depth < 0
        · rw [if_pos hmneg] at h; omega
        · rw [if_neg hmneg] at h ⊢
          have hm : 1 ≤ groupM f b depth ∧
              groupM f b depth ≤ (b.drop (consumeTag b).2.2.toNat).length := by
            have hm0 : 0 ≤ groupM f b depth := by omega
            revert hm0
            unfold groupM
            split
            · split
              · intro h0; simp [errRecursionDepth] at h0
              · intro h0
                have := ih _ _ _ 0 (by omega) h0
                omega
            · intro h0
              exact consumeScalarValue_progress _ _ h0
          have := ih num _ depth _ (by omega) h
          simp only [List.length_drop] at this hm ⊢
          omega

theorem consumeFieldValue_group (num : Int) (b : Bytes) :
    consumeFieldValue num 3 b = groupLoop (b.length + 1) num b defaultRecursionLimit 0 := by
  simp [consumeFieldValue, consumeFieldValueD, defaultRecursionLimit]

theorem consumeFieldValue_scalar (num : Int) (typ : Nat) (b : Bytes) (h : typ ≠ 3) :
    consumeFieldValue num typ b = consumeScalarValue typ b := by
  simp [consumeFieldValue, consumeFieldValueD, h]

theorem consumeFieldValue_progress (num : Int) (typ : Nat) (b : Bytes)
    (h : 0 ≤ consumeFieldValue num typ b) :
    1 ≤ consumeFieldValue num typ b ∧ consumeFieldValue num typ b ≤ b.length := by
  by_cases h3 : typ = 3
  · subst h3
    rw [consumeFieldValue_group] at h ⊢
    have := groupLoop_progress _ _ _ _ 0 (by omega) h
    omega
  · rw [consumeFieldValue_scalar num typ b h3] at h ⊢
    exact consumeScalarValue_progress typ b h

theorem consumeFieldValue_ge (num : Int) (typ : Nat) (b : Bytes) :
    -6 ≤ consumeFieldValue num typ b := by
  by_cases h3 : typ = 3
  · subst h3
    rw [consumeFieldValue_group]
    exact groupLoop_ge _ _ _ _ _ (by omega) (by omega)
  · rw [consumeFieldValue_scalar num typ b h3]
    have := consumeScalarValue_ge typ b; omega

theorem consumeFieldValue_ne_errFuel (num : Int) (typ : Nat) (b : Bytes) :
    consumeFieldValue num typ b ≠ -100 := by
  have := consumeFieldValue_ge num typ b; omega

/-! ## 6. Prefix determinism -/

theorem consumeVarintAux_append : ∀ (a b : Bytes) (idx : Nat),
    0 ≤ (consumeVarintAux idx a).2 → consumeVarintAux idx (a ++ b) = consumeVarintAux idx a := by
  intro a
  induction a with
  | nil => intro b idx h; simp [consumeVarintAux, errTruncated] at h
  | cons y ys ih =>
    intro b idx h
    simp only [List.cons_append, consumeVarintAux] at h ⊢
    by_cases h9 : idx = 9
    · simp only [h9, ↓reduceIte]
    · simp only [h9, ↓reduceIte] at h ⊢
      by_cases hlt : y.toNat < 128
      · simp only [hlt, ↓reduceIte]
      · simp only [hlt, ↓reduceIte] at h ⊢
        by_cases hneg : (consumeVarintAux (idx + 1) ys).2 < 0
        · simp only [hneg, ↓reduceIte] at h; omega
        · rw [ih b (idx + 1) (by omega)]

theorem consumeVarint_append (a b : Bytes) (h : 0 ≤ (consumeVarint a).2) :
    consumeVarint (a ++ b) = consumeVarint a := consumeVarintAux_append a b 0 h

theorem consumeFixed32_append (a b : Bytes) (h : 0 ≤ (consumeFixed32 a).2) :
    consumeFixed32 (a ++ b) = consumeFixed32 a := by
  match a, h with
  | [], h => simp [consumeFixed32, errTruncated] at h
  | [_], h => simp [consumeFixed32, errTruncated] at h
  | [_, _], h => simp [consumeFixed32, errTruncated] at h
  | [_, _, _], h => simp [consumeFixed32, errTruncated] at h
  | _ :: _ :: _ :: _ :: _, _ => simp [consumeFixed32]

theorem consumeFixed64_append (a b : Bytes) (h : 0 ≤ (consumeFixed64 a).2) :
    consumeFixed64 (a ++ b) = consumeFixed64 a := by
  match a, h with
  | [], h => simp [consumeFixed64, errTruncated] at h
  | [_], h => simp [consumeFixed64, errTruncated] at h
  | [_, _], h => simp [consumeFixed64, errTruncated] at h
  | [_, _, _], h => simp [consumeFixed64, errTruncated] at h
  | [_, _, _, _], h => simp [consumeFixed64, errTruncated] at h
  | [_, _, _, _, _], h => simp [consumeFixed64, errTruncated] at h
  | [_, _, _, _, _, _], h => simp [consumeFixed64, errTruncated] at h
  | [_, _, _, _, _, _, _], h => simp [consumeFixed64, errTruncated] at h
  | _ :: _ :: _ :: _ :: _ :: _ :: _ :: _ :: _, _ => simp [consumeFixed64]

theorem drop_append_of_le (a b : Bytes) (n : Nat) (h : n ≤ a.length) :
    (a ++ b).drop n = a.drop n ++ b := by
  rw [List.drop_append_of_le_length h]

theorem consumeBytes_append (a b : Bytes) (h : 0 ≤ (consumeBytes a).2) :
    consumeBytes (a ++ b) = consumeBytes a := by
  simp only [consumeBytes] at h ⊢
  by_cases hneg : (consumeVarint a).2 < 0
  · rw [if_pos hneg] at h; simp only at h; omega
  · have hp := consumeVarint_progress a (by omega)
    rw [consumeVarint_append a b (by omega)]
    rw [if_neg hneg] at h ⊢
    rw [drop_append_of_le a b _ (by omega)]
    by_cases hgt : (consumeVarint a).1 > (List.drop (consumeVarint a).2.toNat a).length
    · rw [if_pos hgt] at h; simp [errTruncated] at h
    · rw [if_neg hgt]
      have hgt' : ¬ ((consumeVarint a).1 > (List.drop (consumeVarint a).2.toNat a ++ b).length) := by
        simp only [List.length_append]; omega
      rw [if_neg hgt', List.take_append_of_le_length (by omega), if_neg hneg]

theorem consumeTag_append (a b : Bytes) (h : 0 ≤ (consumeTag a).2.2) :
    consumeTag (a ++ b) = consumeTag a := by
  simp only [consumeTag] at h ⊢
  by_cases hneg : (consumeVarint a).2 < 0
  · rw [if_pos hneg] at h; simp only at h; omega
  · rw [consumeVarint_append a b (by omega)]

theorem consumeScalarValue_append (typ : Nat) (a b : Bytes) (h : 0 ≤ consumeScalarValue typ a) :
    consumeScalarValue typ (a ++ b) = consumeScalarValue typ a := by
  unfold consumeScalarValue at h ⊢
  split at h
  · rw [consumeVarint_append a b h]
  · rw [consumeFixed32_append a b h]
  · rw [consumeFixed64_append a b h]
  · rw [consumeBytes_append a b h]
  · rfl
  · simp [errReserved] at h

/-- a non-negative `groupM` is a real length: between 1 and what is left after the tag -/
theorem groupM_progress (f : Nat) (b : Bytes) (depth : Int) (h0 : 0 ≤ groupM f b depth) :
    1 ≤ groupM f b depth ∧ groupM f b depth ≤ (b.drop (consumeTag b).2.2.toNat).length := by
  revert h0
  unfold groupM
  split
  · split
    · intro h0; simp [errRecursionDepth] at h0
    · intro h0
      have := groupLoop_progress f _ _ _ 0 (by omega) h0
      omega
  · intro h0
    exact consumeScalarValue_progress _ _ h0

/-- fuel monotonicity: once the fuel exceeds the input length, more fuel changes nothing -/
theorem groupLoop_fuel_mono (f : Nat) : ∀ (f' : Nat) (num : Int) (b : Bytes) (depth acc : Int),
    b.length < f → f ≤ f' → groupLoop f' num b depth acc = groupLoop f num b depth acc := by
  induction f with
  | zero => intro f' num b depth acc h; omega
  | succ f ih =>
    intro f' num b depth acc hlen hle
    obtain ⟨g, rfl⟩ : ∃ g, f' = g + 1 := ⟨f' - 1, by omega⟩
    have hfg : f ≤ g := by omega
    rw [groupLoop_succ, groupLoop_succ]
    by_cases hneg : (consumeTag b).2.2 < 0
    · rw [if_pos hneg, if_pos hneg]
    · rw [if_neg hneg, if_neg hneg]
      have hp := consumeTag_progress b (by omega)
      by_cases h4 : (consumeTag b).2.1 = 4
      · rw [if_pos h4, if_pos h4]
      · rw [if_neg h4, if_neg h4]
        have hl1 : (b.drop (consumeTag b).2.2.toNat).length < f := by
          simp only [List.length_drop]; omega
        have hm : groupM g b depth = groupM f b depth := by
          unfold groupM
          split
          · split
            · rfl
            · exact ih g _ _ _ _ hl1 hfg
          · rfl
        rw [hm]
        by_cases hmneg : groupM f b depth < 0
        · rw [if_pos hmneg, if_pos hmneg]
        · rw [if_neg hmneg, if_neg hmneg]
          apply ih g _ _ _ _ _ hfg
          simp only [List.length_drop] at hl1 ⊢; omega

/-- prefix determinism of the group loop at equal fuel -/
theorem groupLoop_append (f : Nat) : ∀ (num : Int) (a b : Bytes) (depth acc : Int),
    0 ≤ groupLoop f num a depth acc →
    groupLoop f num (a ++ b) depth acc = groupLoop f num a depth acc := by
  induction f with
  | zero => intro num a b depth acc h; simp [groupLoop_zero, errFuel] at h
  | succ f ih =>
    intro num a b depth acc h
    rw [groupLoop_succ] at h
    rw [groupLoop_succ, groupLoop_succ]
    by_cases hneg : (consumeTag a).2.2 < 0
    · rw [if_pos hneg] at h; omega
    · rw [if_neg hneg] at h
      have hp := consumeTag_progress a (by omega)
      have ht := consumeTag_append a b (by omega)
      rw [ht, if_neg hneg, if_neg hneg]
      by_cases h4 : (consumeTag a).2.1 = 4
      · rw [if_pos h4, if_pos h4]
      · rw [if_neg h4] at h
        rw [if_neg h4, if_neg h4]
        by_cases hmneg : groupM f a depth < 0
        · rw [if_pos hmneg] at h; omega
        · rw [if_neg hmneg] at h
          have hmp := groupM_progress f a depth (by omega)
          have hd : (a ++ b).drop (consumeTag a).2.2.toNat
              = a.drop (consumeTag a).2.2.toNat ++ b :=
            drop_append_of_le a b _ (by omega)
          have hm : groupM f (a ++ b) depth = groupM f a depth := by
            have hm0 : 0 ≤ groupM f a depth := by omega
            revert hm0
            unfold groupM
            rw [ht, hd]
            split
            · split
              · intro _; rfl
              · intro h0; exact ih _ _ _ _ _ h0
            · intro h0; exact consumeScalarValue_append _ _ _ h0
          rw [hm, if_neg hmneg, if_neg hmneg, hd, drop_append_of_le _ b _ (by omega)]
          exact ih _ _ _ _ _ h

theorem consumeFieldValue_append (num : Int) (typ : Nat) (a b : Bytes)
    (h : 0 ≤ consumeFieldValue num typ a) :
    consumeFieldValue num typ (a ++ b) = consumeFieldValue num typ a := by
  by_cases h3 : typ = 3
  · subst h3
    rw [consumeFieldValue_group] at h ⊢
    rw [consumeFieldValue_group]
    have hmono := groupLoop_fuel_mono (a.length + 1) ((a ++ b).length + 1) num a
      defaultRecursionLimit 0 (by omega) (by simp only [List.length_append]; omega)
    rw [← hmono] at h ⊢
    exact groupLoop_append _ _ _ _ _ _ h
  · rw [consumeFieldValue_scalar num typ _ h3] at h ⊢
    rw [consumeFieldValue_scalar num typ _ h3]
    exact consumeScalarValue_append typ a b h

/-! ## 2. Varint size -/

/-- upper bound: `v < 2^(7(k+1))` gives at most `k+1` bytes -/
theorem varint_length_le (k : Nat) : ∀ v : Nat, v < 2 ^ (7 * (k + 1)) → (varint v).length ≤ k + 1 := by
  induction k with
  | zero =>
    intro v h
    have : v < 128 := by simpa using h
    rw [varint_lt v this]; simp
  | succ k ih =>
    intro v h
    by_cases hlt : v < 128
    · rw [varint_lt v hlt]; simp
    · rw [varint_ge v hlt, List.length_cons]
      have e : 7 * (k + 1 + 1) = 7 * (k + 1) + 7 := by omega
      rw [e, Nat.pow_add] at h
      have : v / 128 < 2 ^ (7 * (k + 1)) := Nat.div_lt_of_lt_mul (by omega)
      have := ih (v / 128) this
      omega

/-- lower bound: `2^(7k) ≤ v` gives at least `k+1` bytes -/
theorem varint_length_ge (k : Nat) : ∀ v : Nat, 2 ^ (7 * k) ≤ v → k + 1 ≤ (varint v).length := by
  induction k with
  | zero => intro v _; have := varint_length_pos v; omega
  | succ k ih =>
    intro v h
    have e : 7 * (k + 1) = 7 * k + 7 := by omega
    rw [e, Nat.pow_add] at h
    have hp : 0 < 2 ^ (7 * k) := Nat.pow_pos (by omega)
    have hlt : ¬ v < 128 := by
      have : (2:Nat) ^ 7 = 128 := by decide
      rw [this] at h
      omega
    rw [varint_ge v hlt, List.length_cons]
    have : 2 ^ (7 * k) ≤ v / 128 := by
      rw [Nat.le_div_iff_mul_le (by omega)]
      exact h
    have := ih (v / 128) this
    omega

theorem varint_length_le_ten (v : Nat) (h : v < 2 ^ 64) : (varint v).length ≤ 10 := by
  apply varint_length_le 9 v
  have : (2:Nat) ^ 64 ≤ 2 ^ (7 * (9 + 1)) := Nat.pow_le_pow_right (by omega) (by omega)
  omega

/-- characterisation: `k+1` bytes exactly on `[2^(7k), 2^(7(k+1)))` (and `0` for `k = 0`) -/
theorem varint_length_eq (k v : Nat) (hlo : k = 0 ∨ 2 ^ (7 * k) ≤ v) (hhi : v < 2 ^ (7 * (k + 1))) :
    (varint v).length = k + 1 := by
  have h1 := varint_length_le k v hhi
  have h2 : k + 1 ≤ (varint v).length := by
    rcases hlo with rfl | hlo
    · have := varint_length_pos v; omega
    · exact varint_length_ge k v hlo
  omega

theorem sizeVarint_zero : sizeVarint 0 = 1 := by decide

theorem len64_bounds (v : Nat) (hv : v ≠ 0) : 2 ^ (len64 v - 1) ≤ v ∧ v < 2 ^ (len64 v) ∧ 1 ≤ len64 v := by
  unfold len64
  rw [if_neg hv]
  refine ⟨?_, ?_, by omega⟩
  · simp only [Nat.add_sub_cancel]
    exact Nat.log2_self_le hv
  · exact Nat.lt_log2_self

theorem sizeVarint_eq (v : Nat) (h : v < 2 ^ 64) : sizeVarint v = (varint v).length := by
  by_cases hv : v = 0
  · subst hv; rw [varint_lt 0 (by omega)]; decide
  · obtain ⟨hlo, hhi, hL1⟩ := len64_bounds v hv
    have hL64 : len64 v ≤ 64 := by
      apply Classical.byContradiction
      intro hc
      have : (2:Nat) ^ 64 ≤ 2 ^ (len64 v - 1) := Nat.pow_le_pow_right (by omega) (by omega)
      omega
    unfold sizeVarint
    generalize len64 v = L at *
    have hk := varint_length_eq ((L - 1) / 7) v
      (Or.inr (Nat.le_trans (Nat.pow_le_pow_right (by omega) (by omega)) hlo))
      (Nat.lt_of_lt_of_le hhi (Nat.pow_le_pow_right (by omega) (by omega)))
    rw [hk]
    omega

theorem byteOfNat_ne_zero (v : Nat) (h0 : v ≠ 0) (h : v < 256) : byteOfNat v ≠ 0#8 := by
  intro hc
  have := byteOfNat_toNat v h
  rw [hc] at this
  simp at this
  omega

/-- minimality: the last byte of a varint is non-zero unless the value is 0 -/
theorem varint_getLast_ne_zero : ∀ v : Nat, v ≠ 0 → (varint v).getLast? ≠ some 0#8 := by
  intro v
  induction v using Nat.strongRecOn with
  | ind v ih =>
    intro hv
    by_cases hlt : v < 128
    · rw [varint_lt v hlt]
      simp only [List.getLast?_singleton, ne_eq, Option.some.injEq]
      exact byteOfNat_ne_zero v hv (by omega)
    · rw [varint_ge v hlt]
      have hne := varint_ne_nil (v / 128)
      rw [List.getLast?_cons_of_ne_nil hne]
      exact ih (v / 128) (by omega) (by omega)

/-- the name announced in `PicoModel/Wire.lean` -/
theorem cfv_never_fuel (num : Int) (typ : Nat) (b : Bytes) :
    consumeFieldValue num typ b ≠ errFuel := consumeFieldValue_ne_errFuel num typ b

end Pico.Wire

#print axioms Pico.Wire.consumeFixed32_fixed32
#print axioms Pico.Wire.fixed32_length
#print axioms Pico.Wire.consumeFixed64_fixed64
#print axioms Pico.Wire.fixed64_length
#print axioms Pico.Wire.consumeFixed32_progress
#print axioms Pico.Wire.consumeFixed64_progress
#print axioms Pico.Wire.varint_length_le_ten
#print axioms Pico.Wire.varint_length_eq
#print axioms Pico.Wire.sizeVarint_eq
#print axioms Pico.Wire.varint_getLast_ne_zero
#print axioms Pico.Wire.consumeBytes_lenPrefixed
#print axioms Pico.Wire.lenPrefixed_length
#print axioms Pico.Wire.consumeBytes_progress
#print axioms Pico.Wire.encodeTag_valid
#print axioms Pico.Wire.encodeTag_lt
#print axioms Pico.Wire.decodeTag_encodeTag
#print axioms Pico.Wire.consumeTag_tag
#print axioms Pico.Wire.consumeTag_progress
#print axioms Pico.Wire.consumeScalarValue_progress
#print axioms Pico.Wire.groupLoop_ge
#print axioms Pico.Wire.groupLoop_ne_errFuel
#print axioms Pico.Wire.groupLoop_progress
#print axioms Pico.Wire.consumeFieldValue_progress
#print axioms Pico.Wire.consumeFieldValue_ge
#print axioms Pico.Wire.consumeFieldValue_ne_errFuel
#print axioms Pico.Wire.cfv_never_fuel
#print axioms Pico.Wire.consumeVarint_append
#print axioms Pico.Wire.consumeFixed32_append
#print axioms Pico.Wire.consumeFixed64_append
#print axioms Pico.Wire.consumeBytes_append
#print axioms Pico.Wire.consumeTag_append
#print axioms Pico.Wire.consumeScalarValue_append
#print axioms Pico.Wire.groupLoop_fuel_mono
#print axioms Pico.Wire.groupLoop_append
#print axioms Pico.Wire.consumeFieldValue_append
