import PicoModel.Small
/-
C20 — `bitset.Small`: a run of insertions never panics and answers "non-negative and inserted
before". Kernel-only.
-/
namespace Pico.Bitset

/-- abstraction: is bit `i` set? -/
def mem (s : Small) (i : Nat) : Bool :=
  if i < 64 then s.low.testBit i else (s.rest.getD ((i - 64) / 64) 0).testBit ((i - 64) % 64)

theorem mem_empty (i : Nat) : mem empty i = false := by
  unfold mem empty; split <;> simp

theorem testBit_or_bit (w b k : Nat) :
    (w ||| (1 <<< b)).testBit k = (w.testBit k || decide (b = k)) := by
  rw [Nat.testBit_or, Nat.one_shiftLeft, Nat.testBit_two_pow]

theorem getD_pad (l : List Nat) (n j : Nat) :
    (l ++ List.replicate n 0).getD j 0 = l.getD j 0 := by
  simp only [List.getD_eq_getElem?_getD, List.getElem?_append]
  split
  · rfl
  · rename_i h
    rw [List.getElem?_eq_none (by omega : l.length ≤ j), List.getElem?_replicate]
    split <;> rfl

theorem getD_set (l : List Nat) (b j v : Nat) (hb : b < l.length) :
    (l.set b v).getD j 0 = if j = b then v else l.getD j 0 := by
  simp only [List.getD_eq_getElem?_getD, List.getElem?_set]
  by_cases h : b = j
  · subst h; simp [hb]
  · have h' : ¬ j = b := fun e => h e.symm
    simp [h, h']

/-- the padded `rest` of `set` -/
def padded (l : List Nat) (bucket : Nat) : List Nat :=
  if l.length ≤ bucket then l ++ List.replicate (bucket + 1 - l.length) 0 else l

theorem padded_length (l : List Nat) (bucket : Nat) : bucket < (padded l bucket).length := by
  unfold padded; split
  · simp; omega
  · omega

theorem padded_getD (l : List Nat) (bucket j : Nat) : (padded l bucket).getD j 0 = l.getD j 0 := by
  unfold padded; split
  · exact getD_pad _ _ _
  · rfl

/-- the state after `set s x` for `x ≥ 64` -/
def highState (s : Small) (x : Int) : Small :=
  Small.mk s.low (List.set (padded s.rest ((x - 64).toNat / 64)) ((x - 64).toNat / 64)
    (s.rest.getD ((x - 64).toNat / 64) 0 ||| (1 <<< ((x - 64).toNat % 64))))

/-- `set` for `x ≥ 64`, in closed form -/
theorem set_high (s : Small) (x : Int) (h : 64 ≤ x) :
    set s x = .ok
      (highState s x,
       (s.rest.getD ((x - 64).toNat / 64) 0).testBit ((x - 64).toNat % 64)) := by
  unfold set
  rw [if_neg (by omega), if_neg (by omega)]
  simp only []
  have hl := padded_length s.rest ((x - 64).toNat / 64)
  have hg := padded_getD s.rest ((x - 64).toNat / 64) ((x - 64).toNat / 64)
  unfold padded at hl hg
  rw [List.getD_eq_getElem?_getD, List.getElem?_eq_getElem hl] at hg
  rw [List.getElem?_eq_getElem hl]
  simp only [Option.getD_some] at hg
  simp only [hg]
  rfl

/-- one-step simulation -/
theorem set_sim (s : Small) (x : Int) :
    ∃ s', set s x = .ok (s', decide (0 ≤ x) && mem s x.toNat) ∧
      ∀ i, mem s' i = (mem s i || (decide (0 ≤ x) && decide (i = x.toNat))) := by
  by_cases hneg : x < 0
  · refine ⟨s, ?_, ?_⟩
    · have : ¬ (0 ≤ x) := by omega
      simp [set, hneg, this]
    · intro i
      have : ¬ (0 ≤ x) := by omega
      simp [this]
  have h0 : 0 ≤ x := by omega
  by_cases hlow : x < 64
  · refine ⟨{ s with low := s.low ||| (1 <<< x.toNat) }, ?_, ?_⟩
    · have hb : x.toNat < 64 := by omega
      simp [set, hneg, hlow, h0, mem, hb]
    · intro i
      have hb : x.toNat < 64 := by omega
      unfold mem
      simp only [h0, decide_true, Bool.true_and]
      by_cases hi : i < 64
      · simp only [hi, ↓reduceIte, testBit_or_bit]
        congr 1
        exact decide_eq_decide.2 ⟨fun e => e.symm, fun e => e.symm⟩
      · have : ¬ i = x.toNat := by omega
        simp [hi, this]
  · have hge : 64 ≤ x := by omega
    refine ⟨highState s x, ?_, ?_⟩
    · have hb : ¬ x.toNat < 64 := by omega
      have e : (x - 64).toNat = x.toNat - 64 := by omega
      rw [set_high s x hge]
      simp [mem, h0, hb, e]
    · intro i
      have hb : ¬ x.toNat < 64 := by omega
      have e : (x - 64).toNat = x.toNat - 64 := by omega
      unfold mem highState
      simp only [h0, decide_true, Bool.true_and, e]
      by_cases hi : i < 64
      · have : ¬ i = x.toNat := by omega
        simp [hi, this]
      · simp only [hi, ↓reduceIte]
        rw [getD_set _ _ _ _ (padded_length _ _), padded_getD]
        by_cases hj : (i - 64) / 64 = (x.toNat - 64) / 64
        · rw [if_pos hj, testBit_or_bit, hj]
          congr 1
          exact decide_eq_decide.2 ⟨fun e => by omega, fun e => by omega⟩
        · rw [if_neg hj]
          have : ¬ i = x.toNat := by intro e; subst e; exact hj rfl
          simp [this]

/-- the abstraction relation between a bitset and the list of values seen so far -/
def Inv (s : Small) (seen : List Int) : Prop := ∀ i : Nat, mem s i = seen.contains (i : Int)

theorem run_sim : ∀ (xs : List Int) (s : Small) (seen : List Int), Inv s seen →
    ∃ s', run s xs = .ok (s', specRun seen xs)
  | [], s, seen, _ => ⟨s, rfl⟩
  | x :: xs, s, seen, hinv => by
    obtain ⟨s1, hset, hmem⟩ := set_sim s x
    have hinv1 : Inv s1 (x :: seen) := by
      intro i
      rw [hmem i, hinv i, List.contains_cons, Bool.or_comm]
      congr 1
      by_cases h0 : 0 ≤ x
      · simp only [h0, decide_true, Bool.true_and]
        by_cases e : i = x.toNat
        · have h : (i : Int) = x := by omega
          rw [decide_eq_true e, h]; exact (beq_self_eq_true x).symm
        · have h : ¬ (i : Int) = x := by omega
          rw [decide_eq_false e]; exact (beq_false_of_ne h).symm
      · have h : ¬ (i : Int) = x := by omega
        rw [decide_eq_false h0, Bool.false_and]; exact (beq_false_of_ne h).symm
    obtain ⟨s2, hrun⟩ := run_sim xs s1 (x :: seen) hinv1
    refine ⟨s2, ?_⟩
    have hb : (decide (0 ≤ x) && mem s x.toNat) = (decide (0 ≤ x) && seen.contains x) := by
      by_cases h0 : 0 ≤ x
      · have : ((x.toNat : Nat) : Int) = x := by omega
        rw [hinv x.toNat, this]
      · simp [h0]
    rw [run, hset]
    simp only [Res.bind_ok, hrun, Res.pure_eq, specRun, hb]

/-- C20: no insertion panics and every answer is "non-negative and inserted before". The
`x ≤ MaxInt32` hypothesis of the task statement is not needed. -/
theorem run_refines_spec' (xs : List Int) : ∃ s, run empty xs = .ok (s, specRun [] xs) :=
  run_sim xs empty [] (fun i => by rw [mem_empty]; rfl)

theorem run_refines_spec (xs : List Int) (_h : ∀ x ∈ xs, x ≤ 2147483647) :
    ∃ s, run empty xs = .ok (s, specRun [] xs) :=
  run_refines_spec' xs

end Pico.Bitset

#print axioms Pico.Bitset.set_sim
#print axioms Pico.Bitset.run_refines_spec
#print axioms Pico.Bitset.run_refines_spec'
