import PicoProofs.DecRefineMap
import PicoProofs.DecRefineShape
/-!
`decInner` — the statement `genFieldDecode` emits for one field, decoding into the Go variable of
the field — against the field-level specification step `Spec.applyU`, for every field kind.
-/
namespace Pico.Gen2
open Pico.Wire Pico.Dec

theorem bind_ok_inv {α β : Type} {r : Res α} {f : α → Res β} {y : β} (h : (r >>= f) = .ok y) :
    ∃ x, r = .ok x ∧ f x = .ok y := by
  cases r with
  | ok x => exact ⟨x, rfl, h⟩
  | panic w => cases h
  | outOfFuel => cases h

/-- the shape invariant as a proposition -/
def InvM (S : Schema) (id : Nat) (m : Val) : Prop := shMsg S id m = true

theorem u_laws (S : Schema) (id : Nat) : Laws (Spec.specUnmarshal S id) (Spec.stepU S id) where
  nil := Spec.specUnmarshal_nil S id
  cons := fun s hp => Spec.specUnmarshal_cons S id s hp
  none := fun s hb hp => Spec.specUnmarshal_none S id s hb hp

/-- how the variable `cur` of field `f` sits in the message value `m`: `ctx v` is the message with
the variable replaced by `v`, and a record bearing `f`'s number acts on the variable by `applyU` -/
structure SlotCtx (S : Schema) (id : Nat) (f : Field) (m : Val) (cur : Val) (ctx : Val → Val) : Prop where
  h0 : ∀ r : Spec.Record, (r.num : Int) = f.num →
    Spec.stepU S id r m = (Spec.applyU S f r cur).map ctx
  hctx : (f.repeated = true ∨ (∃ k v, f.kind = .map k v)) → ∀ (v : Val) (r : Spec.Record),
    (r.num : Int) = f.num → Spec.stepU S id r (ctx v) = (Spec.applyU S f r v).map ctx
  hm : (f.repeated = true ∨ (∃ k v, f.kind = .map k v)) → m = ctx (noopVal f cur)
  hI : ∀ v, shVar S false f v = true → InvM S id (ctx v)
  hnest : nestedOk S f cur = true

/-- conclusion of the `decInner` lemmas -/
def InnerC (S : Schema) (id : Nat) (f : Field) (m cur : Val) (ctx : Val → Val) (b : Bytes) (d d' : Dec)
    (cur' : Val) : Prop :=
  ((f.num : Int) ≠ d.cur.pendingField → d' = d ∧ cur' = noopVal f cur) ∧
  ((f.num : Int) = d.cur.pendingField →
    Fired (Spec.specUnmarshal S id) (InvM S id) b d m d' (ctx cur'))

theorem applyU_scalar (S : Schema) (f : Field) (k : Scalar) (hk : f.kind = .scalar k) (r : Spec.Record)
    (cur : Val) :
    Spec.applyU S f r cur =
      if f.repeated then
        if r.wire = 2 ∧ !k.isBytes then
          (Spec.unpack k (r.payload.length + 1) r.payload).map fun xs => .list (cur.list! ++ xs.map Val.ofSVal)
        else (r.scalar k).map fun x => .list (cur.list! ++ [Val.ofSVal x])
      else (r.scalar k).map fun x => if f.pointer S then .some (Val.ofSVal x) else Val.ofSVal x := by
  unfold Spec.applyU Spec.apply1
  rw [hk]

theorem isSV_ofSVal (x : Enc.SVal) : isSV (Val.ofSVal x) = true := by
  cases x <;> rfl

theorem all_isSV_map (xs : List Enc.SVal) : (xs.map Val.ofSVal).all isSV = true := by
  induction xs with
  | nil => rfl
  | cons x xs ih => simp only [List.map_cons, List.all_cons, isSV_ofSVal, ih, Bool.and_self]

theorem decInner_scalar (S : Schema) (fuel id : Nat) (f : Field) (k : Scalar) (hk : f.kind = .scalar k)
    {b : Bytes} {d : Dec} {m cur : Val} {ctx : Val → Val} (hta : TA b d) (hc : SlotCtx S id f m cur ctx)
    {d' : Dec} {cur' : Val} (h : decInner S fuel f d cur = .ok (d', cur')) :
    InnerC S id f m cur ctx b d d' cur' := by
  have hL := u_laws S id
  have hnum : (0 : Int) ≤ (f.num : Int) := by omega
  unfold decInner at h
  simp only [hk] at h
  by_cases hr : f.repeated = true
  · -- repeated scalar
    simp only [hr, ↓reduceIte] at h
    cases hrr : readRepeated k (f.num : Int) d (cur.list!.map Val.toSVal) with
    | panic w => rw [hrr] at h; cases h
    | outOfFuel => rw [hrr] at h; cases h
    | ok p =>
      obtain ⟨d1, xs⟩ := p
      rw [hrr] at h
      simp only [Res.bind_ok, Res.pure_eq] at h
      cases h
      have hG : ∀ acc (r : Spec.Record), (r.num : Int) = (f.num : Int) →
          Spec.stepU S id r (ctx (.list (acc.map Val.ofSVal))) =
            (if r.wire = 2 ∧ (!k.isBytes) = true then Spec.unpack k (r.payload.length + 1) r.payload
             else (r.scalar k).map fun x => [x]).map fun xs => ctx (.list ((acc ++ xs).map Val.ofSVal)) := by
        intro acc r hrn
        rw [hc.hctx (Or.inl hr) _ r hrn, applyU_scalar S f k hk, if_pos hr]
        by_cases hp : r.wire = 2 ∧ (!k.isBytes) = true
        · rw [if_pos hp, if_pos hp]
          simp only [Option.map_map]
          congr 1
          funext xs
          simp [Val.list!]
        · rw [if_neg hp, if_neg hp]
          simp only [Option.map_map]
          congr 1
          funext xs
          simp [Val.list!]
      have := readRepeatedN_fired (Inv := InvM S id) hL k (f.num : Int) hnum
        (fun acc => ctx (.list (acc.map Val.ofSVal)))
        (fun acc => hc.hI _ (by
          rw [shVar_false]
          have : nestedOk S f (.list (acc.map Val.ofSVal)) = true := by
            unfold nestedOk; rw [hk]
          rw [this, Bool.and_true]
          unfold normOk; rw [hk]
          simp only [hr, Bool.not_true, Bool.false_or]
          exact all_isSV_map acc))
        hG _ b d _ _ xs hta hrr
      refine ⟨fun hne => ?_, fun hpf => ?_⟩
      · obtain ⟨e1, e2⟩ := this.1 hne
        refine ⟨e1, ?_⟩
        rw [e2]; unfold noopVal; rw [hk]; simp only [hr, ↓reduceIte]
      · have hf := this.2 hpf
        have hm := hc.hm (Or.inl hr)
        unfold noopVal at hm
        rw [hk] at hm
        simp only [hr, ↓reduceIte] at hm
        rw [hm]
        exact hf
  · have hr' : f.repeated = false := by cases hh : f.repeated <;> simp_all
    simp only [hr', Bool.false_eq_true, ↓reduceIte] at h
    have hnoop : noopVal f cur = cur := by unfold noopVal; rw [hk]; simp only [hr', Bool.false_eq_true, ↓reduceIte]
    have hshape : ∀ v, shVar S false f v = true := by
      intro v
      rw [shVar_false]
      have h1 : nestedOk S f v = true := by unfold nestedOk; rw [hk]
      have h2 : normOk f v = true := by unfold normOk; rw [hk]; simp only [hr', Bool.not_false, Bool.true_or]
      rw [h1, h2]; rfl
    by_cases hp : f.pointer S = true
    · simp only [hp, ↓reduceIte] at h
      by_cases hpf : d.cur.pendingField ≠ (f.num : Int)
      · rw [if_pos hpf] at h
        cases h
        exact ⟨fun _ => ⟨rfl, hnoop.symm⟩, fun he => absurd he.symm hpf⟩
      · rw [if_neg hpf] at h
        have hpf' : (f.num : Int) = d.cur.pendingField := (Decidable.of_not_not hpf).symm
        refine ⟨fun hne => absurd hpf' hne, fun _ => ?_⟩
        cases hrs : readSingle k (f.num : Int) d with
        | panic w => rw [hrs] at h; cases h
        | outOfFuel => rw [hrs] at h; cases h
        | ok p =>
          obtain ⟨d1, a⟩ := p
          rw [hrs] at h
          simp only [Res.bind_ok, Res.pure_eq] at h
          cases h
          have hb : b ≠ [] := hta.frame.ne_nil (by omega)
          have hnumr : ((pendRec d.cur).num : Int) = (f.num : Int) := by
            rw [hpf']; exact toNat_cast_pending hta.frame hb
          rcases readSingle_fired (Inv := InvM S id) hL k (f.num : Int) hta hb hpf'
              (fun x => ctx (.some (Val.ofSVal x)))
              (by rw [hc.h0 _ hnumr, applyU_scalar S f k hk, if_neg hr]
                  simp only [hp, ↓reduceIte, Option.map_map]; rfl)
              (fun x => hc.hI _ (hshape _)) hrs with ⟨x, rfl, hf⟩ | ⟨rfl, he, hs⟩
          · exact hf
          · exact Or.inr ⟨he, hs⟩
    · simp only [hp, Bool.false_eq_true, ↓reduceIte] at h
      cases hrs : readSingle k (f.num : Int) d with
      | panic w => rw [hrs] at h; cases h
      | outOfFuel => rw [hrs] at h; cases h
      | ok p =>
        obtain ⟨d1, a⟩ := p
        rw [hrs] at h
        simp only [Res.bind_ok, Res.pure_eq] at h
        cases h
        refine ⟨fun hne => ?_, fun hpf' => ?_⟩
        · unfold readSingle at hrs
          rw [if_pos hne] at hrs
          cases hrs
          exact ⟨rfl, hnoop.symm⟩
        · have hb : b ≠ [] := hta.frame.ne_nil (by omega)
          have hnumr : ((pendRec d.cur).num : Int) = (f.num : Int) := by
            rw [hpf']; exact toNat_cast_pending hta.frame hb
          rcases readSingle_fired (Inv := InvM S id) hL k (f.num : Int) hta hb hpf'
              (fun x => ctx (Val.ofSVal x))
              (by rw [hc.h0 _ hnumr, applyU_scalar S f k hk, if_neg hr]
                  simp only [hp, Bool.false_eq_true, ↓reduceIte, Option.map_map]; rfl)
              (fun x => hc.hI _ (hshape _)) hrs with ⟨x, rfl, hf⟩ | ⟨rfl, he, hs⟩
          · exact hf
          · exact Or.inr ⟨he, hs⟩


/-! ### enum -/

theorem applyU_enum (S : Schema) (f : Field) (hk : f.kind = .enum) (r : Spec.Record) (cur : Val) :
    Spec.applyU S f r cur =
      if f.repeated then
        if r.wire = 2 then
          (Spec.unpack .int32 (r.payload.length + 1) r.payload).map fun xs => .list (cur.list! ++ xs.map Val.ofSVal)
        else (r.scalar .int32).map fun x => .list (cur.list! ++ [Val.ofSVal x])
      else (r.scalar .int32).map Val.ofSVal := by
  unfold Spec.applyU Spec.apply1
  rw [hk]

theorem unpack_all_num (k : Scalar) : ∀ (n : Nat) (p : Bytes) (xs : List Enc.SVal),
    Spec.unpack k n p = some xs → xs.map Val.ofSVal = (xs.map Enc.SVal.num!).map Val.num := by
  intro n
  induction n with
  | zero => intro p xs h; rw [Spec.unpack] at h; cases h
  | succ n ih =>
    intro p xs h
    rw [Spec.unpack_succ] at h
    split at h
    · cases h; rfl
    · split at h
      · cases h
      · cases hu : Spec.unpack k n (List.drop (Spec.unpackElem k p).snd.toNat p) with
        | none => rw [hu] at h; cases h
        | some ys =>
          rw [hu] at h
          simp only [Option.map_some, Option.some.injEq] at h
          subst h
          simp only [List.map_cons, ih _ _ hu]
          rfl

theorem scalar_int32_num (r : Spec.Record) (x : Enc.SVal) (h : r.scalar .int32 = some x) :
    Val.ofSVal x = Val.num x.num! := by
  by_cases hw : r.wire = 0
  · rw [scalar_int32_of_wire0 r hw] at h
    cases h; rfl
  · rw [scalar_wire_ne r .int32 hw] at h; cases h

theorem opt_map_congr {α β : Type} (o : Option α) (f g : α → β) (h : ∀ a, o = some a → f a = g a) :
    o.map f = o.map g := by
  cases o with
  | none => rfl
  | some a => simp only [Option.map_some, h a rfl]

theorem all_isNumV_map (xs : List Nat) : (xs.map Val.num).all isNumV = true := by
  induction xs with
  | nil => rfl
  | cons x xs ih => simp only [List.map_cons, List.all_cons, isNumV, ih, Bool.and_self]

theorem decInner_enum (S : Schema) (fuel id : Nat) (f : Field) (hk : f.kind = .enum)
    {b : Bytes} {d : Dec} {m cur : Val} {ctx : Val → Val} (hta : TA b d) (hc : SlotCtx S id f m cur ctx)
    {d' : Dec} {cur' : Val} (h : decInner S fuel f d cur = .ok (d', cur')) :
    InnerC S id f m cur ctx b d d' cur' := by
  have hL := u_laws S id
  have hnum : (0 : Int) ≤ (f.num : Int) := by omega
  unfold decInner at h
  simp only [hk] at h
  by_cases hr : f.repeated = true
  · simp only [hr, ↓reduceIte] at h
    cases hrr : readRepeatedEnum (f.num : Int) d (cur.list!.map Val.num!) with
    | panic w => rw [hrr] at h; cases h
    | outOfFuel => rw [hrr] at h; cases h
    | ok p =>
      obtain ⟨d1, xs⟩ := p
      rw [hrr] at h
      simp only [Res.bind_ok, Res.pure_eq] at h
      cases h
      have hG : ∀ acc (r : Spec.Record), (r.num : Int) = (f.num : Int) →
          Spec.stepU S id r (ctx (.list (acc.map Val.num))) =
            (if r.wire = 2 then Spec.unpack .int32 (r.payload.length + 1) r.payload
             else (r.scalar .int32).map fun x => [x]).map
              fun xs => ctx (.list ((acc ++ xs.map Enc.SVal.num!).map Val.num)) := by
        intro acc r hrn
        rw [hc.hctx (Or.inl hr) _ r hrn, applyU_enum S f hk, if_pos hr]
        by_cases hp : r.wire = 2
        · rw [if_pos hp, if_pos hp]
          simp only [Option.map_map]
          apply opt_map_congr
          intro xs hxs
          simp only [Function.comp, Val.list!, List.map_append, unpack_all_num _ _ _ _ hxs]
        · rw [if_neg hp, if_neg hp]
          simp only [Option.map_map]
          apply opt_map_congr
          intro x hx
          simp only [Function.comp, Val.list!, List.map_append, List.map_cons, List.map_nil,
            scalar_int32_num r x hx]
      have := readRepeatedEnumN_fired (Inv := InvM S id) hL (f.num : Int) hnum
        (fun acc => ctx (.list (acc.map Val.num)))
        (fun acc => hc.hI _ (by
          rw [shVar_false]
          have : nestedOk S f (.list (acc.map Val.num)) = true := by
            unfold nestedOk; rw [hk]
          rw [this, Bool.and_true]
          unfold normOk; rw [hk]
          simp only [hr, Bool.not_true, Bool.false_or]
          exact all_isNumV_map acc))
        hG _ b d _ _ xs hta hrr
      refine ⟨fun hne => ?_, fun hpf => ?_⟩
      · obtain ⟨e1, e2⟩ := this.1 hne
        refine ⟨e1, ?_⟩
        rw [e2]; unfold noopVal; rw [hk]; simp only [hr, ↓reduceIte]
      · have hf := this.2 hpf
        have hm := hc.hm (Or.inl hr)
        unfold noopVal at hm
        rw [hk] at hm
        simp only [hr, ↓reduceIte] at hm
        rw [hm]
        exact hf
  · have hr' : f.repeated = false := by cases hh : f.repeated <;> simp_all
    simp only [hr', Bool.false_eq_true, ↓reduceIte] at h
    have hnoop : noopVal f cur = cur := by unfold noopVal; rw [hk]; simp only [hr', Bool.false_eq_true, ↓reduceIte]
    have hshape : ∀ v, shVar S false f v = true := by
      intro v
      rw [shVar_false]
      have h1 : nestedOk S f v = true := by unfold nestedOk; rw [hk]
      have h2 : normOk f v = true := by unfold normOk; rw [hk]; simp only [hr', Bool.not_false, Bool.true_or]
      rw [h1, h2]; rfl
    cases hrs : readSingle .int32 (f.num : Int) d with
    | panic w => rw [hrs] at h; cases h
    | outOfFuel => rw [hrs] at h; cases h
    | ok p =>
      obtain ⟨d1, a⟩ := p
      rw [hrs] at h
      simp only [Res.bind_ok, Res.pure_eq] at h
      cases h
      refine ⟨fun hne => ?_, fun hpf' => ?_⟩
      · unfold readSingle at hrs
        rw [if_pos hne] at hrs
        cases hrs
        exact ⟨rfl, hnoop.symm⟩
      · have hb : b ≠ [] := hta.frame.ne_nil (by omega)
        have hnumr : ((pendRec d.cur).num : Int) = (f.num : Int) := by
          rw [hpf']; exact toNat_cast_pending hta.frame hb
        rcases readSingle_fired (Inv := InvM S id) hL .int32 (f.num : Int) hta hb hpf'
            (fun x => ctx (Val.ofSVal x))
            (by rw [hc.h0 _ hnumr, applyU_enum S f hk, if_neg hr]
                simp only [Option.map_map]; rfl)
            (fun x => hc.hI _ (hshape _)) hrs with ⟨x, rfl, hf⟩ | ⟨rfl, he, hs⟩
        · exact hf
        · exact Or.inr ⟨he, hs⟩


/-! ### map -/

theorem applyU_map (S : Schema) (f : Field) (k v : Scalar) (hk : f.kind = .map k v) (r : Spec.Record)
    (cur : Val) :
    Spec.applyU S f r cur =
      if r.wire ≠ 2 then none
      else (Spec.mapEntry k v (r.payload.length + 1) r.payload (k.zero, v.zero)).map fun kv =>
        .map (mapInsert (match cur with | .map es => es | _ => []) kv.1 kv.2 keyEq) := by
  unfold Spec.applyU Spec.apply1
  rw [hk]
  rfl

/-- the Go map variable as a value -/
def mapVal (t : Option (List (Val × Val))) : Val :=
  match t with | some es => Val.map es | none => Val.none

def mapOf : Val → Option (List (Val × Val))
  | .map es => some es
  | _ => none

theorem noopVal_map (f : Field) (k v : Scalar) (hk : f.kind = .map k v) (cur : Val) :
    noopVal f cur = mapVal (mapOf cur) := by
  unfold noopVal; rw [hk]; cases cur <;> rfl

theorem decInner_map (S : Schema) (fuel id : Nat) (f : Field) (k v : Scalar) (hk : f.kind = .map k v)
    {b : Bytes} {d : Dec} {m cur : Val} {ctx : Val → Val} (hta : TA b d) (hc : SlotCtx S id f m cur ctx)
    {d' : Dec} {cur' : Val} (h : decInner S fuel f d cur = .ok (d', cur')) :
    InnerC S id f m cur ctx b d d' cur' := by
  have hL := u_laws S id
  have hnum : (0 : Int) ≤ (f.num : Int) := by omega
  unfold decInner at h
  simp only [hk] at h
  obtain ⟨⟨d1, t1⟩, hrr, h⟩ := bind_ok_inv h
  · simp only [Res.pure_eq] at h
    cases h
    have hG : ∀ t (r : Spec.Record), (r.num : Int) = (f.num : Int) →
        Spec.stepU S id r (ctx (mapVal t)) =
          if r.wire ≠ 2 then none else (mapEntryO k v t r.payload).map fun t => ctx (mapVal t) := by
      intro t r hrn
      rw [hc.hctx (Or.inr ⟨k, v, hk⟩) _ r hrn, applyU_map S f k v hk]
      by_cases hw : r.wire ≠ 2
      · rw [if_pos hw, if_pos hw]; rfl
      · rw [if_neg hw, if_neg hw]
        unfold mapEntryO mapSpec
        simp only [Option.map_map]
        cases t <;> rfl
    have hsh : ∀ t, shVar S false f (mapVal t) = true := by
      intro t
      rw [shVar_false]
      have h1 : nestedOk S f (mapVal t) = true := by unfold nestedOk; rw [hk]
      have h2 : normOk f (mapVal t) = true := by unfold normOk; rw [hk]; cases t <;> rfl
      rw [h1, h2]; rfl
    unfold mapDecode repeatedMessage at hrr
    replace hrr : repeatedMessageN (f.num : Int) (mapEntry k v) (d.cur.buffer.length + 2) d (mapOf cur)
        = .ok (d', t1) := hrr
    have := repeatedMessageN_fired (Inv := InvM S id) hL (f.num : Int) hnum (mapEntry k v) (mapEntry_mono k v)
      (mapEntryO k v) (fun t p d1 d2 t2 h1 h2 => mapEntry_cb k v t p d1 d2 t2 h1 h2)
      (fun t p hb => mapEntryO_bad k v t p hb) (fun t => ctx (mapVal t)) (fun t => hc.hI _ (hsh t))
      hG _ b d _ _ t1 hta hrr
    have hnoop := noopVal_map f k v hk cur
    refine ⟨fun hne => ?_, fun hpf => ?_⟩
    · obtain ⟨e1, e2⟩ := this.1 hne
      exact ⟨e1, by rw [e2, hnoop]; rfl⟩
    · have hf := this.2 hpf
      have hm := hc.hm (Or.inr ⟨k, v, hk⟩)
      rw [hnoop] at hm
      rw [hm]
      exact hf


/-! ### message-typed fields -/

theorem applyU_message (S : Schema) (f : Field) (id' : Nat) (hk : f.kind = .message id') (r : Spec.Record)
    (cur : Val) :
    Spec.applyU S f r cur =
      if r.wire ≠ 2 then none
      else if f.cat == 1 ∨ f.cat == 2 then
        (Spec.secNanos (r.payload.length + 1) r.payload (0, 0)).map fun s =>
          let c : Val := .num (if f.cat == 1 then Spec.tsOf s else Spec.durOf s)
          if f.repeated then .list (cur.list! ++ [if f.pointer S then .some c else c])
          else if f.pointer S then .some c else c
      else if f.repeated then
        (Spec.specUnmarshal S id' r.payload (zeroMsg S id')).map fun x => .list (cur.list! ++ [x])
      else if f.pointer S then
        (Spec.specUnmarshal S id' r.payload (match cur with | .some x => x | _ => zeroMsg S id')).map .some
      else Spec.specUnmarshal S id' r.payload cur := by
  unfold Spec.applyU Spec.apply1
  rw [hk]
  rfl

section
variable {σ : Type} {spec : Bytes → σ → Option σ} {step : Spec.Record → σ → Option σ} {Inv : σ → Prop}

theorem castOne_fired (hL : Laws spec step) (c1 : Bool) (field : Int) {b : Bytes} {d : Dec} {s : σ}
    (hta : TA b d) (hb : b ≠ []) (hpf : field = d.cur.pendingField) (g : Nat → σ) (hI : ∀ c, Inv (g c))
    (hstep : step (pendRec d.cur) s =
      if (pendRec d.cur).wire ≠ 2 then none
      else (Spec.secNanos ((pendRec d.cur).payload.length + 1) (pendRec d.cur).payload (0, 0)).map
        fun sn => g (if c1 = true then Spec.tsOf sn else Spec.durOf sn))
    {d' : Dec} {a : Option Nat}
    (h : (if c1 = true then tsDecode field d else durDecode field d) = .ok (d', a)) :
    ∃ c, a = some c ∧ Fired spec Inv b d s d' (g c) := by
  cases c1 with
  | true =>
    simp only [↓reduceIte] at h hstep
    exact tsDecode_fired hL field hta hb hpf g hI hstep h
  | false =>
    simp only [Bool.false_eq_true, ↓reduceIte] at h hstep
    exact durDecode_fired hL field hta hb hpf g hI hstep h

theorem castOne_mono (c1 : Bool) (field : Int) (d : Dec) :
    MonoR d (if c1 = true then tsDecode field d else durDecode field d) := by
  cases c1 with
  | true => simp only [↓reduceIte]; exact tsDecode_mono field d
  | false => simp only [Bool.false_eq_true, ↓reduceIte]; exact durDecode_mono field d

theorem castOne_noop (c1 : Bool) (field : Int) (d : Dec) (hne : field ≠ d.cur.pendingField) :
    (if c1 = true then tsDecode field d else durDecode field d) = .ok (d, none) := by
  cases c1 with
  | true => simp only [↓reduceIte]; unfold tsDecode; rw [if_pos (fun h => hne h.symm)]
  | false => simp only [Bool.false_eq_true, ↓reduceIte]; unfold durDecode; rw [if_pos (fun h => hne h.symm)]

end


theorem plainMsg_cast (f : Field) (hcat : (f.cat == 1) = true ∨ (f.cat == 2) = true) : plainMsg f = false := by
  unfold plainMsg
  rcases hcat with h | h <;> simp [h]

theorem shVar_cast (S : Schema) (f : Field) (id' : Nat) (hk : f.kind = .message id')
    (hcat : (f.cat == 1) = true ∨ (f.cat == 2) = true) (v : Val)
    (hv : f.repeated = true → ∃ xs, v = .list xs) : shVar S false f v = true := by
  rw [shVar_false]
  have h1 : nestedOk S f v = true := by
    unfold nestedOk; rw [hk]; simp only [plainMsg_cast f hcat, Bool.false_eq_true, ↓reduceIte]
  have h2 : normOk f v = true := by
    unfold normOk; rw [hk]
    by_cases hr : f.repeated = true
    · obtain ⟨xs, rfl⟩ := hv hr; simp
    · simp [hr]
  rw [h1, h2]; rfl

theorem decInner_cast (S : Schema) (fuel id id' : Nat) (f : Field) (hk : f.kind = .message id')
    (hcat : (f.cat == 1) = true ∨ (f.cat == 2) = true)
    {b : Bytes} {d : Dec} {m cur : Val} {ctx : Val → Val} (hta : TA b d) (hc : SlotCtx S id f m cur ctx)
    {d' : Dec} {cur' : Val} (h : decInner S fuel f d cur = .ok (d', cur')) :
    InnerC S id f m cur ctx b d d' cur' := by
  have hL := u_laws S id
  unfold decInner at h
  simp only [hk, hcat, ↓reduceIte] at h
  -- the specification step on a record bearing the field's number
  have hap : ∀ (v : Val) (r : Spec.Record), Spec.applyU S f r v =
      if r.wire ≠ 2 then none
      else (Spec.secNanos (r.payload.length + 1) r.payload (0, 0)).map fun s =>
        let c : Val := .num (if (f.cat == 1) = true then Spec.tsOf s else Spec.durOf s)
        if f.repeated then .list (v.list! ++ [if f.pointer S then .some c else c])
        else if f.pointer S then .some c else c := by
    intro v r
    rw [applyU_message S f id' hk]
    by_cases hw : r.wire ≠ 2
    · rw [if_pos hw, if_pos hw]
    · rw [if_neg hw, if_neg hw, if_pos hcat]
  by_cases hr : f.repeated = true
  · simp only [hr, ↓reduceIte] at h
    have hone : ∀ b d xs d1 a, TA b d → (f.num : Int) = d.cur.pendingField →
        (if (f.cat == 1) = true then tsDecode (f.num : Int) d else durDecode (f.num : Int) d) = .ok (d1, a) →
        ∃ c, a = some c ∧ Fired (Spec.specUnmarshal S id) (InvM S id) b d (ctx (.list xs)) d1
          (ctx (.list (xs ++ [if f.pointer S = true then Val.some (Val.num c) else Val.num c]))) := by
      intro b d xs d1 a hta hpf ho
      have hb : b ≠ [] := hta.frame.ne_nil (by omega)
      have hnumr : ((pendRec d.cur).num : Int) = (f.num : Int) := by
        rw [hpf]; exact toNat_cast_pending hta.frame hb
      refine castOne_fired hL (f.cat == 1) (f.num : Int) hta hb hpf
        (fun c => ctx (.list (xs ++ [if f.pointer S = true then Val.some (Val.num c) else Val.num c])))
        (fun c => hc.hI _ (shVar_cast S f id' hk hcat _ (fun _ => ⟨_, rfl⟩))) ?_ ho
      rw [hc.hctx (Or.inl hr) _ _ hnumr, hap]
      by_cases hw : (pendRec d.cur).wire ≠ 2
      · rw [if_pos hw, if_pos hw]; rfl
      · rw [if_neg hw, if_neg hw]
        simp only [Option.map_map]
        congr 1
        funext sn
        simp only [Function.comp, hr, ↓reduceIte, Val.list!]
    have := castLoop_fired (spec := Spec.specUnmarshal S id) (Inv := InvM S id) _
      (fun d => castOne_mono (f.cat == 1) (f.num : Int) d) (f.pointer S) _ (f.num : Int)
      (fun xs => ctx (.list xs)) hone _ b d cur.list! d' cur' hta h
    obtain ⟨xs', hxs'⟩ := castLoop_list _ _ _ _ _ _ _ _ _ h
    refine ⟨fun hne => ?_, fun hpf => ?_⟩
    · obtain ⟨e1, e2⟩ := this.1 hne
      refine ⟨e1, ?_⟩
      rw [e2]; unfold noopVal; rw [hk]; simp only [hr, ↓reduceIte]
    · have hf := this.2 hpf
      have hm := hc.hm (Or.inl hr)
      unfold noopVal at hm
      rw [hk] at hm
      simp only [hr, ↓reduceIte] at hm
      rw [hm]
      rw [hxs'] at hf ⊢
      exact hf
  · have hr' : f.repeated = false := by cases hh : f.repeated <;> simp_all
    simp only [hr', Bool.false_eq_true, ↓reduceIte] at h
    have hnoop : noopVal f cur = cur := by
      unfold noopVal; rw [hk]; simp only [hr', Bool.false_eq_true, ↓reduceIte]
    have hshape : ∀ v, shVar S false f v = true :=
      fun v => shVar_cast S f id' hk hcat v (fun hh => absurd hh hr)
    by_cases hp : f.pointer S = true
    · simp only [hp, ↓reduceIte] at h
      by_cases hpf : d.cur.pendingField ≠ (f.num : Int)
      · rw [if_pos hpf] at h
        cases h
        exact ⟨fun _ => ⟨rfl, hnoop.symm⟩, fun he => absurd he.symm hpf⟩
      · rw [if_neg hpf] at h
        have hpf' : (f.num : Int) = d.cur.pendingField := (Decidable.of_not_not hpf).symm
        refine ⟨fun hne => absurd hpf' hne, fun _ => ?_⟩
        obtain ⟨⟨d1, a⟩, ho, h⟩ := bind_ok_inv h
        simp only [Res.pure_eq] at h
        cases h
        have hb : b ≠ [] := hta.frame.ne_nil (by omega)
        have hnumr : ((pendRec d.cur).num : Int) = (f.num : Int) := by
          rw [hpf']; exact toNat_cast_pending hta.frame hb
        obtain ⟨c, rfl, hf⟩ := castOne_fired (Inv := InvM S id) hL (f.cat == 1) (f.num : Int) hta hb hpf'
          (fun c => ctx (.some (.num c))) (fun c => hc.hI _ (hshape _)) (by
            rw [hc.h0 _ hnumr, hap]
            by_cases hw : (pendRec d.cur).wire ≠ 2
            · rw [if_pos hw, if_pos hw]; rfl
            · rw [if_neg hw, if_neg hw]
              simp only [Option.map_map]
              congr 1
              funext sn
              simp only [Function.comp, hr', hp, Bool.false_eq_true, ↓reduceIte]) ho
        exact hf
    · simp only [hp, Bool.false_eq_true, ↓reduceIte] at h
      obtain ⟨⟨d1, a⟩, ho, h⟩ := bind_ok_inv h
      simp only [Res.pure_eq] at h
      cases h
      refine ⟨fun hne => ?_, fun hpf' => ?_⟩
      · rw [castOne_noop _ _ _ hne] at ho
        cases ho
        exact ⟨rfl, hnoop.symm⟩
      · have hb : b ≠ [] := hta.frame.ne_nil (by omega)
        have hnumr : ((pendRec d.cur).num : Int) = (f.num : Int) := by
          rw [hpf']; exact toNat_cast_pending hta.frame hb
        obtain ⟨c, rfl, hf⟩ := castOne_fired (Inv := InvM S id) hL (f.cat == 1) (f.num : Int) hta hb hpf'
          (fun c => ctx (.num c)) (fun c => hc.hI _ (hshape _)) (by
            rw [hc.h0 _ hnumr, hap]
            by_cases hw : (pendRec d.cur).wire ≠ 2
            · rw [if_pos hw, if_pos hw]; rfl
            · rw [if_neg hw, if_neg hw]
              simp only [Option.map_map]
              congr 1
              funext sn
              simp only [Function.comp, hr', hp, Bool.false_eq_true, ↓reduceIte]) ho
        exact hf


theorem plainMsg_of (f : Field) (hcat : ¬ ((f.cat == 1) = true ∨ (f.cat == 2) = true)) (hr : f.repeated = false) :
    plainMsg f = true := by
  unfold plainMsg
  have h1 : (f.cat == 1) = false := by cases h : (f.cat == 1) <;> simp_all
  have h2 : (f.cat == 2) = false := by cases h : (f.cat == 2) <;> simp_all
  simp [h1, h2, hr]

theorem FinO.map {α β : Type} {o : Option α} {d : Dec} {a : α} (g : α → β) (h : FinO o d a) :
    FinO (o.map g) d (g a) := by
  rcases h with ⟨he, ho⟩ | ⟨he, ho⟩
  · exact Or.inl ⟨he, by rw [ho]; rfl⟩
  · exact Or.inr ⟨he, by rw [ho]; rfl⟩

/-- `if m.F == nil { m.F = new(T) }` -/
def unwrapP (S : Schema) (id' : Nat) : Val → Val
  | .some x => x
  | _ => zeroMsg S id'

theorem decInner_msg (S : Schema) (fuel id id' : Nat)
    (hpass : ∀ id', PassC (Spec.specUnmarshal S id') (Spec.stepU S id') (InvM S id') (decPass S fuel id'))
    (f : Field) (hk : f.kind = .message id')
    (hcat : ¬ ((f.cat == 1) = true ∨ (f.cat == 2) = true))
    {b : Bytes} {d : Dec} {m cur : Val} {ctx : Val → Val} (hta : TA b d) (hc : SlotCtx S id f m cur ctx)
    {d' : Dec} {cur' : Val} (h : decInner S fuel f d cur = .ok (d', cur')) :
    InnerC S id f m cur ctx b d d' cur' := by
  have hL := u_laws S id
  have hnum : (0 : Int) ≤ (f.num : Int) := by omega
  have loopU : ∀ {p : Bytes} {d1 d2 : Dec} {x x2 : Val}, TA p d1 → InvM S id' x →
      loop (decPass S fuel id') d1 x = .ok (d2, x2) →
      RunFin (Spec.specUnmarshal S id') (InvM S id') p x d2 x2 :=
    fun hta hI h => loop_refines (u_laws S id') (hpass id') (decPass_mono S fuel id') hta hI h
  unfold decInner at h
  simp only [hk, hcat, ↓reduceIte] at h
  by_cases hr : f.repeated = true
  · -- repeated message
    simp only [hr, ↓reduceIte] at h
    obtain ⟨⟨d1, xs⟩, hrr, h⟩ := bind_ok_inv h
    simp only [Res.pure_eq] at h
    cases h
    unfold repeatedMessage at hrr
    have hem : MonoFn (fun (d : Dec) (xs : List Val) => do
        let __x ← loop (decPass S fuel id') d (zeroMsg S id')
        pure (__x.fst, xs ++ [__x.snd])) := by
      intro d xs d2 t2 he
      obtain ⟨⟨d3, x⟩, hl, he⟩ := bind_ok_inv he
      cases he
      exact loop_mono _ (decPass_mono S fuel id') d _ d3 x hl
    have := repeatedMessageN_fired (Inv := InvM S id) hL (f.num : Int) hnum _ hem
      (fun t p => (Spec.specUnmarshal S id' p (zeroMsg S id')).map fun x => t ++ [x])
      (by
        intro t p d1 d2 t2 hta1 he
        obtain ⟨⟨d3, x⟩, hl, he⟩ := bind_ok_inv he
        cases he
        exact FinO.map _ (loopU hta1 (shMsg_zeroMsg S id') hl).1)
      (fun t p hb => by rw [(u_laws S id').bad hb]; rfl)
      (fun xs => ctx (.list xs))
      (fun xs => hc.hI _ (by
        rw [shVar_false]
        have h1 : nestedOk S f (.list xs) = true := by
          unfold nestedOk; rw [hk]; simp [plainMsg, hr]
        have h2 : normOk f (.list xs) = true := by unfold normOk; rw [hk]; simp
        rw [h1, h2]; rfl))
      (by
        intro t r hrn
        rw [hc.hctx (Or.inl hr) _ r hrn, applyU_message S f id' hk]
        by_cases hw : r.wire ≠ 2
        · rw [if_pos hw, if_pos hw]; rfl
        · rw [if_neg hw, if_neg hw, if_neg hcat, if_pos hr]
          simp only [Option.map_map]; rfl)
      _ b d _ _ xs hta hrr
    refine ⟨fun hne => ?_, fun hpf => ?_⟩
    · obtain ⟨e1, e2⟩ := this.1 hne
      refine ⟨e1, ?_⟩
      rw [e2]; unfold noopVal; rw [hk]; simp only [hr, ↓reduceIte]
    · have hf := this.2 hpf
      have hm := hc.hm (Or.inl hr)
      unfold noopVal at hm
      rw [hk] at hm
      simp only [hr, ↓reduceIte] at hm
      rw [hm]
      exact hf
  · have hr' : f.repeated = false := by cases hh : f.repeated <;> simp_all
    simp only [hr', Bool.false_eq_true, ↓reduceIte] at h
    have hnoop : noopVal f cur = cur := by
      unfold noopVal; rw [hk]; simp only [hr', Bool.false_eq_true, ↓reduceIte]
    have hplain := plainMsg_of f hcat hr'
    have hnorm : ∀ v, normOk f v = true := by
      intro v; unfold normOk; rw [hk]; simp [hr']
    have hnest := hc.hnest
    unfold nestedOk at hnest
    rw [hk] at hnest
    simp only [hplain, ↓reduceIte] at hnest
    by_cases hp : f.pointer S = true
    · -- pointer to a sub-message
      simp only [hp, ↓reduceIte] at h hnest
      refine ⟨fun hne => ?_, fun hpf' => ?_⟩
      · unfold message at h
        rw [if_pos hne] at h
        cases h
        exact ⟨rfl, hnoop.symm⟩
      · have hb : b ≠ [] := hta.frame.ne_nil (by omega)
        have hnumr : ((pendRec d.cur).num : Int) = (f.num : Int) := by
          rw [hpf']; exact toNat_cast_pending hta.frame hb
        have hIn : InvM S id' (unwrapP S id' cur) := by
          cases cur with
          | some x => exact hnest
          | _ => exact shMsg_zeroMsg S id'
        have hfm : MonoFn (fun (d : Dec) (cur : Val) => do
            let __x ← decPass S fuel id' d (match cur with | .some x => x | _ => zeroMsg S id')
            pure (__x.fst, __x.snd.some)) := by
          intro d c d2 t2 he
          obtain ⟨⟨d3, x⟩, hl, he⟩ := bind_ok_inv he
          cases he
          exact decPass_mono S fuel id' d _ d3 x hl
        refine message_fired (Inv := InvM S id) hL (f.num : Int) _ hfm
          (fun p => (Spec.specUnmarshal S id' p (unwrapP S id' cur)).map Val.some)
          (fun t => ∃ x, t = Val.some x ∧ InvM S id' x) ?_
          (fun p hb => by rw [(u_laws S id').bad hb]; rfl) hta hb hpf' ctx ?_ ?_ ?_ h
        · intro p d1 d2 t2 hta1 hl
          obtain ⟨x', hl', rfl⟩ := loop_wrap (decPass S fuel id') _ Val.some
            (unwrapP S id') (fun _ => rfl) (fun _ _ => rfl) hl
          have := loopU hta1 hIn hl'
          exact ⟨FinO.map _ this.1, fun he => ⟨x', rfl, this.2 he⟩⟩
        · rintro v ⟨x, rfl, hx⟩
          apply hc.hI
          rw [shVar_false, hnorm]
          unfold nestedOk; rw [hk]
          simp only [hplain, hp, ↓reduceIte, Bool.true_and]
          exact hx
        · intro hw
          rw [hc.h0 _ hnumr, applyU_message S f id' hk, if_pos hw]; rfl
        · intro hw
          rw [hc.h0 _ hnumr, applyU_message S f id' hk, if_neg (fun hne => hne hw), if_neg hcat, if_neg hr,
            if_pos hp]
          rfl
    · -- always-present sub-message
      simp only [hp, Bool.false_eq_true, ↓reduceIte] at h hnest
      refine ⟨fun hne => ?_, fun hpf' => ?_⟩
      · unfold message at h
        rw [if_pos hne] at h
        cases h
        exact ⟨rfl, hnoop.symm⟩
      · have hb : b ≠ [] := hta.frame.ne_nil (by omega)
        have hnumr : ((pendRec d.cur).num : Int) = (f.num : Int) := by
          rw [hpf']; exact toNat_cast_pending hta.frame hb
        refine message_fired (Inv := InvM S id) hL (f.num : Int) _ (decPass_mono S fuel id')
          (fun p => Spec.specUnmarshal S id' p cur) (InvM S id') ?_
          (fun p hb => (u_laws S id').bad hb _) hta hb hpf' ctx ?_ ?_ ?_ h
        · intro p d1 d2 t2 hta1 hl
          exact loopU hta1 hnest hl
        · intro v hv
          apply hc.hI
          rw [shVar_false, hnorm]
          unfold nestedOk; rw [hk]
          simp only [hplain, hp, Bool.false_eq_true, ↓reduceIte, Bool.true_and]
          exact hv
        · intro hw
          rw [hc.h0 _ hnumr, applyU_message S f id' hk, if_pos hw]; rfl
        · intro hw
          rw [hc.h0 _ hnumr, applyU_message S f id' hk, if_neg (fun hne => hne hw), if_neg hcat, if_neg hr,
            if_neg hp]


/-- every field kind -/
theorem decInner_fired (S : Schema) (fuel id : Nat)
    (hpass : ∀ id', PassC (Spec.specUnmarshal S id') (Spec.stepU S id') (InvM S id') (decPass S fuel id'))
    (f : Field) {b : Bytes} {d : Dec} {m cur : Val} {ctx : Val → Val} (hta : TA b d)
    (hc : SlotCtx S id f m cur ctx) {d' : Dec} {cur' : Val} (h : decInner S fuel f d cur = .ok (d', cur')) :
    InnerC S id f m cur ctx b d d' cur' := by
  cases hk : f.kind with
  | scalar k => exact decInner_scalar S fuel id f k hk hta hc h
  | enum => exact decInner_enum S fuel id f hk hta hc h
  | map k v => exact decInner_map S fuel id f k v hk hta hc h
  | message id' =>
    by_cases hcat : (f.cat == 1) = true ∨ (f.cat == 2) = true
    · exact decInner_cast S fuel id id' f hk hcat hta hc h
    · exact decInner_msg S fuel id id' hpass f hk hcat hta hc h

end Pico.Gen2
