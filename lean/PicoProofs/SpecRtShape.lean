import PicoProofs.SpecRtApply
/-
Task F, part 4: classification of well-typed field values into shapes, with the bytes the
canonical encoder writes for each.
-/
namespace Pico.SpecRt
open Pico Pico.Spec
open Pico.Wire

theorem wtField_some (S : Schema) (strict w : Bool) (f : Field) (v : Val) :
    wtField S strict w f (.some v) =
      if f.inOneof && !w then wtField S strict true f v
      else
        !f.repeated && f.pointer S &&
        (match f.kind with
         | .scalar k => scalarOk k v
         | .enum => false
         | .map _ _ => false
         | .message id =>
           if f.cat == 1 then (match v with | .num c => timeOk c && (!strict || !isZeroTime c) | _ => false)
           else if f.cat == 2 then (match v with | .num c => decide (c < 2 ^ 64) | _ => false)
           else wtMsg S strict id v) := by
  cases v <;> rfl

/-- the time code of an element of a repeated timestamp / duration field -/
def codeOf : Val → Nat
  | .some x => x.num!
  | x => x.num!

inductive Shape (S : Schema) (w : Bool) (f : Field) : Val → Bytes → Prop
  | none (hw : w = false) (hz : Gen2.zeroField S f = .none) : Shape S w f .none []
  | ptrScalar (k : Scalar) (y : Val) (hk : f.kind = .scalar k) (hr : f.repeated = false) (hp : f.pointer S = true)
      (hy : scalarOk k y = true) : Shape S w f (.some y) (field1 f.num k y.toSVal)
  | ptrTs (id' c : Nat) (hk : f.kind = .message id') (hc : f.cat = 1) (hr : f.repeated = false)
      (hp : f.pointer S = true) (hok : timeOk c = true) (hnz : isZeroTime c = false) :
      Shape S w f (.some (.num c)) (lenField f.num (tsPayload c))
  | ptrDur (id' c : Nat) (hk : f.kind = .message id') (hc : f.cat = 2) (hr : f.repeated = false)
      (hp : f.pointer S = true) (hok : c < 2 ^ 64) :
      Shape S w f (.some (.num c)) (lenField f.num (durPayload c))
  | ptrMsg (id' : Nat) (y : Val) (hk : f.kind = .message id') (hc1 : f.cat ≠ 1) (hc2 : f.cat ≠ 2)
      (hr : f.repeated = false) (hp : f.pointer S = true) (hy : wtMsg S true id' y = true) :
      Shape S w f (.some y) (lenField f.num (specEnc S id' y))
  | numScalar (k : Scalar) (n : Nat) (hk : f.kind = .scalar k) (hr : f.repeated = false) (hp : f.pointer S = false)
      (hb : k.isBytes = false) (hn : n < 2 ^ k.width) :
      Shape S w f (.num n) (if !w && isZeroVal k (.num n) then [] else field1 f.num k (.num n))
  | numEnum (n : Nat) (hk : f.kind = .enum) (hr : f.repeated = false) (hp : f.pointer S = false) (hn : n < 2 ^ 32) :
      Shape S w f (.num n) (if !w && n == 0 then [] else field1 f.num .int32 (.num n))
  | numTs (id' c : Nat) (hk : f.kind = .message id') (hc : f.cat = 1) (hr : f.repeated = false)
      (hp : f.pointer S = false) (hok : timeOk c = true) (hw : w = false) :
      Shape S w f (.num c) (tsField f.num c)
  | numDur (id' c : Nat) (hk : f.kind = .message id') (hc : f.cat = 2) (hr : f.repeated = false)
      (hp : f.pointer S = false) (hok : c < 2 ^ 64) (hw : w = false) :
      Shape S w f (.num c) (lenField f.num (durPayload c))
  | bytes (k : Scalar) (b : Bytes) (hk : f.kind = .scalar k) (hr : f.repeated = false) (hp : f.pointer S = false)
      (hb : k.isBytes = true) :
      Shape S w f (.bytes b) (if !w && b.isEmpty then [] else field1 f.num k (.bytes b))
  | msg (id' : Nat) (slots : List Val) (unrec : Bytes) (hk : f.kind = .message id') (hc1 : f.cat ≠ 1) (hc2 : f.cat ≠ 2)
      (hr : f.repeated = false) (hp : f.pointer S = false) (hy : wtMsg S true id' (.msg slots unrec) = true)
      (hne : w = true → specEnc S id' (.msg slots unrec) ≠ []) :
      Shape S w f (.msg slots unrec)
        (if (specEnc S id' (.msg slots unrec)).isEmpty then [] else lenField f.num (specEnc S id' (.msg slots unrec)))
  | listPacked (k : Scalar) (vs : List Val) (hk : f.kind = .scalar k) (hr : f.repeated = true) (hw : w = false)
      (hb : k.isBytes = false) (hall : ∀ v ∈ vs, scalarOk k v = true) :
      Shape S w f (.list vs)
        (if vs.isEmpty then [] else lenField f.num ((vs.map Val.toSVal).map fun v => scalarWire k v).flatten)
  | listBytes (k : Scalar) (vs : List Val) (hk : f.kind = .scalar k) (hr : f.repeated = true) (hw : w = false)
      (hb : k.isBytes = true) (hall : ∀ v ∈ vs, scalarOk k v = true) :
      Shape S w f (.list vs) (vs.map fun v => field1 f.num k v.toSVal).flatten
  | listEnum (vs : List Val) (hk : f.kind = .enum) (hr : f.repeated = true) (hw : w = false)
      (hall : ∀ v ∈ vs, scalarOk .int32 v = true) :
      Shape S w f (.list vs)
        (if vs.isEmpty then [] else lenField f.num ((vs.map Val.toSVal).map fun v => scalarWire .int32 v).flatten)
  | listTs (id' : Nat) (vs : List Val) (hk : f.kind = .message id') (hc : f.cat = 1) (hr : f.repeated = true)
      (hw : w = false)
      (hall : ∀ v ∈ vs, v = (if f.pointer S then .some (.num (codeOf v)) else .num (codeOf v)) ∧
        timeOk (codeOf v) = true ∧ isZeroTime (codeOf v) = false) :
      Shape S w f (.list vs) (vs.map fun v => lenField f.num (tsPayload (codeOf v))).flatten
  | listDur (id' : Nat) (vs : List Val) (hk : f.kind = .message id') (hc : f.cat = 2) (hr : f.repeated = true)
      (hw : w = false)
      (hall : ∀ v ∈ vs, v = (if f.pointer S then .some (.num (codeOf v)) else .num (codeOf v)) ∧
        codeOf v < 2 ^ 64) :
      Shape S w f (.list vs) (vs.map fun v => lenField f.num (durPayload (codeOf v))).flatten
  | listMsg (id' : Nat) (vs : List Val) (hk : f.kind = .message id') (hc1 : f.cat ≠ 1) (hc2 : f.cat ≠ 2)
      (hr : f.repeated = true) (hw : w = false) (hall : ∀ v ∈ vs, wtMsg S true id' v = true) :
      Shape S w f (.list vs) (vs.map fun v => lenField f.num (specEnc S id' v)).flatten
  | map (k v : Scalar) (es : List (Val × Val)) (hk : f.kind = .map k v) (hw : w = false)
      (hall : ∀ e ∈ es, scalarOk k e.1 = true ∧ scalarOk v e.2 = true) (hne : es ≠ [])
      (hnd : (es.map fun e => e.1.toSVal).Nodup) :
      Shape S w f (.map es) (mapEntries k v f.num es)

theorem scalarOk_num (k : Scalar) (n : Nat) : scalarOk k (.num n) = true ↔ k.isBytes = false ∧ n < 2 ^ k.width := by
  simp [scalarOk]

theorem scalarOk_bytes (k : Scalar) (b : Bytes) : scalarOk k (.bytes b) = true ↔ k.isBytes = true := by
  simp [scalarOk]

theorem tsField_of_nz (num c : Nat) (h : isZeroTime c = false) : tsField num c = lenField num (tsPayload c) := by
  unfold tsField; unfold isZeroTime at h; rw [h]; rfl

theorem encElems_eq (S : Schema) (num id : Nat) (vs : List Val) :
    encElems S num id vs = (vs.map fun v => lenField num (specEnc S id v)).flatten := by
  induction vs with
  | nil => rw [encElems]; rfl
  | cons v vs ih =>
    cases v <;> simp only [encElems, ih, List.map_cons, List.flatten_cons, specEnc]


theorem classify_some (S : Schema) (w : Bool) (f : Field) (hw : f.inOneof = w) (y : Val)
    (hwt : wtField S true w f (.some y) = true) : Shape S w f (.some y) (encField S w f (.some y)) := by
  rw [wtField_some] at hwt
  rw [encField.eq_2]
  simp only [hw, Bool.and_not_self, Bool.false_eq_true, ↓reduceIte, Bool.and_eq_true, Bool.not_eq_true'] at hwt ⊢
  obtain ⟨⟨hr, hp⟩, hm⟩ := hwt
  cases hk : f.kind with
  | scalar k =>
    simp only [hk] at hm ⊢
    exact Shape.ptrScalar k y hk hr hp hm
  | enum => simp only [hk] at hm; cases hm
  | map k v => simp only [hk] at hm; cases hm
  | message id' =>
    simp only [hk, beq_iff_eq] at hm ⊢
    by_cases hc1 : f.cat = 1
    · simp only [hc1, ↓reduceIte] at hm ⊢
      cases y with
      | num c =>
        simp only [Bool.not_true, Bool.false_or, Bool.and_eq_true, Bool.not_eq_true'] at hm
        simp only [Val.num!]
        rw [tsField_of_nz _ _ hm.2]
        exact Shape.ptrTs id' c hk hc1 hr hp hm.1 hm.2
      | _ => cases hm
    · by_cases hc2 : f.cat = 2
      · simp only [hc2, ↓reduceIte] at hm ⊢
        cases y with
        | num c =>
          simp at hm
          simp only [Val.num!, durField_eq]
          exact Shape.ptrDur id' c hk hc2 hr hp hm
        | _ => simp at hm
      · simp only [hc1, hc2, ↓reduceIte] at hm
        split
        · rename_i h; exact absurd h hc1
        · rename_i h; exact absurd h hc2
        · cases y with
          | msg slots unrec => exact Shape.ptrMsg id' _ hk hc1 hc2 hr hp hm
          | _ => simp [wtMsg] at hm


theorem inOneof_false_of_cat {S : Schema} {f : Field} (hF : FieldFacts S f) (hc : f.cat ≠ 0) : f.inOneof = false := by
  simp [Field.inOneof, hF.catOneof hc]

theorem classify_none (S : Schema) (w : Bool) (f : Field) (hw : f.inOneof = w) (hF : FieldFacts S f)
    (hwt : wtField S true w f .none = true) : Shape S w f .none (encField S w f .none) := by
  rw [encField.eq_1]
  simp only [wtField, hw, Bool.and_not_self, Bool.false_or, Bool.and_eq_true, Bool.not_eq_true',
    Bool.or_eq_true] at hwt
  obtain ⟨⟨hw0, hr⟩, hpm⟩ := hwt
  refine Shape.none hw0 ?_
  simp only [Gen2.zeroField, Gen2.zeroSlot, hw, hw0, hr, Bool.false_eq_true, ↓reduceIte]
  cases hk : f.kind with
  | scalar k =>
    simp only [hk] at hpm ⊢
    rcases hpm with hp | hp
    · simp [hp]
    · cases hp
  | enum =>
    simp only [hk] at hpm
    rcases hpm with hp | hp
    · rw [hF.enumNoPtr hk] at hp; cases hp
    · cases hp
  | map k v => rfl
  | message id' =>
    simp only [hk] at hpm ⊢
    rcases hpm with hp | hp
    · simp [hp]
    · cases hp

theorem classify_num (S : Schema) (w : Bool) (f : Field) (hw : f.inOneof = w) (hF : FieldFacts S f) (n : Nat)
    (hwt : wtField S true w f (.num n) = true) : Shape S w f (.num n) (encField S w f (.num n)) := by
  rw [encField.eq_3]
  simp only [wtField, hw, Bool.and_eq_true, Bool.not_eq_true'] at hwt
  obtain ⟨⟨⟨_, hr⟩, hp⟩, hm⟩ := hwt
  cases hk : f.kind with
  | scalar k =>
    simp only [hk] at hm ⊢
    rw [scalarOk_num] at hm
    exact Shape.numScalar k n hk hr hp hm.1 hm.2
  | enum =>
    simp only [hk, decide_eq_true_eq] at hm ⊢
    exact Shape.numEnum n hk hr hp hm
  | map k v => simp only [hk] at hm; cases hm
  | message id' =>
    simp only [hk, Bool.or_eq_true, Bool.and_eq_true, beq_iff_eq, decide_eq_true_eq] at hm ⊢
    rcases hm with ⟨hc, hok⟩ | ⟨hc, hok⟩
    · have hw0 : w = false := by rw [← hw]; exact inOneof_false_of_cat hF (by omega)
      simp only [hc]
      exact Shape.numTs id' n hk hc hr hp hok hw0
    · have hw0 : w = false := by rw [← hw]; exact inOneof_false_of_cat hF (by omega)
      simp only [hc, durField_eq]
      exact Shape.numDur id' n hk hc hr hp hok hw0

theorem classify_bytes (S : Schema) (w : Bool) (f : Field) (hw : f.inOneof = w) (b : Bytes)
    (hwt : wtField S true w f (.bytes b) = true) : Shape S w f (.bytes b) (encField S w f (.bytes b)) := by
  rw [encField.eq_4]
  simp only [wtField, hw, Bool.and_eq_true, Bool.not_eq_true'] at hwt
  obtain ⟨⟨⟨_, hr⟩, hp⟩, hm⟩ := hwt
  cases hk : f.kind with
  | scalar k =>
    simp only [hk] at hm ⊢
    rw [scalarOk_bytes] at hm
    exact Shape.bytes k b hk hr hp hm
  | enum => simp only [hk] at hm; cases hm
  | map k v => simp only [hk] at hm; cases hm
  | message id' => simp only [hk] at hm; cases hm

theorem classify_msg (S : Schema) (w : Bool) (f : Field) (hw : f.inOneof = w) (slots : List Val) (unrec : Bytes)
    (hwt : wtField S true w f (.msg slots unrec) = true) :
    Shape S w f (.msg slots unrec) (encField S w f (.msg slots unrec)) := by
  rw [encField.eq_5]
  simp only [wtField, hw, Bool.and_eq_true, Bool.not_eq_true', beq_iff_eq] at hwt
  obtain ⟨⟨⟨⟨_, hr⟩, hp⟩, hc⟩, hm⟩ := hwt
  cases hk : f.kind with
  | message id' =>
    simp only [hk, Bool.and_eq_true, Bool.or_eq_true, Bool.not_eq_true', Bool.true_and] at hm ⊢
    obtain ⟨hm1, hm2⟩ := hm
    have hy : wtMsg S true id' (.msg slots unrec) = true := by
      rw [wtMsg.eq_1]
      simp only [Bool.and_eq_true]
      exact hm1
    refine Shape.msg id' slots unrec hk (by omega) (by omega) hr hp hy ?_
    intro hw1
    rw [hw1] at hm2
    simp only [Bool.true_eq_false, false_or] at hm2
    intro he
    simp only [specEnc] at he
    rw [he] at hm2
    simp at hm2
  | scalar k => simp only [hk] at hm; cases hm
  | enum => simp only [hk] at hm; cases hm
  | map k v => simp only [hk] at hm; cases hm


theorem classify_list (S : Schema) (w : Bool) (f : Field) (hw : f.inOneof = w) (vs : List Val)
    (hwt : wtField S true w f (.list vs) = true) : Shape S w f (.list vs) (encField S w f (.list vs)) := by
  rw [encField.eq_6]
  rw [show wtField S true w f (.list vs) = (!f.inOneof && f.repeated &&
    (match f.kind with
     | .scalar k => vs.all (scalarOk k)
     | .enum => vs.all (fun v => match v with | .num n => n < 2 ^ 32 | _ => false)
     | .map _ _ => false
     | .message id =>
       if f.cat == 1 then
         vs.all (fun v => if f.pointer S then (match v with | .some (.num c) => timeOk c && (!true || !isZeroTime c) | _ => false)
                          else (match v with | .num c => timeOk c && (!true || !isZeroTime c) | _ => false))
       else if f.cat == 2 then
         vs.all (fun v => if f.pointer S then (match v with | .some (.num c) => c < 2 ^ 64 | _ => false)
                          else (match v with | .num c => c < 2 ^ 64 | _ => false))
       else wtElems S true id vs)) from rfl] at hwt
  simp only [hw, Bool.and_eq_true, Bool.not_eq_true'] at hwt
  obtain ⟨⟨hw0, hr⟩, hm⟩ := hwt
  cases hk : f.kind with
  | scalar k =>
    simp only [hk, List.all_eq_true] at hm ⊢
    cases hb : k.isBytes with
    | false =>
      simp only [packed, hb, Bool.false_eq_true, ↓reduceIte]
      exact Shape.listPacked k vs hk hr hw0 hb hm
    | true =>
      have : (if vs.isEmpty = true then [] else packed k f.num (vs.map Val.toSVal)) =
          (vs.map fun v => field1 f.num k v.toSVal).flatten := by
        cases vs with
        | nil => rfl
        | cons a as => simp only [List.isEmpty_cons, Bool.false_eq_true, ↓reduceIte, packed, hb, List.map_map]; rfl
      rw [this]
      exact Shape.listBytes k vs hk hr hw0 hb hm
  | enum =>
    simp only [hk, List.all_eq_true] at hm ⊢
    simp only [packed, Scalar.isBytes, Bool.false_eq_true, ↓reduceIte]
    refine Shape.listEnum vs hk hr hw0 ?_
    intro v hv
    have := hm v hv
    cases v with
    | num n => rw [scalarOk_num]; exact ⟨rfl, by simpa [Scalar.width] using this⟩
    | _ => simp at this
  | map k v => simp only [hk] at hm; cases hm
  | message id' =>
    simp only [hk, beq_iff_eq] at hm ⊢
    by_cases hc1 : f.cat = 1
    · simp only [hc1, ↓reduceIte, List.all_eq_true] at hm ⊢
      have hall : ∀ v ∈ vs, v = (if f.pointer S then .some (.num (codeOf v)) else .num (codeOf v)) ∧
          timeOk (codeOf v) = true ∧ isZeroTime (codeOf v) = false := by
        intro v hv
        have := hm v hv
        cases hp : f.pointer S with
        | true =>
          simp only [hp, ↓reduceIte] at this ⊢
          cases v with
          | some y =>
            cases y with
            | num c => simpa [codeOf, Val.num!] using this
            | _ => simp at this
          | _ => simp at this
        | false =>
          simp only [hp, Bool.false_eq_true, ↓reduceIte] at this ⊢
          cases v with
          | num c => simpa [codeOf, Val.num!] using this
          | _ => simp at this
      have key : ∀ (F : Val → Bytes), (∀ v ∈ vs, F v = lenField f.num (tsPayload (codeOf v))) →
          Shape S w f (.list vs) (vs.map F).flatten := by
        intro F hF; rw [List.map_congr_left hF]; exact Shape.listTs id' vs hk hc1 hr hw0 hall
      apply key
      intro v hv
      obtain ⟨h1, _, h3⟩ := hall v hv
      rw [← tsField_of_nz _ _ h3]
      cases hp : f.pointer S <;> simp only [hp, Bool.false_eq_true, ↓reduceIte] at h1 <;> rw [h1] <;> simp [codeOf]
    · by_cases hc2 : f.cat = 2
      · simp only [hc2, show ¬ ((2 : Nat) = 1) by decide, ↓reduceIte, List.all_eq_true] at hm ⊢
        have hm : ∀ v ∈ vs, (if f.pointer S then (match v with | .some (.num c) => decide (c < 2 ^ 64) | _ => false)
                          else (match v with | .num c => decide (c < 2 ^ 64) | _ => false)) = true := by
          intro v hv; simpa using hm v hv
        have hall : ∀ v ∈ vs, v = (if f.pointer S then .some (.num (codeOf v)) else .num (codeOf v)) ∧
            codeOf v < 2 ^ 64 := by
          intro v hv
          have := hm v hv
          cases hp : f.pointer S with
          | true =>
            simp only [hp, ↓reduceIte] at this ⊢
            cases v with
            | some y =>
              cases y with
              | num c => simpa [codeOf, Val.num!] using this
              | _ => simp at this
            | _ => simp at this
          | false =>
            simp only [hp, Bool.false_eq_true, ↓reduceIte] at this ⊢
            cases v with
            | num c => simpa [codeOf, Val.num!] using this
            | _ => simp at this
        have key : ∀ (F : Val → Bytes), (∀ v ∈ vs, F v = lenField f.num (durPayload (codeOf v))) →
            Shape S w f (.list vs) (vs.map F).flatten := by
          intro F hF; rw [List.map_congr_left hF]; exact Shape.listDur id' vs hk hc2 hr hw0 hall
        apply key
        intro v hv
        obtain ⟨h1, _⟩ := hall v hv
        cases hp : f.pointer S <;> simp only [hp, Bool.false_eq_true, ↓reduceIte] at h1 <;> rw [h1] <;>
          simp [codeOf, durField_eq]
      · simp only [hc1, hc2, ↓reduceIte] at hm
        split
        · rename_i h; exact absurd h hc1
        · rename_i h; exact absurd h hc2
        · rw [encElems_eq]
          refine Shape.listMsg id' vs hk hc1 hc2 hr hw0 ?_
          clear hk hr
          induction vs with
          | nil => intro v hv; cases hv
          | cons a as ih =>
            rw [wtElems.eq_2, Bool.and_eq_true] at hm
            intro v hv
            rcases List.mem_cons.mp hv with rfl | hv
            · exact hm.1
            · exact ih hm.2 v hv

theorem classify_map (S : Schema) (w : Bool) (f : Field) (hw : f.inOneof = w) (es : List (Val × Val))
    (hwt : wtField S true w f (.map es) = true) : Shape S w f (.map es) (encField S w f (.map es)) := by
  rw [encField.eq_7]
  simp only [wtField, hw, Bool.and_eq_true, Bool.not_eq_true'] at hwt
  obtain ⟨hw0, hm⟩ := hwt
  cases hk : f.kind with
  | map k v =>
    simp only [hk, Bool.and_eq_true, List.all_eq_true, Bool.not_true, Bool.false_or, Bool.not_eq_true',
      decide_eq_true_eq] at hm ⊢
    obtain ⟨h1, h2, h3⟩ := hm
    refine Shape.map k v es hk hw0 h1 ?_ h3
    intro he; rw [he] at h2; cases h2
  | scalar k => simp only [hk] at hm; cases hm
  | enum => simp only [hk] at hm; cases hm
  | message id' => simp only [hk] at hm; cases hm

theorem classify (S : Schema) (w : Bool) (f : Field) (hw : f.inOneof = w) (hF : FieldFacts S f) (x : Val)
    (hwt : wtField S true w f x = true) : Shape S w f x (encField S w f x) := by
  cases x with
  | none => exact classify_none S w f hw hF hwt
  | some y => exact classify_some S w f hw y hwt
  | num n => exact classify_num S w f hw hF n hwt
  | bytes b => exact classify_bytes S w f hw b hwt
  | msg slots unrec => exact classify_msg S w f hw slots unrec hwt
  | list vs => exact classify_list S w f hw vs hwt
  | map es => exact classify_map S w f hw es hwt

end Pico.SpecRt
