import PicoModel.Gen.GoWire
import PicoProofs.WireLemmas
/-
Tie between the statement-level translation of `internal/protowire/wire.go` and `conv.go appendTag`
(`PicoModel/Gen/GoWire.lean`, regenerated from the Go source on every run) and the hand model
`PicoModel/Wire.lean`: every theorem is "translated Go function = model function", for all arguments
(`uint64` arguments below 2^64, slices shorter than 2^63).
-/
namespace Pico.GoTie.W
open Pico Pico.Wire

def M : Nat := 18446744073709551616

/-- forward (accumulating) form of ConsumeVarint from byte index `idx ≥ 1`, Go arithmetic -/
def cvFwd : Nat → Nat → Bytes → Nat × Int
  | _, _, [] => (0, -1)
  | idx, v, y :: bs =>
    let v' := (v + (y.toNat * 2 ^ (7 * idx)) % 18446744073709551616) % 18446744073709551616
    if idx = 9 then (if y.toNat < 2 then (v', 10) else (0, -3))
    else if y.toNat < 128 then (v', (idx : Int) + 1)
    else cvFwd (idx + 1) ((v' + 18446744073709551616 - 128 * 2 ^ (7 * idx)) % 18446744073709551616) bs

def cvFwd0 : Bytes → Nat × Int
  | [] => (0, -1)
  | y :: bs => if y.toNat < 128 then (y.toNat, 1) else cvFwd 1 ((y.toNat + 18446744073709551616 - 128) % 18446744073709551616) bs

theorem gen_eq_fwd (b : Bytes) : GoSrc.Wire.consumeVarint b = .ok (cvFwd0 b) := by
  unfold GoSrc.Wire.consumeVarint
  rcases b with _ | ⟨y0, _ | ⟨y1, _ | ⟨y2, _ | ⟨y3, _ | ⟨y4, _ | ⟨y5, _ | ⟨y6, _ | ⟨y7, _ | ⟨y8, _ | ⟨y9, rest⟩⟩⟩⟩⟩⟩⟩⟩⟩⟩
  case cons.cons.cons.cons.cons.cons.cons.cons.cons.cons =>
    have hl : Go.len (y0 :: y1 :: y2 :: y3 :: y4 :: y5 :: y6 :: y7 :: y8 :: y9 :: rest) = (rest.length : Int) + 10 := by
      simp [Go.len]; omega
    generalize hL : Go.len (y0 :: y1 :: y2 :: y3 :: y4 :: y5 :: y6 :: y7 :: y8 :: y9 :: rest) = L at hl
    simp only [show ¬ (L = 0) by omega, show ¬ L ≤ 1 by omega, show ¬ L ≤ 2 by omega, show ¬ L ≤ 3 by omega,
      show ¬ L ≤ 4 by omega, show ¬ L ≤ 5 by omega, show ¬ L ≤ 6 by omega, show ¬ L ≤ 7 by omega,
      show ¬ L ≤ 8 by omega, show ¬ L ≤ 9 by omega, if_false]
    simp [cvFwd0, cvFwd, Go.index]
    simp only [apply_ite (Res.ok (α := Nat × Int))]
  all_goals simp [cvFwd0, cvFwd, Go.len, Go.index]
  all_goals (first | rfl | simp only [apply_ite (Res.ok (α := Nat × Int))])

/-- what `cvFwd idx v bs` must be in terms of the hand model's recursive `consumeVarintAux` -/
def viaAux (idx v : Nat) (bs : Bytes) : Nat × Int :=
  let r := consumeVarintAux idx bs
  if r.2 < 0 then (0, r.2) else (v + r.1, r.2 + idx)

theorem fwd9 (v : Nat) (bs : Bytes) (hv : v < 2 ^ 63) : cvFwd 9 v bs = viaAux 9 v bs := by
  rcases bs with _ | ⟨y, bs⟩
  · simp [cvFwd, viaAux, consumeVarintAux, errTruncated]
  · have hy := y.isLt
    simp only [cvFwd, viaAux, consumeVarintAux, if_true, Nat.shiftLeft_eq, errOverflow]
    by_cases h2 : y.toNat < 2
    · simp only [h2, if_true]
      have : ¬ ((1 : Int) < 0) := by omega
      simp only [this, if_false, Prod.mk.injEq]
      constructor <;> omega
    · simp [h2]

macro "fwd_step" n:num m:num next:term : tactic => `(tactic| (
  intro v bs hv
  rcases bs with _ | ⟨y, bs⟩
  · simp [cvFwd, viaAux, consumeVarintAux, errTruncated]
  · have hy := y.isLt
    rw [cvFwd]
    simp only [viaAux, consumeVarintAux, Nat.shiftLeft_eq, show ¬ (($n : Nat) = 9) from by omega, if_false, Nat.reduceMul, Nat.reducePow, Nat.reduceAdd]
    by_cases h128 : y.toNat < 128
    · simp only [h128, if_true]
      have : ¬ ((1 : Int) < 0) := by omega
      simp only [this, if_false, Prod.mk.injEq]
      constructor <;> omega
    · simp only [h128, if_false]
      rw [$next _ _ (by omega)]
      simp only [viaAux]
      split
      · rename_i hneg; simp only [hneg, if_true]
      · rename_i hneg
        have : ¬ ((consumeVarintAux $m bs).2 + 1 < 0) := by omega
        simp only [hneg, this, if_false, Prod.mk.injEq]
        constructor <;> omega))

theorem fwd8 : ∀ (v : Nat) (bs : Bytes), v < 2 ^ 56 → cvFwd 8 v bs = viaAux 8 v bs := by fwd_step 8 9 fwd9
theorem fwd7 : ∀ (v : Nat) (bs : Bytes), v < 2 ^ 49 → cvFwd 7 v bs = viaAux 7 v bs := by fwd_step 7 8 fwd8
theorem fwd6 : ∀ (v : Nat) (bs : Bytes), v < 2 ^ 42 → cvFwd 6 v bs = viaAux 6 v bs := by fwd_step 6 7 fwd7
theorem fwd5 : ∀ (v : Nat) (bs : Bytes), v < 2 ^ 35 → cvFwd 5 v bs = viaAux 5 v bs := by fwd_step 5 6 fwd6
theorem fwd4 : ∀ (v : Nat) (bs : Bytes), v < 2 ^ 28 → cvFwd 4 v bs = viaAux 4 v bs := by fwd_step 4 5 fwd5
theorem fwd3 : ∀ (v : Nat) (bs : Bytes), v < 2 ^ 21 → cvFwd 3 v bs = viaAux 3 v bs := by fwd_step 3 4 fwd4
theorem fwd2 : ∀ (v : Nat) (bs : Bytes), v < 2 ^ 14 → cvFwd 2 v bs = viaAux 2 v bs := by fwd_step 2 3 fwd3
theorem fwd1 : ∀ (v : Nat) (bs : Bytes), v < 2 ^ 7 → cvFwd 1 v bs = viaAux 1 v bs := by fwd_step 1 2 fwd2

theorem fwd0 (b : Bytes) : cvFwd0 b = Wire.consumeVarint b := by
  rcases b with _ | ⟨y, bs⟩
  · simp [cvFwd0, Wire.consumeVarint, consumeVarintAux, errTruncated]
  · have hy := y.isLt
    simp only [cvFwd0, Wire.consumeVarint, consumeVarintAux, Nat.shiftLeft_eq, show ¬ ((0 : Nat) = 9) from by omega, if_false, Nat.reduceMul, Nat.reducePow, Nat.reduceAdd]
    by_cases h128 : y.toNat < 128
    · simp [h128]
    · simp only [h128, if_false]
      rw [fwd1 _ _ (by omega)]
      simp only [viaAux]
      split
      · rfl
      · simp only [Prod.mk.injEq]
        constructor <;> omega

theorem consumeVarint_eq (b : Bytes) : GoSrc.Wire.consumeVarint b = .ok (Wire.consumeVarint b) := by
  rw [gen_eq_fwd, fwd0]

theorem or128 : ∀ x : Fin 128, x.val ||| 128 = x.val + 128 := by decide

theorem varint_last (v : Nat) (h : v < 128) : varint v = [byteOfNat v] := by
  rw [varint]; simp [h]

theorem varint_step (v : Nat) (h : ¬ v < 128) :
    varint v = byteOfNat ((v / 1) % 128 ||| 128) :: varint (v / 128) := by
  rw [varint]; simp only [h, if_false, Nat.div_one]
  have := or128 ⟨v % 128, Nat.mod_lt _ (by decide)⟩
  simp only at this
  rw [this]

theorem varint_step' (v k : Nat) (h : ¬ v / k < 128) :
    varint (v / k) = byteOfNat ((v / k) % 128 ||| 128) :: varint (v / (k * 128)) := by
  rw [varint]; simp only [h, if_false]
  have := or128 ⟨(v / k) % 128, Nat.mod_lt _ (by decide)⟩
  simp only at this
  rw [this, Nat.div_div_eq_div_mul]

theorem appendVarint_eq (b : Bytes) (v : Nat) (hv : v < 18446744073709551616) :
    GoSrc.Wire.appendVarint b v = .ok (b ++ varint v) := by
  unfold GoSrc.Wire.appendVarint
  by_cases h1 : v < 128
  · simp [h1, varint_last v h1]
  rw [varint_step v h1]
  simp only [h1, if_false]
  by_cases h2 : v < 16384
  · simp [h2, varint_last (v / 128) (by omega)]
  rw [varint_step' v 128 (by omega)]
  simp only [h2, if_false, Nat.reduceMul]
  by_cases h3 : v < 2097152
  · simp [h3, varint_last (v / 16384) (by omega)]
  rw [varint_step' v 16384 (by omega)]
  simp only [h3, if_false, Nat.reduceMul]
  by_cases h4 : v < 268435456
  · simp [h4, varint_last (v / 2097152) (by omega)]
  rw [varint_step' v 2097152 (by omega)]
  simp only [h4, if_false, Nat.reduceMul]
  by_cases h5 : v < 34359738368
  · simp [h5, varint_last (v / 268435456) (by omega)]
  rw [varint_step' v 268435456 (by omega)]
  simp only [h5, if_false, Nat.reduceMul]
  by_cases h6 : v < 4398046511104
  · simp [h6, varint_last (v / 34359738368) (by omega)]
  rw [varint_step' v 34359738368 (by omega)]
  simp only [h6, if_false, Nat.reduceMul]
  by_cases h7 : v < 562949953421312
  · simp [h7, varint_last (v / 4398046511104) (by omega)]
  rw [varint_step' v 4398046511104 (by omega)]
  simp only [h7, if_false, Nat.reduceMul]
  by_cases h8 : v < 72057594037927936
  · simp [h8, varint_last (v / 562949953421312) (by omega)]
  rw [varint_step' v 562949953421312 (by omega)]
  simp only [h8, if_false, Nat.reduceMul]
  by_cases h9 : v < 9223372036854775808
  · simp [h9, varint_last (v / 72057594037927936) (by omega)]
  rw [varint_step' v 72057594037927936 (by omega)]
  simp only [h9, if_false, Nat.reduceMul]
  have hl : v / 9223372036854775808 = 1 := by omega
  simp [hl, byteOfNat]
  rw [varint_last 1 (by omega)]; rfl

theorem numberIsValid_eq (n : Int) : GoSrc.Wire.numberIsValid n = Wire.numberIsValid n := by
  simp [GoSrc.Wire.numberIsValid, Wire.numberIsValid]

theorem decodeTag_eq (x : Nat) : GoSrc.Wire.decodeTag x = .ok (Wire.decodeTag x) := by
  unfold GoSrc.Wire.decodeTag Wire.decodeTag
  split
  · rfl
  · have : Go.wrapS 32 (Int.ofNat (x / 8)) = Int.ofNat (x / 8) := by
      unfold Go.wrapS
      simp only [show (2:Int)^32 = 4294967296 from by decide, show (2:Int)^(32-1) = 2147483648 from by decide, Int.ofNat_eq_natCast]
      split <;> omega
    rw [this]; rfl

theorem or_shift (a b k : Nat) (h : a < 2 ^ k) : a ||| b * 2 ^ k = a + b * 2 ^ k := by
  rw [Nat.add_comm, ← Nat.shiftLeft_eq, Nat.shiftLeft_add_eq_or_of_lt h, Nat.or_comm]

theorem or_shift' (a b K : Nat) (k : Nat) (hK : K = 2 ^ k) (h : a < K) : a ||| b * K = a + b * K := by
  subst hK; exact or_shift a b k h

theorem le32 (a b c d : Nat) (ha : a < 256) (hb : b < 256) (hc : c < 256) (hd : d < 256) :
    a % 4294967296 ||| b * 256 % 4294967296 ||| c * 65536 % 4294967296 ||| d * 16777216 % 4294967296
      = a + b * 256 + c * 65536 + d * 16777216 := by
  rw [Nat.mod_eq_of_lt (by omega : a < 4294967296), Nat.mod_eq_of_lt (by omega : b * 256 < 4294967296),
    Nat.mod_eq_of_lt (by omega : c * 65536 < 4294967296), Nat.mod_eq_of_lt (by omega : d * 16777216 < 4294967296)]
  rw [or_shift' a b 256 8 (by decide) ha, or_shift' _ c 65536 16 (by decide) (by omega),
    or_shift' _ d 16777216 24 (by decide) (by omega)]

theorem le64 (a b c d e f g h : Nat) (ha : a < 256) (hb : b < 256) (hc : c < 256) (hd : d < 256)
    (he : e < 256) (hf : f < 256) (hg : g < 256) (hh : h < 256) :
    a % 18446744073709551616 ||| b * 256 % 18446744073709551616 ||| c * 65536 % 18446744073709551616
      ||| d * 16777216 % 18446744073709551616 ||| e * 4294967296 % 18446744073709551616
      ||| f * 1099511627776 % 18446744073709551616 ||| g * 281474976710656 % 18446744073709551616
      ||| h * 72057594037927936 % 18446744073709551616
      = a + b * 256 + c * 65536 + d * 16777216 + (e + f * 256 + g * 65536 + h * 16777216) * 4294967296 := by
  rw [Nat.mod_eq_of_lt (by omega : a < 18446744073709551616), Nat.mod_eq_of_lt (by omega : b * 256 < 18446744073709551616),
    Nat.mod_eq_of_lt (by omega : c * 65536 < 18446744073709551616), Nat.mod_eq_of_lt (by omega : d * 16777216 < 18446744073709551616),
    Nat.mod_eq_of_lt (by omega : e * 4294967296 < 18446744073709551616), Nat.mod_eq_of_lt (by omega : f * 1099511627776 < 18446744073709551616),
    Nat.mod_eq_of_lt (by omega : g * 281474976710656 < 18446744073709551616), Nat.mod_eq_of_lt (by omega : h * 72057594037927936 < 18446744073709551616)]
  rw [or_shift' a b 256 8 (by decide) ha, or_shift' _ c 65536 16 (by decide) (by omega),
    or_shift' _ d 16777216 24 (by decide) (by omega), or_shift' _ e 4294967296 32 (by decide) (by omega),
    or_shift' _ f 1099511627776 40 (by decide) (by omega), or_shift' _ g 281474976710656 48 (by decide) (by omega),
    or_shift' _ h 72057594037927936 56 (by decide) (by omega)]
  omega

theorem consumeFixed32_eq (b : Bytes) : GoSrc.Wire.consumeFixed32 b = .ok (Wire.consumeFixed32 b) := by
  unfold GoSrc.Wire.consumeFixed32 Wire.consumeFixed32
  rcases b with _ | ⟨y0, _ | ⟨y1, _ | ⟨y2, _ | ⟨y3, rest⟩⟩⟩⟩
  case cons.cons.cons.cons =>
    have h0 := y0.isLt; have h1 := y1.isLt; have h2 := y2.isLt; have h3 := y3.isLt
    have hl : ¬ (Go.len (y0 :: y1 :: y2 :: y3 :: rest) < 4) := by simp [Go.len]; omega
    have hl' : (Go.len (y0 :: y1 :: y2 :: y3 :: rest) ≥ 4) := by simp [Go.len]; omega
    simp only [hl, hl', if_false, if_true, not_true_eq_false, not_false_eq_true]
    simp [Go.index]
    exact le32 _ _ _ _ h0 h1 h2 h3
  all_goals first | (simp [Go.len, errTruncated]; done) | (simp [Go.len, errTruncated] <;> omega)

theorem consumeFixed64_eq (b : Bytes) : GoSrc.Wire.consumeFixed64 b = .ok (Wire.consumeFixed64 b) := by
  unfold GoSrc.Wire.consumeFixed64 Wire.consumeFixed64
  rcases b with _ | ⟨y0, _ | ⟨y1, _ | ⟨y2, _ | ⟨y3, _ | ⟨y4, _ | ⟨y5, _ | ⟨y6, _ | ⟨y7, rest⟩⟩⟩⟩⟩⟩⟩⟩
  case cons.cons.cons.cons.cons.cons.cons.cons =>
    have h0 := y0.isLt; have h1 := y1.isLt; have h2 := y2.isLt; have h3 := y3.isLt
    have h4 := y4.isLt; have h5 := y5.isLt; have h6 := y6.isLt; have h7 := y7.isLt
    have hl : ¬ (Go.len (y0 :: y1 :: y2 :: y3 :: y4 :: y5 :: y6 :: y7 :: rest) < 8) := by simp [Go.len]; omega
    simp only [hl, if_false]
    simp [Go.index]
    exact le64 _ _ _ _ _ _ _ _ h0 h1 h2 h3 h4 h5 h6 h7
  all_goals simp [Go.len, errTruncated]

theorem toU_len (l : Bytes) (h : l.length < 9223372036854775808) : Go.toU 64 (Go.len l) = l.length := by
  unfold Go.toU Go.len
  simp only [show (2:Int)^64 = 18446744073709551616 from by decide]
  omega

theorem consumeBytes_eq (b : Bytes) (hb : b.length < 9223372036854775808) :
    GoSrc.Wire.consumeBytes b = .ok (Wire.consumeBytes b) := by
  unfold GoSrc.Wire.consumeBytes Wire.consumeBytes
  simp only [consumeVarint_eq, Res.bind_ok]
  by_cases hneg : (consumeVarint b).2 < 0
  · simp [hneg]
  · have hp := consumeVarint_progress b (by omega)
    have hs : Go.sliceFrom b (consumeVarint b).2 = .ok (b.drop (consumeVarint b).2.toNat) := by
      unfold Go.sliceFrom; rw [if_pos (by omega)]
    have hl : (b.drop (consumeVarint b).2.toNat).length < 9223372036854775808 := by
      simp only [List.length_drop]; omega
    simp only [hneg, if_false, hs, Res.bind_ok, toU_len _ hl]
    split
    · rfl
    · rename_i hgt
      have : Go.sliceTo (b.drop (consumeVarint b).2.toNat) ((consumeVarint b).1 : Int)
          = .ok ((b.drop (consumeVarint b).2.toNat).take (consumeVarint b).1) := by
        unfold Go.sliceTo; rw [if_pos]
        · simp
        · constructor
          · simp
          · omega
      simp [this]

theorem consumeTag_eq (b : Bytes) : GoSrc.Wire.consumeTag b = .ok (Wire.consumeTag b) := by
  unfold GoSrc.Wire.consumeTag Wire.consumeTag
  simp only [consumeVarint_eq, decodeTag_eq, Res.bind_ok]
  split
  · rfl
  · split <;> rfl

theorem byteOfNat_congr (a b : Nat) (h : a % 256 = b % 256) : byteOfNat a = byteOfNat b := by
  apply BitVec.eq_of_toNat_eq
  simp only [byteOfNat, BitVec.toNat_ofNat]
  exact h

theorem appendFixed32_eq (b : Bytes) (v : Nat) : GoSrc.Wire.appendFixed32 b v = .ok (b ++ fixed32 v) := by
  simp [GoSrc.Wire.appendFixed32, fixed32]

theorem appendFixed64_eq (b : Bytes) (v : Nat) : GoSrc.Wire.appendFixed64 b v = .ok (b ++ fixed64 v) := by
  simp [GoSrc.Wire.appendFixed64, fixed64, fixed32]
  refine ⟨?_, ?_, ?_, ?_, ?_, ?_, ?_⟩ <;> apply byteOfNat_congr <;> omega

theorem appendBytes_eq (b v : Bytes) (hv : v.length < 9223372036854775808) :
    GoSrc.Wire.appendBytes b v = .ok (b ++ lenPrefixed v) := by
  unfold GoSrc.Wire.appendBytes lenPrefixed
  rw [toU_len v hv, appendVarint_eq _ _ (by omega)]
  simp

theorem encodeTag_lt64 (num : Int) (typ : Nat) : encodeTag num typ < 18446744073709551616 := by
  unfold encodeTag
  omega

theorem appendTag_eq (b : Bytes) (num : Int) (typ : Nat) :
    GoSrc.Wire.appendTag b num typ = .ok (b ++ tag num typ) := by
  unfold GoSrc.Wire.appendTag tag
  rw [appendVarint_eq _ _ (encodeTag_lt64 num typ)]

theorem or128fin : ∀ y : Fin 256, y.val ||| 128 = y.val % 128 + 128 := by decide +kernel

theorem or128byte (x : Nat) : byteOfNat x ||| (128 : Byte) = byteOfNat (x % 128 + 128) := by
  apply BitVec.eq_of_toNat_eq
  have := or128fin ⟨x % 256, Nat.mod_lt _ (by decide)⟩
  simp only at this
  have h128 : (128 : Byte).toNat = 128 := by decide
  simp only [byteOfNat, BitVec.toNat_or, BitVec.toNat_ofNat, h128, this]
  omega

/-- conv.go `appendTag`: its own varint loop -/
theorem convLoop_eq (fuel : Nat) : ∀ (buf : Bytes) (x : Nat), x < 2 ^ (7 * fuel) → 0 < fuel →
    ∃ r, GoSrc.Wire.convAppendTag.loop1 fuel buf x = .ok r ∧ r.1 ++ [byteOfNat r.2] = buf ++ varint x := by
  induction fuel with
  | zero => intro buf x _ h; omega
  | succ n ih =>
    intro buf x hx _
    unfold GoSrc.Wire.convAppendTag.loop1
    by_cases h : x ≥ 128
    · have hn : 0 < n := by
        rcases n with _ | n
        · simp at hx; omega
        · omega
      have hx' : x / 128 < 2 ^ (7 * n) := by
        have : 2 ^ (7 * (n + 1)) = 2 ^ (7 * n) * 128 := by rw [Nat.mul_add, Nat.pow_add]
        rw [this] at hx
        generalize 2 ^ (7 * n) = P at hx ⊢
        omega
      obtain ⟨r, hr, he⟩ := ih (buf ++ [byteOfNat x ||| (128 : Byte)]) (x / 128) hx' hn
      refine ⟨r, ?_, ?_⟩
      · rw [if_pos h]; simpa using hr
      · rw [he, varint_ge x (by omega), or128byte]
        simp
    · refine ⟨(buf, x), ?_, ?_⟩
      · simp [h]
      · simp [varint_lt x (by omega)]

theorem convAppendTag_eq (buf : Bytes) (num : Int) (typ : Nat) :
    GoSrc.Wire.convAppendTag buf num typ = .ok (buf ++ tag num typ) := by
  unfold GoSrc.Wire.convAppendTag
  have hx : (Go.toU 64 num * 8) % 18446744073709551616 ||| typ % 8 = encodeTag num typ := by
    unfold encodeTag u64OfInt Go.toU
    simp only [show (2:Int)^64 = 18446744073709551616 from by decide]
    generalize (num % 18446744073709551616).toNat = u
    have hA : u * 8 % 18446744073709551616 = (u * 8 % 18446744073709551616 / 8) * 2 ^ 3 := by omega
    rw [hA, Nat.or_comm, or_shift _ _ 3 (by omega)]
    omega
  rw [hx]
  obtain ⟨r, hr, he⟩ := convLoop_eq 11 buf (encodeTag num typ) (by have := encodeTag_lt64 num typ; omega) (by omega)
  simp [hr, tag, he]

theorem sliceFrom_ok (b : Bytes) (n : Int) (h0 : 0 ≤ n) (h1 : n ≤ b.length) :
    Go.sliceFrom b n = .ok (b.drop n.toNat) := by
  unfold Go.sliceFrom; rw [if_pos ⟨h0, h1⟩]

/-- the non-group arms of the translated `consumeFieldValueD` -/
theorem cfvD_scalar (num : Int) (typ : Nat) (b : Bytes) (depth : Int) (g : Nat) (h3 : typ ≠ 3)
    (hb : b.length < 9223372036854775808) :
    GoSrc.Wire.consumeFieldValueD num typ b depth (g + 1) = .ok (consumeScalarValue typ b) := by
  unfold GoSrc.Wire.consumeFieldValueD consumeScalarValue
  simp only [consumeVarint_eq, consumeFixed32_eq, consumeFixed64_eq, consumeBytes_eq b hb, Res.bind_ok]
  by_cases h0 : typ = 0
  · subst h0; rfl
  by_cases h5 : typ = 5
  · subst h5; rfl
  by_cases h1 : typ = 1
  · subst h1; rfl
  by_cases h2 : typ = 2
  · subst h2; rfl
  by_cases h4 : typ = 4
  · subst h4; rfl
  simp only [h0, h5, h1, h2, h3, h4, if_false]
  rfl

theorem cfvD_depth (num : Int) (b : Bytes) (depth : Int) (g : Nat) (hd : depth < 0) :
    GoSrc.Wire.consumeFieldValueD num 3 b depth (g + 1) = .ok errRecursionDepth := by
  unfold GoSrc.Wire.consumeFieldValueD
  simp [hd, errRecursionDepth]

theorem cfvD_group (num : Int) (b : Bytes) (depth : Int) (g : Nat) (hd : ¬ depth < 0) :
    GoSrc.Wire.consumeFieldValueD num 3 b depth (g + 1) =
      (do let x ← GoSrc.Wire.consumeFieldValueD.loop1 num (Go.len b) depth g b
          match x.1 with
          | some rv => pure rv
          | none => Res.panic "unreachable: infinite loop exited") := by
  conv => lhs; unfold GoSrc.Wire.consumeFieldValueD
  simp [hd]
  rfl

theorem loop1_succ (num n0 depth : Int) (g : Nat) (b : Bytes) :
    GoSrc.Wire.consumeFieldValueD.loop1 num n0 depth (g + 1) b =
      (if (consumeTag b).2.2 < 0 then .ok (some (consumeTag b).2.2, b)
       else do
        let b1 ← Go.sliceFrom b (consumeTag b).2.2
        if (consumeTag b).2.1 = 4 then
          (if num ≠ (consumeTag b).1 then .ok (some (-5), b1) else .ok (some (n0 - Go.len b1), b1))
        else do
          let m ← GoSrc.Wire.consumeFieldValueD (consumeTag b).1 (consumeTag b).2.1 b1 (depth - 1) g
          if m < 0 then .ok (some m, b1)
          else do
            let b2 ← Go.sliceFrom b1 m
            GoSrc.Wire.consumeFieldValueD.loop1 num n0 depth g b2) := by
  first
  | (conv => lhs; unfold GoSrc.Wire.consumeFieldValueD.loop1
     simp only [consumeTag_eq, Res.bind_ok]
     rfl)
  | (conv => lhs; unfold GoSrc.Wire.consumeFieldValueD.loop1
     simp only [consumeTag_eq, Res.bind_ok, bind, Res.bind, pure]
     grind)

theorem loop_tie (hf : Nat) : ∀ (gf : Nat) (num : Int) (b : Bytes) (depth n0 : Int),
    b.length < 9223372036854775808 → b.length < hf → 2 * hf ≤ gf → (b.length : Int) ≤ n0 →
    ∃ b', GoSrc.Wire.consumeFieldValueD.loop1 num n0 depth gf b
      = .ok (some (groupLoop hf num b depth (n0 - b.length)), b') := by
  induction hf with
  | zero => intro gf num b depth n0 _ h; omega
  | succ f ih =>
    intro gf num b depth n0 hb hlen hgf hn0
    obtain ⟨g, rfl⟩ : ∃ g, gf = g + 1 := ⟨gf - 1, by omega⟩
    rw [loop1_succ, groupLoop_succ]
    by_cases hneg : (consumeTag b).2.2 < 0
    · exact ⟨b, by simp [hneg]⟩
    have hp := consumeTag_progress b (by omega)
    simp only [hneg, if_false, sliceFrom_ok b _ (by omega) hp.2.1, Res.bind_ok]
    generalize hb1 : b.drop (consumeTag b).2.2.toNat = b1
    have hb1len : (b1.length : Int) = b.length - (consumeTag b).2.2 := by
      rw [← hb1, List.length_drop]; omega
    by_cases h4 : (consumeTag b).2.1 = 4
    · simp only [h4, if_true]
      by_cases hnum : num ≠ (consumeTag b).1
      · exact ⟨b1, by simp [hnum, errEndGroup]⟩
      · refine ⟨b1, ?_⟩
        simp only [hnum, if_false, Go.len]
        congr 3; omega
    simp only [h4, if_false]
    -- the nested value
    have hm : GoSrc.Wire.consumeFieldValueD (consumeTag b).1 (consumeTag b).2.1 b1 (depth - 1) g
        = .ok (groupM f b depth) := by
      obtain ⟨g', rfl⟩ : ∃ g', g = g' + 1 := ⟨g - 1, by omega⟩
      unfold groupM
      rw [hb1]
      by_cases h3 : (consumeTag b).2.1 = 3
      · rw [h3]
        simp only [if_true]
        by_cases hd : depth - 1 < 0
        · rw [cfvD_depth _ _ _ _ hd]; simp [hd]
        · rw [cfvD_group _ _ _ _ hd]
          obtain ⟨b', hb'⟩ := ih g' (consumeTag b).1 b1 (depth - 1) (Go.len b1) (by omega) (by omega) (by omega) (by simp [Go.len])
          rw [hb']
          simp [hd, Go.len]
      · rw [cfvD_scalar _ _ _ _ _ h3 (by omega)]
        simp [h3]
    rw [hm]
    simp only [Res.bind_ok]
    by_cases hmneg : groupM f b depth < 0
    · exact ⟨b1, by simp [hmneg]⟩
    simp only [hmneg, if_false]
    have hmp : groupM f b depth ≤ b1.length := by
      have := groupM_progress f b depth (by omega)
      rw [hb1] at this
      omega
    rw [sliceFrom_ok b1 _ (by omega) hmp]
    simp only [Res.bind_ok]
    have hl2 : ((b1.drop (groupM f b depth).toNat).length : Int) = b1.length - groupM f b depth := by
      rw [List.length_drop]; omega
    obtain ⟨b', hb'⟩ := ih g num (b1.drop (groupM f b depth).toNat) depth n0 (by omega) (by omega) (by omega) (by omega)
    refine ⟨b', ?_⟩
    rw [hb']
    congr 4
    omega

/-- `ConsumeFieldValue` as translated from wire.go (recursive `consumeFieldValueD`, infinite `for`
loop with returns, group recursion limit) equals the model, for every input shorter than 2^63 -/
theorem consumeFieldValue_eq (num : Int) (typ : Nat) (b : Bytes) (hb : b.length < 9223372036854775808) :
    GoSrc.Wire.consumeFieldValue num typ b = .ok (Wire.consumeFieldValue num typ b) := by
  unfold GoSrc.Wire.consumeFieldValue
  have e : 2 * b.length + 3 = (2 * b.length + 2) + 1 := by omega
  rw [e]
  by_cases h3 : typ = 3
  · subst h3
    rw [cfvD_group _ _ _ _ (by decide), consumeFieldValue_group]
    obtain ⟨b', hb'⟩ := loop_tie (b.length + 1) (2 * b.length + 2) num b 10000 (Go.len b) hb (by omega) (by omega) (by simp [Go.len])
    rw [hb']
    simp [Go.len, defaultRecursionLimit]
  · rw [cfvD_scalar _ _ _ _ _ h3 hb, consumeFieldValue_scalar _ _ _ h3]


theorem len64_le (v : Nat) (hv : v < 18446744073709551616) : len64 v ≤ 64 := by
  by_cases h0 : v = 0
  · subst h0; decide
  · have := len64_bounds v h0
    by_cases h : len64 v ≤ 64
    · exact h
    · exfalso
      have h65 : 65 ≤ len64 v := by omega
      have : 2 ^ 64 ≤ 2 ^ (len64 v - 1) := Nat.pow_le_pow_right (by decide) (by omega)
      have h2 : (2:Nat) ^ 64 = 18446744073709551616 := by decide
      omega

theorem sizeVarintGo_eq (v : Nat) (hv : v < 18446744073709551616) :
    GoSrc.Wire.sizeVarintGo v = .ok (Int.ofNat (sizeVarint v)) := by
  first
  | (unfold GoSrc.Wire.sizeVarintGo sizeVarint Go.bitsLen64 Go.toU
     have hl := len64_le v hv
     generalize len64 v = L at hl
     simp only [show (2:Int)^32 = 4294967296 from by decide, Int.ofNat_eq_natCast, pure]
     congr 1
     have e1 : ((L : Int) % 4294967296).toNat = L := by omega
     rw [e1]
     have e2 : (9 * L % 4294967296 + 64) % 4294967296 = 9 * L + 64 := by omega
     have e3 : (64 + L * 9 % 4294967296) % 4294967296 = 9 * L + 64 := by omega
     first
     | rw [e2]
     | rw [e3]
     | (simp only [Nat.mul_comm, Nat.add_comm] at e2 ⊢; rw [e2])
     rw [Int.tdiv_eq_ediv_of_nonneg (by omega)]
     omega)
  | -- any other arithmetic on `bits.Len64(v)`: the length is at most 64, the kernel evaluates all 65 cases
    (unfold GoSrc.Wire.sizeVarintGo sizeVarint Go.bitsLen64
     have hl := len64_le v hv
     generalize len64 v = L at hl
     simp only [pure, Res.ok.injEq]
     revert L
     decide +kernel)

/-- the loop of `PutUvarint` followed by its last store -/
def putG (fuel : Nat) (buf : Bytes) (x : Nat) (i : Int) : Res (Bytes × Int) := do
  let (buf, x, i) ← GoSrc.Wire.putUvarint.loop1 fuel buf x i
  let t2 ← Go.setIndex buf i (byteOfNat x)
  pure (t2, (i + (1 : Int)))

theorem setIndex_mid (pre rest : Bytes) (b y : Byte) :
    Go.setIndex (pre ++ y :: rest) (pre.length : Int) b = .ok (pre ++ b :: rest) := by
  unfold Go.setIndex
  rw [if_pos (by simp; omega)]
  simp

theorem putG_eq (fuel : Nat) : ∀ (pre rest : Bytes) (x : Nat), x < 2 ^ (7 * fuel) → 0 < fuel →
    (varint x).length ≤ rest.length →
    putG fuel (pre ++ rest) x pre.length
      = .ok (pre ++ varint x ++ rest.drop (varint x).length, (pre.length : Int) + (varint x).length) := by
  induction fuel with
  | zero => intro pre rest x _ h; omega
  | succ n ih =>
    intro pre rest x hx _ hlen
    unfold putG GoSrc.Wire.putUvarint.loop1
    by_cases h : x ≥ 128
    · have hn : 0 < n := by
        rcases n with _ | n
        · simp at hx; omega
        · omega
      have hx' : x / 128 < 2 ^ (7 * n) := by
        have : 2 ^ (7 * (n + 1)) = 2 ^ (7 * n) * 128 := by rw [Nat.mul_add, Nat.pow_add]
        rw [this] at hx
        generalize 2 ^ (7 * n) = P at hx ⊢
        omega
      have hv := varint_ge x (by omega)
      rw [hv] at hlen ⊢
      obtain ⟨y, rest', rfl⟩ : ∃ y rest', rest = y :: rest' := by
        cases rest with
        | nil => simp at hlen
        | cons y r => exact ⟨y, r, rfl⟩
      simp only [h, if_true, setIndex_mid, Res.bind_ok, or128byte]
      have := ih (pre ++ [byteOfNat (x % 128 + 128)]) rest' (x / 128) hx' hn (by simpa using hlen)
      unfold putG at this
      simp only [List.append_assoc, List.singleton_append, List.length_append, List.length_singleton, Int.natCast_add, Int.natCast_one] at this
      rw [this]
      simp only [List.length_cons, List.drop_succ_cons, List.cons_append, List.append_assoc, Int.natCast_add, Int.natCast_one]
      congr 2
      omega
    · have hv := varint_lt x (by omega)
      rw [hv] at hlen ⊢
      obtain ⟨y, rest', rfl⟩ : ∃ y rest', rest = y :: rest' := by
        cases rest with
        | nil => simp at hlen
        | cons y r => exact ⟨y, r, rfl⟩
      simp [h, setIndex_mid]

/-- `PutUvarint(buf, x)` writes the varint of `x` over the first bytes of the window and returns its
length, whenever the window is long enough (otherwise Go panics on `buf[i]`) -/
theorem putUvarint_eq (x : Nat) (hx : x < 18446744073709551616) (buf : Bytes) (h : (varint x).length ≤ buf.length) :
    GoSrc.Wire.putUvarint x buf = .ok (varint x ++ buf.drop (varint x).length, ((varint x).length : Int)) := by
  have := putG_eq 11 [] buf x (by omega) (by omega) h
  unfold putG at this
  unfold GoSrc.Wire.putUvarint
  simpa using this

theorem appendString_eq (b v : Bytes) (hv : v.length < 9223372036854775808) :
    GoSrc.Wire.appendString b v = .ok (b ++ lenPrefixed v) := by
  unfold GoSrc.Wire.appendString lenPrefixed
  rw [toU_len v hv, appendVarint_eq _ _ (by omega)]
  simp

theorem consumeString_eq (b : Bytes) (hb : b.length < 9223372036854775808) :
    GoSrc.Wire.consumeString b = .ok (Wire.consumeBytes b) := by
  unfold GoSrc.Wire.consumeString
  rw [consumeBytes_eq b hb]
  rfl

end Pico.GoTie.W
