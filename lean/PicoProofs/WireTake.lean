import PicoProofs.WireLemmas
/-
The wire tokenizer reads nothing beyond what it reports as consumed: if a consumer accepts `a ++ c`
and reports a length within `a`, it gives the same answer on `a` alone. (The converse of the
`…_append` lemmas of `WireLemmas.lean`.) Used for the forwarding chain of C10: the captured value
bytes of an unknown field, cut out of the input, are again a complete value.
-/
namespace Pico.Wire

theorem consumeVarintAux_of_append : ∀ (a c : Bytes) (idx : Nat),
    0 ≤ (consumeVarintAux idx (a ++ c)).2 → (consumeVarintAux idx (a ++ c)).2 ≤ a.length →
    consumeVarintAux idx a = consumeVarintAux idx (a ++ c) := by
  intro a
  induction a with
  | nil =>
    intro c idx h hle
    have := consumeVarintAux_progress ([] ++ c) idx h
    simp only [List.length_nil] at hle
    omega
  | cons y ys ih =>
    intro c idx h hle
    simp only [List.cons_append, consumeVarintAux, List.length_cons] at h hle ⊢
    by_cases h9 : idx = 9
    · simp only [h9, ↓reduceIte]
    · simp only [h9, ↓reduceIte] at h hle ⊢
      by_cases hlt : y.toNat < 128
      · simp only [hlt, ↓reduceIte]
      · simp only [hlt, ↓reduceIte] at h hle ⊢
        by_cases hneg : (consumeVarintAux (idx + 1) (ys ++ c)).2 < 0
        · simp only [hneg, ↓reduceIte] at h; omega
        · simp only [hneg, ↓reduceIte] at h hle
          rw [ih c (idx + 1) (by omega) (by omega)]

theorem consumeVarint_of_append (a c : Bytes) (h : 0 ≤ (consumeVarint (a ++ c)).2)
    (hle : (consumeVarint (a ++ c)).2 ≤ a.length) : consumeVarint a = consumeVarint (a ++ c) :=
  consumeVarintAux_of_append a c 0 h hle

theorem consumeFixed32_of_append (a c : Bytes) (h : 0 ≤ (consumeFixed32 (a ++ c)).2)
    (hle : (consumeFixed32 (a ++ c)).2 ≤ a.length) : consumeFixed32 a = consumeFixed32 (a ++ c) := by
  have hp := consumeFixed32_progress (a ++ c) h
  match a, hle with
  | _ :: _ :: _ :: _ :: _, _ => simp [consumeFixed32]
  | [], hle => simp only [List.length_nil] at hle; omega
  | [_], hle => simp only [List.length_cons, List.length_nil] at hle; omega
  | [_, _], hle => simp only [List.length_cons, List.length_nil] at hle; omega
  | [_, _, _], hle => simp only [List.length_cons, List.length_nil] at hle; omega

theorem consumeFixed64_of_append (a c : Bytes) (h : 0 ≤ (consumeFixed64 (a ++ c)).2)
    (hle : (consumeFixed64 (a ++ c)).2 ≤ a.length) : consumeFixed64 a = consumeFixed64 (a ++ c) := by
  have hp := consumeFixed64_progress (a ++ c) h
  match a, hle with
  | _ :: _ :: _ :: _ :: _ :: _ :: _ :: _ :: _, _ => simp [consumeFixed64]
  | [], hle => simp only [List.length_nil] at hle; omega
  | [_], hle => simp only [List.length_cons, List.length_nil] at hle; omega
  | [_, _], hle => simp only [List.length_cons, List.length_nil] at hle; omega
  | [_, _, _], hle => simp only [List.length_cons, List.length_nil] at hle; omega
  | [_, _, _, _], hle => simp only [List.length_cons, List.length_nil] at hle; omega
  | [_, _, _, _, _], hle => simp only [List.length_cons, List.length_nil] at hle; omega
  | [_, _, _, _, _, _], hle => simp only [List.length_cons, List.length_nil] at hle; omega
  | [_, _, _, _, _, _, _], hle => simp only [List.length_cons, List.length_nil] at hle; omega

theorem consumeBytes_of_append (a c : Bytes) (h : 0 ≤ (consumeBytes (a ++ c)).2)
    (hle : (consumeBytes (a ++ c)).2 ≤ a.length) : consumeBytes a = consumeBytes (a ++ c) := by
  simp only [consumeBytes] at h hle ⊢
  by_cases hneg : (consumeVarint (a ++ c)).2 < 0
  · rw [if_pos hneg] at h; simp only at h; omega
  · rw [if_neg hneg] at h hle ⊢
    have hp := consumeVarint_progress (a ++ c) (by omega)
    by_cases hgt : (consumeVarint (a ++ c)).1 > (List.drop (consumeVarint (a ++ c)).2.toNat (a ++ c)).length
    · rw [if_pos hgt] at h; simp [errTruncated] at h
    · rw [if_neg hgt] at h hle ⊢
      simp only at h hle
      have hv := consumeVarint_of_append a c (by omega) (by omega)
      rw [hv, if_neg hneg]
      have hd : (a ++ c).drop (consumeVarint (a ++ c)).2.toNat
          = a.drop (consumeVarint (a ++ c)).2.toNat ++ c := drop_append_of_le a c _ (by omega)
      have hl : (consumeVarint (a ++ c)).1 ≤ (a.drop (consumeVarint (a ++ c)).2.toNat).length := by
        simp only [List.length_drop]; omega
      rw [if_neg (by omega), hd, List.take_append_of_le_length hl]

theorem consumeTag_of_append (a c : Bytes) (h : 0 ≤ (consumeTag (a ++ c)).2.2)
    (hle : (consumeTag (a ++ c)).2.2 ≤ a.length) : consumeTag a = consumeTag (a ++ c) := by
  simp only [consumeTag] at h hle ⊢
  by_cases hneg : (consumeVarint (a ++ c)).2 < 0
  · rw [if_pos hneg] at h; simp only at h; omega
  · rw [if_neg hneg] at h hle
    have hle' : (consumeVarint (a ++ c)).2 ≤ a.length := by
      split at hle
      · simp [errFieldNumber] at h
        split at h <;> simp_all
      · simpa using hle
    rw [consumeVarint_of_append a c (by omega) hle']

theorem consumeScalarValue_of_append (typ : Nat) (a c : Bytes) (h : 0 ≤ consumeScalarValue typ (a ++ c))
    (hle : consumeScalarValue typ (a ++ c) ≤ a.length) :
    consumeScalarValue typ a = consumeScalarValue typ (a ++ c) := by
  unfold consumeScalarValue at h hle ⊢
  split at h
  · rw [consumeVarint_of_append a c h hle]
  · rw [consumeFixed32_of_append a c h hle]
  · rw [consumeFixed64_of_append a c h hle]
  · rw [consumeBytes_of_append a c h hle]
  · rfl
  · simp [errReserved] at h

theorem groupLoop_of_append (f : Nat) : ∀ (num : Int) (a c : Bytes) (depth acc : Int), 0 ≤ acc →
    0 ≤ groupLoop f num (a ++ c) depth acc → groupLoop f num (a ++ c) depth acc ≤ acc + a.length →
    groupLoop f num a depth acc = groupLoop f num (a ++ c) depth acc := by
  induction f with
  | zero => intro num a c depth acc _ h; simp [groupLoop_zero, errFuel] at h
  | succ f ih =>
    intro num a c depth acc hacc h hle
    rw [groupLoop_succ] at h hle
    rw [groupLoop_succ, groupLoop_succ]
    by_cases hneg : (consumeTag (a ++ c)).2.2 < 0
    · rw [if_pos hneg] at h; omega
    · rw [if_neg hneg] at h hle
      have hp := consumeTag_progress (a ++ c) (by omega)
      by_cases h4 : (consumeTag (a ++ c)).2.1 = 4
      · rw [if_pos h4] at h hle
        have hta : (consumeTag (a ++ c)).2.2 ≤ a.length := by
          split at hle
          · rename_i hne; rw [if_pos hne] at h; simp [errEndGroup] at h
          · omega
        rw [consumeTag_of_append a c (by omega) hta]
        simp only [if_neg hneg, if_pos h4]
      · rw [if_neg h4] at h hle
        by_cases hmneg : groupM f (a ++ c) depth < 0
        · rw [if_pos hmneg] at h; omega
        · rw [if_neg hmneg] at h hle
          have hmp := groupM_progress f (a ++ c) depth (by omega)
          have hpr := groupLoop_progress f num
            (((a ++ c).drop (consumeTag (a ++ c)).2.2.toNat).drop (groupM f (a ++ c) depth).toNat) depth
            (acc + (consumeTag (a ++ c)).2.2 + groupM f (a ++ c) depth) (by omega) h
          have hta : (consumeTag (a ++ c)).2.2 ≤ a.length := by omega
          have ht := consumeTag_of_append a c (by omega) hta
          have hd : (a ++ c).drop (consumeTag (a ++ c)).2.2.toNat
              = a.drop (consumeTag (a ++ c)).2.2.toNat ++ c := drop_append_of_le a c _ (by omega)
          have hml : groupM f (a ++ c) depth ≤ (a.drop (consumeTag (a ++ c)).2.2.toNat).length := by
            simp only [List.length_drop]; omega
          have hm : groupM f a depth = groupM f (a ++ c) depth := by
            have hm0 : 0 ≤ groupM f (a ++ c) depth := by omega
            revert hm0 hml
            unfold groupM
            rw [ht, hd]
            split
            · split
              · intro _ _; rfl
              · intro hl h0; exact ih _ _ _ _ _ (by omega) h0 (by omega)
            · intro hl h0; exact consumeScalarValue_of_append _ _ _ h0 hl
          rw [ht, hm]
          simp only [if_neg hneg, if_neg h4, if_neg hmneg]
          rw [hd, drop_append_of_le _ c _ (by omega)]
          rw [hd, drop_append_of_le _ c _ (by omega)] at h hle
          apply ih _ _ _ _ _ (by omega) h
          simp only [List.length_drop] at hml ⊢
          omega

/-- `ConsumeFieldValue` reads nothing beyond the length it reports -/
theorem consumeFieldValue_of_append (num : Int) (typ : Nat) (a c : Bytes)
    (h : 0 ≤ consumeFieldValue num typ (a ++ c)) (hle : consumeFieldValue num typ (a ++ c) ≤ a.length) :
    consumeFieldValue num typ a = consumeFieldValue num typ (a ++ c) := by
  by_cases h3 : typ = 3
  · subst h3
    rw [consumeFieldValue_group] at h hle ⊢
    rw [consumeFieldValue_group]
    have h0 := groupLoop_of_append ((a ++ c).length + 1) num a c defaultRecursionLimit 0 (by omega) h (by omega)
    rw [← h0]
    exact (groupLoop_fuel_mono (a.length + 1) ((a ++ c).length + 1) num a
      defaultRecursionLimit 0 (by omega) (by simp only [List.length_append]; omega)).symm
  · rw [consumeFieldValue_scalar num typ _ h3] at h hle ⊢
    rw [consumeFieldValue_scalar num typ _ h3]
    exact consumeScalarValue_of_append typ a c h hle

/-- the value bytes cut out of the input are a complete value of the same length -/
theorem consumeFieldValue_take (num : Int) (typ : Nat) (b : Bytes) (h : 0 ≤ consumeFieldValue num typ b) :
    consumeFieldValue num typ (b.take (consumeFieldValue num typ b).toNat) = consumeFieldValue num typ b := by
  have hp := consumeFieldValue_progress num typ b h
  have hb : b = b.take (consumeFieldValue num typ b).toNat ++ b.drop (consumeFieldValue num typ b).toNat :=
    (List.take_append_drop _ _).symm
  have := consumeFieldValue_of_append num typ (b.take (consumeFieldValue num typ b).toNat)
    (b.drop (consumeFieldValue num typ b).toNat) (by rw [← hb]; exact h)
    (by rw [← hb, List.length_take]; omega)
  rw [← hb] at this
  exact this

end Pico.Wire
