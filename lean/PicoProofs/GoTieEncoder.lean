import PicoModel.Gen.GoEncoder
/-
Tie between the statement-level translation of encoder.go (`PicoModel/Gen/GoEncoder.lean`,
regenerated from the Go source on every run; `enc.buffer` is a slice written in place, modelled by
`EncLow.Buf` with its stale capacity and the re-allocation oracle) and the Go-slice level model
`PicoModel/EncLow.lean` about which `anyBytesLow_refines` / `no_stale_exposed` / `runOps_appends`
are proved. Hypothesis on callbacks: they only grow the buffer and stay below 2^63 bytes.
-/
namespace Pico.GoTie.E
open Pico Pico.EncLow Pico.Wire


theorem Res.bind_assoc' {α β γ} (r : Res α) (f : α → Res β) (g : β → Res γ) :
    (r >>= f) >>= g = r >>= fun x => f x >>= g := by cases r <;> rfl

theorem resliceTo_nat (b : Buf) (n : Nat) : GoBuf.resliceTo b (n : Int) = b.resliceTo n := by
  unfold GoBuf.resliceTo
  have : ¬ ((n : Int) < 0) := by omega
  rw [if_neg this]; simp

theorem toU_nat (n : Nat) (h : n < 18446744073709551616) : Go.toU 64 (n : Int) = n := by
  unfold Go.toU
  simp only [show (2:Int)^64 = 18446744073709551616 from by decide]
  omega

theorem putAt_nat (b : Buf) (lo hi x : Nat) : GoBuf.putUvarintAt b (lo : Int) (hi : Int) x = b.putUvarintAt lo hi x := by
  unfold GoBuf.putUvarintAt
  have : ¬ ((lo : Int) < 0 ∨ (hi : Int) < 0) := by omega
  rw [if_neg this]; simp

theorem copy_nat (b : Buf) (d s : Nat) : GoBuf.copyWithin b (d : Int) (s : Int) = b.copyWithin d s := by
  unfold GoBuf.copyWithin
  have : ¬ ((d : Int) < 0 ∨ (s : Int) < 0) := by omega
  rw [if_neg this]; simp

theorem ofNat_add (a b : Nat) : (a : Int) + (b : Int) = ((a + b : Nat) : Int) := by simp

/-- the callback only grows the buffer and stays below 2^63 bytes -/
def Grows (fn : Buf → Res (Buf × Bool)) (b : Buf) : Prop :=
  ∀ b' ok, fn b = .ok (b', ok) → b.len ≤ b'.len ∧ b'.len < 9223372036854775808

/-- the buffer a length-prefixed callback starts on: tag and the two reserved length bytes appended -/
def start (oracle : Nat → Bytes) (field : Int) (enc : Buf) : Buf :=
  (enc.append oracle (Enc.appendTag field 2)).append oracle (List.replicate 2 (0 : Byte))

theorem append_len' (oracle : Nat → Bytes) (b : Buf) (xs : Bytes) : (b.append oracle xs).len = b.len + xs.length := by
  unfold Buf.append Buf.len; split <;> simp

theorem finish_eq (oracle : Nat → Bytes) (b3 : Buf) (lengthStart messageStart : Nat)
    (hms : messageStart ≤ b3.len) (hlen : b3.len < 9223372036854775808) :
    (do
      let messageLength := ((Int.ofNat b3.len) - (Int.ofNat messageStart))
      let bytesForSize := (Go.sizeVarint (Go.toU 64 messageLength))
      if (bytesForSize = (2 : Int)) then do
        let t3 ← Pico.GoBuf.putUvarintAt b3 (Int.ofNat lengthStart) (Int.ofNat messageStart) (Go.toU 64 messageLength)
        pure (t3, true)
      else do
        let enc ← (if (bytesForSize > (2 : Int)) then do
          let t4 ← Go.makeZero (0 : Byte) (bytesForSize - (2 : Int))
          pure (Pico.EncLow.Buf.append oracle b3 t4)
        else do
          pure b3)
        let t5 ← Pico.GoBuf.copyWithin enc ((Int.ofNat lengthStart) + bytesForSize) (Int.ofNat messageStart)
        let t6 ← Pico.GoBuf.putUvarintAt t5 (Int.ofNat lengthStart) ((Int.ofNat lengthStart) + bytesForSize) (Go.toU 64 messageLength)
        let t7 ← Pico.GoBuf.resliceTo t6 (((Int.ofNat lengthStart) + bytesForSize) + messageLength)
        pure (t7, true) : Res (Buf × Bool))
    = (do let b4 ← finishLow oracle b3 lengthStart messageStart; pure (b4, true)) := by
  simp only [Int.ofNat_eq_natCast]
  have hml : (b3.len : Int) - (messageStart : Int) = ((b3.len - messageStart : Nat) : Int) := by omega
  simp only [hml, toU_nat _ (show b3.len - messageStart < 18446744073709551616 by omega)]
  unfold finishLow finishLowWith Go.sizeVarint lengthBufferPrediction
  simp only [Int.ofNat_eq_natCast]
  simp only [List.length_cons, List.length_nil]
  generalize sizeVarint (b3.len - messageStart) = S
  generalize b3.len - messageStart = L
  simp only [ofNat_add, putAt_nat, copy_nat, resliceTo_nat]
  by_cases h2 : S = 2
  · subst h2; simp
  · have h2' : ¬ ((S : Int) = 2) := by omega
    have h2'' : ¬ (S = 0 + 1 + 1) := by omega
    simp only [h2', h2'', if_false]
    by_cases hgt : S > 2
    · have hgt' : (S : Int) > 2 := by omega
      have hgt'' : S > 0 + 1 + 1 := by omega
      have hmk : Go.makeZero (0 : Byte) ((S : Int) - 2) = .ok (List.replicate (S - (0 + 1 + 1)) 0) := by
        unfold Go.makeZero
        rw [if_pos (by omega)]
        congr 2
        omega
      simp only [hgt', hgt'', if_true, hmk, Res.bind_ok, pure]
      simp only [Res.bind_assoc']
    · have hgt' : ¬ ((S : Int) > 2) := by omega
      have hgt'' : ¬ (S > 0 + 1 + 1) := by omega
      simp only [hgt', hgt'', if_false, pure, Res.bind_ok]
      simp only [Res.bind_assoc']

theorem anyBytes_eq (oracle : Nat → Bytes) (field : Int) (fn : Buf → Res (Buf × Bool)) (enc : Buf) (hfn : Grows fn (start oracle field enc))
    (henc : enc.len < 9223372036854775808) :
    GoSrc.Encoder.anyBytes oracle field fn enc = anyBytesLow oracle (Enc.appendTag field 2) fn enc := by
  unfold GoSrc.Encoder.anyBytes anyBytesLow anyBytesLowWith GoBuf.appendTag
  try unfold_aux_Encoder
  try simp only []
  unfold Grows start at hfn
  cases h : fn ((enc.append oracle (Enc.appendTag field 2)).append oracle (List.replicate 2 (0 : Byte))) with
  | ok r =>
    obtain ⟨b3, ok⟩ := r
    have hg := hfn _ _ h
    generalize (enc.append oracle (Enc.appendTag field 2)) = b1 at *
    generalize hb2 : (b1.append oracle (List.replicate 2 (0 : Byte))) = b2 at *
    have hl2 : lengthBufferPrediction = List.replicate 2 (0 : Byte) := rfl
    rw [hl2, hb2, h]
    simp only [Res.bind_ok]
    cases ok
    · simp [resliceTo_nat]
    · have := finish_eq oracle b3 b1.len b2.len hg.1 hg.2
      unfold finishLow at this
      simp only [Int.ofNat_eq_natCast] at this ⊢
      first
      | (simpa using this)
      | (have hb21 : b2.len = b1.len + 2 := by rw [← hb2, append_len']; simp
         have hres : (b2.len : Int) - (b1.len : Int) = 2 := by omega
         simp only [bind, Res.bind, pure, hres] at this ⊢
         grind)
  | panic w =>
    have hl2 : lengthBufferPrediction = List.replicate 2 (0 : Byte) := rfl
    rw [hl2, h]; rfl
  | outOfFuel =>
    have hl2 : lengthBufferPrediction = List.replicate 2 (0 : Byte) := rfl
    rw [hl2, h]; rfl

/-- a callback without presence result -/
def Grows1 (fn : Buf → Res Buf) (b : Buf) : Prop :=
  ∀ b', fn b = .ok b' → b.len ≤ b'.len ∧ b'.len < 9223372036854775808

theorem alwaysAnyBytes_eq (oracle : Nat → Bytes) (field : Int) (fn : Buf → Res Buf) (enc : Buf) (hfn : Grows1 fn (start oracle field enc)) :
    GoSrc.Encoder.alwaysAnyBytes oracle field fn enc
      = (do let b ← alwaysAnyBytesLow oracle (Enc.appendTag field 2) fn enc; pure (b, true)) := by
  unfold GoSrc.Encoder.alwaysAnyBytes alwaysAnyBytesLow alwaysAnyBytesLowWith GoBuf.appendTag
  try unfold_aux_Encoder
  try simp only []
  have hl2 : lengthBufferPrediction = List.replicate 2 (0 : Byte) := rfl
  rw [hl2]
  unfold Grows1 start at hfn
  generalize (enc.append oracle (Enc.appendTag field 2)) = b1 at *
  generalize hb2 : (b1.append oracle (List.replicate 2 (0 : Byte))) = b2 at *
  cases h : fn b2 with
  | ok b3 =>
    have hg := hfn _ h
    have := finish_eq oracle b3 b1.len b2.len hg.1 hg.2
    unfold finishLow at this
    simp only [Int.ofNat_eq_natCast] at this ⊢
    first
    | (simpa using this)
    | (have hb21 : b2.len = b1.len + 2 := by rw [← hb2, append_len']; simp
       have hres : (b2.len : Int) - (b1.len : Int) = 2 := by omega
       simp only [bind, Res.bind, pure, hres] at this ⊢
       grind)
  | panic w => first | rfl | (simp only [bind, Res.bind, pure]; grind)
  | outOfFuel => first | rfl | (simp only [bind, Res.bind, pure]; grind)

theorem AlwaysAnyBytes_eq (oracle : Nat → Bytes) (field : Int) (fn : Buf → Res Buf) (enc : Buf) (hfn : Grows1 fn (start oracle field enc)) :
    GoSrc.Encoder.AlwaysAnyBytes oracle field fn enc
      = (do let b ← alwaysAnyBytesLow oracle (Enc.appendTag field 2) fn enc; pure (b, true)) := by
  unfold GoSrc.Encoder.AlwaysAnyBytes
  rw [alwaysAnyBytes_eq oracle field fn enc hfn]
  cases alwaysAnyBytesLow oracle (Enc.appendTag field 2) fn enc <;> rfl

/-- `enc.Message(field, fn)` is `runOp (.any …)`'s shape: `anyBytes` around the callback -/
theorem Message_eq (oracle : Nat → Bytes) (field : Int) (fn : Buf → Res (Buf × Bool)) (enc : Buf) (hfn : Grows fn (start oracle field enc))
    (henc : enc.len < 9223372036854775808) :
    GoSrc.Encoder.Message oracle field fn enc
      = (do let r ← anyBytesLow oracle (Enc.appendTag field 2) fn enc; pure r.1) := by
  unfold GoSrc.Encoder.Message
  have e : (fun enc => do let (enc, r1) ← fn enc; pure (enc, r1)) = fn := by
    funext b; cases fn b <;> rfl
  rw [e, anyBytes_eq oracle field fn enc hfn henc]

theorem AlwaysMessage_eq (oracle : Nat → Bytes) (field : Int) (fn : Buf → Res (Buf × Bool)) (enc : Buf) (hfn : Grows fn (start oracle field enc)) :
    GoSrc.Encoder.AlwaysMessage oracle field fn enc
      = alwaysAnyBytesLow oracle (Enc.appendTag field 2) (fun b => do let r ← fn b; pure r.1) enc := by
  unfold GoSrc.Encoder.AlwaysMessage
  have hg : Grows1 (fun b => do let (b', _) ← fn b; pure b') (start oracle field enc) := by
    intro b' h
    simp only [] at h
    cases hf : fn (start oracle field enc) with
    | ok r => obtain ⟨x, ok⟩ := r; rw [hf] at h; cases h; exact hfn _ _ hf
    | panic w => rw [hf] at h; cases h
    | outOfFuel => rw [hf] at h; cases h
  rw [alwaysAnyBytes_eq oracle field _ enc hg]
  have e : (fun b => do let (b', _) ← fn b; pure b') = (fun b => do let r ← fn b; pure r.1) := by
    funext b; cases fn b <;> rfl
  rw [e]
  cases alwaysAnyBytesLow oracle (Enc.appendTag field 2) (fun b => do let r ← fn b; pure r.1) enc <;> rfl

theorem PresentMessage_eq (oracle : Nat → Bytes) (field : Int) (fn : Buf → Res (Buf × Bool)) (enc : Buf) (hfn : Grows fn (start oracle field enc))
    (henc : enc.len < 9223372036854775808) :
    GoSrc.Encoder.PresentMessage oracle field fn enc
      = (do let r ← anyBytesLow oracle (Enc.appendTag field 2)
              (fun b => do let r ← fn b; pure (r.1, decide (r.1.len > b.len))) enc
            pure r.1) := by
  unfold GoSrc.Encoder.PresentMessage
  have e : (fun enc : Buf => do
        let lengthStart := (Int.ofNat enc.len)
        let (enc, r1) ← fn enc
        pure (enc, decide (((Int.ofNat enc.len) > lengthStart))))
      = (fun b => do let r ← fn b; pure (r.1, decide (r.1.len > b.len))) := by
    funext b
    cases fn b with
    | ok r => obtain ⟨x, ok⟩ := r; simp
    | panic w => rfl
    | outOfFuel => rfl
  have hg : Grows (fun b => do let r ← fn b; pure (r.1, decide (r.1.len > b.len))) (start oracle field enc) := by
    intro b' ok h
    simp only [] at h
    cases hf : fn (start oracle field enc) with
    | ok r => obtain ⟨x, ok'⟩ := r; rw [hf] at h; cases h; exact hfn _ _ hf
    | panic w => rw [hf] at h; cases h
    | outOfFuel => rw [hf] at h; cases h
  rw [e, anyBytes_eq oracle field _ enc hg henc]

theorem UnrecognizedFields_eq (oracle : Nat → Bytes) (out : Bytes) (enc : Buf) :
    GoSrc.Encoder.UnrecognizedFields oracle out enc = .ok (enc.append oracle out) := rfl

/-- what the `for i := 0; i < n; i++` loop of `RepeatedEnum` appends: `k` more elements from index `i` -/
def enumLoop (oracle : Nat → Bytes) (fn : Nat → Int) : Nat → Nat → Buf → Buf
  | 0, _, b => b
  | k + 1, i, b => enumLoop oracle fn k (i + 1) (b.append oracle (Pico.Wire.varint (Go.toU 64 (fn i))))

theorem append_len (oracle : Nat → Bytes) (b : Buf) (xs : Bytes) : (b.append oracle xs).len = b.len + xs.length := by
  unfold Buf.append Buf.len; split <;> simp

theorem enumLoop_len_ge (oracle : Nat → Bytes) (fn : Nat → Int) : ∀ k i b, b.len ≤ (enumLoop oracle fn k i b).len := by
  intro k
  induction k with
  | zero => intro i b; exact Nat.le_refl _
  | succ k ih =>
    intro i b
    unfold enumLoop
    have := ih (i + 1) (b.append oracle (Pico.Wire.varint (Go.toU 64 (fn i))))
    rw [append_len] at this
    omega

theorem RepeatedEnum_loop_eq (oracle : Nat → Bytes) (n : Int) (fn : Nat → Int) (hn : n < 9223372036854775808) :
    ∀ (fuel : Nat) (enc : Buf) (i : Int), 0 ≤ i → i ≤ n → (n - i).toNat < fuel →
      GoSrc.Encoder.RepeatedEnum.loop1 oracle n fn fuel enc i
        = .ok (enumLoop oracle fn (n - i).toNat i.toNat enc, n) := by
  intro fuel
  induction fuel with
  | zero => intro enc i _ _ h; omega
  | succ f ih =>
    intro enc i hi0 hin hf
    unfold GoSrc.Encoder.RepeatedEnum.loop1
    by_cases hlt : i < n
    · have hu : Go.toU 64 i = i.toNat := by
        unfold Go.toU
        simp only [show (2:Int)^64 = 18446744073709551616 from by decide]
        omega
      have hk : (n - i).toNat = (n - (i + 1)).toNat + 1 := by omega
      have hi1 : (i + 1).toNat = i.toNat + 1 := by omega
      simp only [hlt, if_true, GoBuf.appendVarint, hu]
      rw [ih _ (i + 1) (by omega) (by omega) (by omega), hk, hi1]
      rfl
    · have : i = n := by omega
      subst this
      simp [enumLoop]

theorem RepeatedEnum_eq (oracle : Nat → Bytes) (field : Int) (n : Int) (fn : Nat → Int) (enc : Buf)
    (hn0 : 0 ≤ n) (hn : n < 9223372036854775808)
    (hsz : (enumLoop oracle fn n.toNat 0 (start oracle field enc)).len < 9223372036854775808) :
    GoSrc.Encoder.RepeatedEnum oracle field n fn enc
      = if n = 0 then .ok enc
        else alwaysAnyBytesLow oracle (Enc.appendTag field 2) (fun b => .ok (enumLoop oracle fn n.toNat 0 b)) enc := by
  unfold GoSrc.Encoder.RepeatedEnum
  by_cases h0 : n = 0
  · simp [h0]
  have h0' : n ≠ 0 := h0
  simp only [h0, h0', if_false, if_true, ne_eq, not_false_eq_true]
  have e : (fun enc : Buf => do
        let i := (0 : Int)
        let (enc, i) ← GoSrc.Encoder.RepeatedEnum.loop1 oracle n fn ((Int.toNat n + 1)) enc i
        pure enc)
      = (fun b => .ok (enumLoop oracle fn n.toNat 0 b)) := by
    funext b
    simp only []
    rw [RepeatedEnum_loop_eq oracle n fn hn _ b 0 (by omega) hn0 (by omega)]
    simp
  rw [e]
  have hg : Grows1 (fun b => .ok (enumLoop oracle fn n.toNat 0 b)) (start oracle field enc) := by
    intro b' h
    cases h
    exact ⟨enumLoop_len_ge oracle fn _ _ _, hsz⟩
  rw [alwaysAnyBytes_eq oracle field _ enc hg]
  cases alwaysAnyBytesLow oracle (Enc.appendTag field 2) (fun b => .ok (enumLoop oracle fn n.toNat 0 b)) enc <;>
    first | rfl | simp [bind, Res.bind, pure]

end Pico.GoTie.E

namespace Pico.GoTie.E
open Pico Pico.EncLow

/-- message.go `Marshal(msg)`: a fresh encoder (nil buffer), `msg.Encode`, the logical bytes -/
theorem Marshal_eq (oracle : Nat → Bytes) (encode : Buf → Res (Buf × Bool)) :
    GoSrc.Encoder.Marshal oracle encode
      = (do let r ← encode ⟨[], []⟩; pure (r.1.data, none)) := by
  unfold GoSrc.Encoder.Marshal GoSrc.Encoder.Buffer
  simp only []

/-- message.go `MarshalBuffer(msg, buffer)`: the encoder starts on `buffer[:0]` — everything the
caller's buffer held is stale capacity -/
theorem MarshalBuffer_eq (oracle : Nat → Bytes) (encode : Buf → Res (Buf × Bool)) (buffer : Bytes) :
    GoSrc.Encoder.MarshalBuffer oracle encode buffer
      = (do let r ← encode ⟨[], buffer⟩; pure (r.1.data, none)) := by
  unfold GoSrc.Encoder.MarshalBuffer GoSrc.Encoder.Buffer GoBuf.ofSliceZero
  simp only []

end Pico.GoTie.E

namespace Pico.GoTie.E
open Pico Pico.EncLow

/-- `NewEncoderBuffer(buffer)`: the encoder starts on `buffer[:0]` -/
theorem NewEncoderBuffer_eq (oracle : Nat → Bytes) (buffer : Bytes) :
    GoSrc.Encoder.NewEncoderBuffer oracle buffer = .ok ⟨[], buffer⟩ := rfl

/-- `NewEncoder()`: empty logical bytes (its 64 bytes of fresh capacity are zeros: a particular stale tail) -/
theorem NewEncoder_eq (oracle : Nat → Bytes) : GoSrc.Encoder.NewEncoder oracle = .ok ⟨[], []⟩ := rfl

end Pico.GoTie.E
