import PicoModel.WellTyped
import PicoModel.Small
/-
Line-protocol driver for the correspondence check: one operation per input line, one canonical
result per output line. The harness (Go, calling the real picobuf code in-process) writes the same
lines and diffs the two output streams. Core-only, linked as a `lean_exe`.
-/
open Pico Pico.Wire

namespace Drv

def hexDigit (n : Nat) : Char := if n < 10 then Char.ofNat (48 + n) else Char.ofNat (87 + n)

def hexOf (b : Bytes) : String :=
  if b.isEmpty then "-" else
  String.ofList (b.foldr (fun x acc => hexDigit (x.toNat / 16) :: hexDigit (x.toNat % 16) :: acc) [])

def hexVal (c : Char) : Option Nat :=
  if '0' ≤ c ∧ c ≤ '9' then some (c.toNat - 48)
  else if 'a' ≤ c ∧ c ≤ 'f' then some (c.toNat - 87)
  else if 'A' ≤ c ∧ c ≤ 'F' then some (c.toNat - 55)
  else none

partial def unhexL : List Char → Option Bytes
  | [] => some []
  | a :: b :: rest => do
    let x ← hexVal a
    let y ← hexVal b
    let r ← unhexL rest
    pure (byteOfNat (x * 16 + y) :: r)
  | _ => none

def unhex (s : String) : Option Bytes := if s == "-" then some [] else unhexL s.toList

abbrev P := StateT (List String) Option

def tok : P String := fun ts => match ts with | [] => none | t :: r => some (t, r)
def nat : P Nat := do let t ← tok; match t.toNat? with | some n => pure n | none => failure
def int : P Int := do let t ← tok; match t.toInt? with | some n => pure n | none => failure
def hex : P Bytes := do let t ← tok; match unhex t with | some b => pure b | none => failure

partial def rep {α} (n : Nat) (p : P α) : P (List α) :=
  if n = 0 then pure [] else do let a ← p; let r ← rep (n - 1) p; pure (a :: r)

/-! values -/

partial def pVal : P Val := do
  let t ← tok
  match t with
  | "N" => return .num (← nat)
  | "B" => return .bytes (← hex)
  | "Z" => return .none
  | "S" => return .some (← pVal)
  | "M" => do let k ← nat; let slots ← rep k pVal; let u ← hex; return .msg slots u
  | "L" => do let k ← nat; let vs ← rep k pVal; return .list vs
  | "P" => do
      let k ← nat
      let es ← rep k (do let a ← pVal; let b ← pVal; pure (a, b))
      return .map es
  | _ => failure

partial def showVal : Val → String
  | .num n => s!"N {n}"
  | .bytes b => s!"B {hexOf b}"
  | .none => "Z"
  | .some v => "S " ++ showVal v
  | .msg slots u => s!"M {slots.length}" ++ String.join (slots.map fun v => " " ++ showVal v) ++ " " ++ hexOf u
  | .list vs => s!"L {vs.length}" ++ String.join (vs.map fun v => " " ++ showVal v)
  | .map es =>
    let items := es.map fun e => showVal e.1 ++ " " ++ showVal e.2
    let sorted := items.toArray.qsort (· < ·) |>.toList
    s!"P {es.length}" ++ String.join (sorted.map fun v => " " ++ v)

/-! schema -/

def pField : P Field := do
  let _ ← tok -- "F"
  let num ← nat; let kind ← nat; let ref ← nat; let label ← nat; let oneof ← nat; let always ← nat; let cat ← nat
  let k : FKind ←
    if kind < 15 then pure (FKind.scalar ((Scalar.ofNat? kind).getD .bool))
    else if kind = 15 then pure FKind.enum
    else if kind = 16 then pure (FKind.message ref)
    else pure (FKind.map ((Scalar.ofNat? (ref / 16)).getD .bool) ((Scalar.ofNat? (ref % 16)).getD .bool))
  return { num, kind := k, label, oneof, always := always != 0, cat }

def pMsg : P Msg := do
  let _ ← tok -- "M"
  let cap ← nat; let alw ← nat; let n ← nat
  let fs ← rep n pField
  return { fields := fs, capture := cap != 0, always := alw != 0 }

def pSchema : P Schema := do
  let n ← nat
  rep n pMsg

/-! encoder programs -/

inductive EOp where
  | w (always rep : Bool) (k : Scalar) (field : Int) (vs : List Enc.SVal)
  | msg (kind : Nat) (field : Int) (ok : Bool) (ops : List EOp)   -- 0 Message, 1 AlwaysMessage, 2 PresentMessage, 3 AlwaysAnyBytes
  | renum (field : Int) (xs : List Nat)
  | unrec (b : Bytes)

def pSVal (k : Scalar) : P Enc.SVal := if k.isBytes then (do return .bytes (← hex)) else (do return .num (← nat))

partial def pEOp : P EOp := do
  let t ← tok
  match t with
  | "W" => do
    let a ← nat; let r ← nat; let ki ← nat; let field ← int
    let k := (Scalar.ofNat? ki).getD .bool
    if r != 0 then
      let n ← nat
      let vs ← rep n (pSVal k)
      return .w (a != 0) true k field vs
    else
      let v ← pSVal k
      return .w (a != 0) false k field [v]
  | "MSG" => do let f ← int; let ok ← nat; let n ← nat; let ops ← rep n pEOp; return .msg 0 f (ok != 0) ops
  | "AMSG" => do let f ← int; let ok ← nat; let n ← nat; let ops ← rep n pEOp; return .msg 1 f (ok != 0) ops
  | "PMSG" => do let f ← int; let ok ← nat; let n ← nat; let ops ← rep n pEOp; return .msg 2 f (ok != 0) ops
  | "AAB" => do let f ← int; let ok ← nat; let n ← nat; let ops ← rep n pEOp; return .msg 3 f (ok != 0) ops
  | "RENUM" => do let f ← int; let n ← nat; let xs ← rep n nat; return .renum f xs
  | "UNREC" => return .unrec (← hex)
  | _ => failure

partial def runEOp : EOp → Bytes
  | .w a r k f vs =>
    if r then Enc.writeRepeated a k f vs else Enc.writeSingle a k f (vs.headD (.num 0))
  | .msg kind f ok ops =>
    let payload := (ops.map runEOp).flatten
    match kind with
    | 0 => Enc.message f payload ok
    | 1 => Enc.alwaysMessage f payload
    | 2 => Enc.presentMessage f payload
    | _ => Enc.alwaysAnyBytes f payload
  | .renum f xs => Enc.repeatedEnum f xs
  | .unrec b => b

/-! decoder programs -/

inductive DOp where
  | r (k : Scalar) (field : Int)
  | rr (k : Scalar) (field : Int)
  | renum (field : Int)
  | msg (field : Int) (ops : List DOp)
  | rmsg (field : Int) (ops : List DOp)
  | rmsgn (field : Int) (ops : List DOp)
  | loop (ops : List DOp)
  | unrec (mask : Nat)
  | fail (field : Int)
  | faile (field : Int)

partial def pDOp : P DOp := do
  let t ← tok
  match t with
  | "R" => do let ki ← nat; let f ← int; return .r ((Scalar.ofNat? ki).getD .bool) f
  | "RR" => do let ki ← nat; let f ← int; return .rr ((Scalar.ofNat? ki).getD .bool) f
  | "RENUM" => return .renum (← int)
  | "MSG" => do let f ← int; let n ← nat; let ops ← rep n pDOp; return .msg f ops
  | "RMSG" => do let f ← int; let n ← nat; let ops ← rep n pDOp; return .rmsg f ops
  | "RMSGN" => do let f ← int; let n ← nat; let ops ← rep n pDOp; return .rmsgn f ops
  | "LOOP" => do let n ← nat; let ops ← rep n pDOp; return .loop ops
  | "UNREC" => return .unrec (← nat)
  | "FAIL" => return .fail (← int)
  | "FAILE" => return .faile (← int)
  | _ => failure

def showSVal : Enc.SVal → String
  | .num n => toString n
  | .bytes b => "x" ++ hexOf b

def stateSuffix (d : Dec.Dec) : String := s!"@{d.cur.pendingField}/{d.cur.buffer.length}"

mutual
partial def runDOp : DOp → Dec.DecM (List String)
  | .r k f => fun d log => do
    let (d, a) ← Dec.readSingle k f d
    -- the harness starts every target variable at a sentinel (90 / the byte 5a)
    let v : Enc.SVal := match a with | some v => v | none => (if k.isBytes then .bytes [0x5a#8] else .num (if k == .bool then 1 else 90))
    return (d, log ++ ["r=" ++ showSVal v ++ stateSuffix d])
  | .rr k f => fun d log => do
    let (d, xs) ← Dec.readRepeated k f d []
    return (d, log ++ ["rr=" ++ String.intercalate "," (xs.map showSVal) ++ stateSuffix d])
  | .renum f => fun d log => do
    let (d, xs) ← Dec.readRepeatedEnum f d []
    return (d, log ++ ["re=" ++ String.intercalate "," (xs.map toString) ++ stateSuffix d])
  | .msg f ops => Dec.message f (runDOps ops)
  | .rmsg f ops => Dec.repeatedMessage f (fun d log => Dec.loop (runDOps ops) d (log ++ ["entry"]))
  -- the callback reads the element with ONE pass of its readers, without `Loop`
  | .rmsgn f ops => Dec.repeatedMessage f (fun d log => runDOps ops d (log ++ ["entry"]))
  | .loop ops => Dec.loop (runDOps ops)
  | .unrec mask => fun d log => do
    let (d, out) ← Dec.unrecognizedFields mask d []
    return (d, log ++ ["u=" ++ hexOf out ++ stateSuffix d])
  | .fail f => fun d log =>
    let d := Dec.fail d f "x"
    .ok (d, log ++ ["f" ++ stateSuffix d])
  | .faile f => fun d log =>
    let d := Dec.fail d f ""
    .ok (d, log ++ ["f" ++ stateSuffix d])

partial def runDOps : List DOp → Dec.DecM (List String)
  | [] => fun d log => .ok (d, log)
  | op :: ops => fun d log => do
    let (d, log) ← runDOp op d log
    runDOps ops d log
end

def sanitize (s : String) : String := s.map fun c => if c == ' ' then '_' else c

def showDec (d : Dec.Dec) : String :=
  let e := match d.err with
    | none => "0"
    | some (f, m) => match FieldNum.errorText f m with
      | .ok s => sanitize s
      | _ => "panic"
  s!"pf={d.cur.pendingField} rem={d.cur.buffer.length} err={e}"

def showRes {α} (r : Res α) (f : α → String) : String :=
  match r with
  | .ok a => f a
  | .panic w => "panic " ++ sanitize w
  | .outOfFuel => "fuel"

def b2s (b : Bool) : String := if b then "1" else "0"

def variantOf (n : Nat) : Variant := match n with | 0 => .plain | 1 => .rep | 2 => .always | _ => .alwaysRep

/-- one command; `S` is the current schema -/
def exec (S : Schema) (ts : List String) : Option (Schema × String) :=
  match ts with
  | "schema" :: rest => do let (s, _) ← pSchema rest; pure (s, "ok")
  | "marshal" :: rest => do
    let ((id, v), _) ← (do let id ← nat; let v ← pVal; pure (id, v) : P _) rest
    pure (S, hexOf (Gen2.marshal S id v))
  | "specenc" :: rest => do
    let ((id, v), _) ← (do let id ← nat; let v ← pVal; pure (id, v) : P _) rest
    pure (S, hexOf (Spec.specEnc S id v))
  | "unmarshal" :: rest => do
    let ((id, b, v), _) ← (do let id ← nat; let b ← hex; let v ← pVal; pure (id, b, v) : P _) rest
    pure (S, showRes (Gen2.unmarshal S id b v) fun (d, m) =>
      (match d.err with
        | none => "ok"
        | some (f, msg) => "err " ++ (match FieldNum.errorText f msg with | .ok s => sanitize s | _ => "panic"))
      ++ " " ++ showVal m)
  | "specdec" :: rest => do
    let ((id, b, v), _) ← (do let id ← nat; let b ← hex; let v ← pVal; pure (id, b, v) : P _) rest
    pure (S, match Spec.specUnmarshal S id b v with | some m => "ok " ++ showVal m | none => "none")
  | "zeromsg" :: rest => do
    let (id, _) ← nat rest
    pure (S, showVal (Gen2.zeroMsg S id))
  | "supported" :: _ => pure (S, b2s S.supported)
  | "wt" :: rest => do
    let ((st, id, v), _) ← (do let st ← nat; let id ← nat; let v ← pVal; pure (st, id, v) : P _) rest
    pure (S, b2s (wtMsg S (st != 0) id v))
  | ["varint", n] => do pure (S, hexOf (varint (← n.toNat?)))
  | ["cvarint", h] => do let r := consumeVarint (← unhex h); pure (S, s!"{r.1} {r.2}")
  | ["sizevarint", n] => do pure (S, toString (sizeVarint (← n.toNat?)))
  | ["fixed32", n] => do pure (S, hexOf (fixed32 (← n.toNat?)))
  | ["fixed64", n] => do pure (S, hexOf (fixed64 (← n.toNat?)))
  | ["cfixed32", h] => do let r := consumeFixed32 (← unhex h); pure (S, s!"{r.1} {r.2}")
  | ["cfixed64", h] => do let r := consumeFixed64 (← unhex h); pure (S, s!"{r.1} {r.2}")
  | ["cbytes", h] => do let r := consumeBytes (← unhex h); pure (S, s!"{hexOf r.1} {r.2}")
  | ["tag", n, t] => do pure (S, hexOf (tag (← n.toInt?) (← t.toNat?)))
  | ["apptag", n, t] => do pure (S, hexOf (Enc.appendTag (← n.toInt?) (← t.toNat?)))
  | ["ctag", h] => do let r := consumeTag (← unhex h); pure (S, s!"{r.1} {r.2.1} {r.2.2}")
  | ["cfv", n, t, h] => do pure (S, toString (consumeFieldValue (← n.toInt?) (← t.toNat?) (← unhex h)))
  | ["cfvd", n, t, h, dep] => do pure (S, toString (consumeFieldValueD (← n.toInt?) (← t.toNat?) (← unhex h) (← dep.toInt?)))
  | ["zz64enc", n] => do pure (S, toString (encodeZigZag64 (← n.toNat?)))
  | ["zz64dec", n] => do pure (S, toString (decodeZigZag64 (← n.toNat?)))
  | ["encbits", v, k, n] => do
    pure (S, toString (encBits (variantOf (← v.toNat?)) ((Scalar.ofNat? (← k.toNat?)).getD .bool) (← n.toNat?)))
  | ["decbits", r, k, n] => do
    pure (S, toString (decBits ((← r.toNat?) != 0) ((Scalar.ofNat? (← k.toNat?)).getD .bool) (← n.toNat?)))
  | ["isdefault", k, n] => do
    pure (S, b2s (isDefaultBits ((Scalar.ofNat? (← k.toNat?)).getD .bool) (← n.toNat?)))
  | "enc" :: rest => do
    let (ops, _) ← (do let n ← nat; rep n pEOp : P _) rest
    pure (S, hexOf (ops.map runEOp).flatten)
  | "dec" :: rest => do
    let ((b, ops), _) ← (do let b ← hex; let n ← nat; let ops ← rep n pDOp; pure (b, ops) : P _) rest
    pure (S, showRes (runDOps ops (Dec.new b) []) fun (d, log) =>
      showDec d ++ " " ++ String.intercalate ";" log)
  | ["fieldstr", n] => do
    pure (S, showRes (FieldNum.fieldString (← n.toInt?)) id)
  | "bitset" :: xs => do
    let vs ← xs.mapM String.toInt?
    pure (S, showRes (Bitset.run Bitset.empty vs) fun (_, bs) => String.join (bs.map b2s))
  | ["dursplit", n] => do let r := Time.durSplit (← n.toInt?); pure (S, s!"{r.1} {r.2}")
  | ["durdec", s, n] => do pure (S, toString (Time.durDecode (← s.toInt?) (← n.toInt?)))
  | ["unixnorm", s, n] => do let r := Time.unixNorm (← s.toInt?) (← n.toInt?); pure (S, s!"{r.1} {r.2}")
  | ["tsenc", f, s, n] => do pure (S, hexOf (Gen2.tsEncode (← f.toInt?) (Time.timeCode (← s.toInt?) (← n.toInt?))))
  | ["durenc", f, n] => do pure (S, hexOf (Gen2.durEncode (← f.toInt?) (Time.pat64 (← n.toInt?))))
  | _ => none

partial def loop (h : IO.FS.Stream) (out : IO.FS.Stream) (S : Schema) : IO Unit := do
  let line ← h.getLine
  if line.isEmpty then return ()
  let ts := (line.trimAscii.toString.splitOn " ").filter (· ≠ "")
  match exec S ts with
  | some (S', r) =>
    out.putStrLn r
    out.flush
    loop h out S'
  | none =>
    out.putStrLn "bad-op"
    out.flush
    loop h out S

end Drv

def main : IO Unit := do
  Drv.loop (← IO.getStdin) (← IO.getStdout) []
