import PicoProofs.FieldNumLemmas
import PicoProofs.GoTieSmall
import PicoProofs.GoTieDecoder
import PicoProofs.GoTieDecTypes
import PicoProofs.Tie
import PicoModel.Decoder
/-
C19 — Decoding errors name the offending field, in decimal, for every number.
-/
namespace Pico.Props
open Pico Pico.FieldNum

/-- `FieldNumber.String` is the decimal representation for every int32 value, and never panics -/
theorem C19_string_is_decimal (n : Int) (h : -2147483648 ≤ n ∧ n ≤ 2147483647) :
    fieldString n = .ok (toString n) := fieldString_decimal n h

/-- the error text of a failed read of field `n` contains that number and the description -/
theorem C19_error_text (n : Int) (h : -2147483648 ≤ n ∧ n ≤ 2147483647) (msg : String) :
    errorText n msg = .ok ("failed while parsing " ++ toString n ++ ": " ++ msg) := errorText_names_field n h msg

/-- a typed reader that fails on the wire type latches an error naming ITS field (the argument it
was called with) and the expected wire type -/
theorem C19_wrong_wire_names_field (k : Scalar) (field : Int) (d : Dec.Dec)
    (hp : d.cur.pendingField = field) (hw : d.cur.pendingWire ≠ k.wire) :
    ∃ d', Dec.readSingle k field d = .ok (d', none) ∧
      d'.err = some (field, "expected wire type " ++ Dec.wireName k.wire) ∧ d'.cur.pendingField = -1 := by
  refine ⟨Dec.fail d field ("expected wire type " ++ Dec.wireName k.wire), ?_, rfl, rfl⟩
  simp [Dec.readSingle, hp, hw]

/-- … and one that fails on an unparsable value names its field and the primitive -/
theorem C19_bad_value_names_field (k : Scalar) (field : Int) (d : Dec.Dec)
    (hp : d.cur.pendingField = field) (hw : d.cur.pendingWire = k.wire)
    (hbad : (Dec.consumeScalar false k d.cur.buffer).2 < 0) :
    ∃ d', Dec.readSingle k field d = .ok (d', none) ∧
      d'.err = some (field, "unable to parse " ++ Dec.primName k) ∧ d'.cur.pendingField = -1 := by
  refine ⟨Dec.fail d field ("unable to parse " ++ Dec.primName k), ?_, rfl, rfl⟩
  simp [Dec.readSingle, hp, hw, hbad]

/-- length-delimited readers too (Message / PresentMessage): a truncated payload names the field -/
theorem C19_truncated_message_names_field {σ} (field : Int) (fn : Dec.DecM σ) (d : Dec.Dec) (s : σ)
    (hp : d.cur.pendingField = field) (hw : d.cur.pendingWire = 2)
    (hbad : (Wire.consumeBytes d.cur.buffer).2 < 0) :
    Dec.message field fn d s = .ok (Dec.fail d field "unable to parse Bytes", s) := by
  simp [Dec.message, hp, hw, hbad]

/-- the same two facts stated about the Go source itself: `GoSrc.Small.fieldNumberString` and
`GoSrc.Small.parseErrorError` are the statement-level translations of `FieldNumber.String`
(message.go) and `parseError.Error` (decoder.go), regenerated from the working tree on every run:
the hand-rolled itoa over the 11-byte array never indexes out of range and yields the decimal form,
for every int32 -/
theorem C19_source_string_is_decimal (n : Int) (h : -2147483648 ≤ n ∧ n ≤ 2147483647) :
    GoSrc.Small.fieldNumberString n = .ok (toString n) := GoTie.S.fieldNumberString_decimal n h

theorem C19_source_error_text (n : Int) (h : -2147483648 ≤ n ∧ n ≤ 2147483647) (msg : String) :
    GoSrc.Small.parseErrorError (n, msg) = .ok ("failed while parsing " ++ toString n ++ ": " ++ msg) :=
  GoTie.S.parseErrorError_eq n h msg

/-- … and `Decoder.fail` as translated from decoder.go latches exactly the (field, message) pair that
`parseError.Error` renders -/
theorem C19_source_fail_latches (field : Int) (msg : String) (d : Dec.Dec) :
    ∃ d', GoSrc.Decoder.fail field msg d = .ok d' ∧ d'.err = some (field, msg) ∧ d'.cur.pendingField = -1 :=
  ⟨Dec.fail d field msg, rfl, rfl, rfl⟩

example : fieldString (-2147483648) = .ok "-2147483648" := fieldString_decimal _ (by decide)
example : fieldString 1099999999 = .ok "1099999999" := fieldString_decimal _ (by decide)

open Pico.GoTie.DT in
/-- SOURCE: the reader translated from decoder_types.go, called on its own field with the wrong wire
type, leaves `*v` alone and latches an error naming the field it was called with -/
theorem C19_source_wrong_wire_names_field (k : Scalar) (field : Int) (d : Dec.Dec) (v : GoVal k)
    (hp : d.cur.pendingField = field) (hw : d.cur.pendingWire ≠ k.wire) :
    ∃ d', srcReadSingle k field d v = .ok (d', v) ∧
      d'.err = some (field, "expected wire type " ++ Dec.wireName k.wire) ∧ d'.cur.pendingField = -1 := by
  obtain ⟨d', h1, h2, h3⟩ := C19_wrong_wire_names_field k field d hp hw
  exact ⟨d', by rw [readSingle_tie, h1]; rfl, h2, h3⟩

open Pico.GoTie.DT in
/-- SOURCE: … and with an unparsable value it names the field and the primitive -/
theorem C19_source_bad_value_names_field (k : Scalar) (field : Int) (d : Dec.Dec) (v : GoVal k)
    (hp : d.cur.pendingField = field) (hw : d.cur.pendingWire = k.wire)
    (hbad : (Dec.consumeScalar false k d.cur.buffer).2 < 0) :
    ∃ d', srcReadSingle k field d v = .ok (d', v) ∧
      d'.err = some (field, "unable to parse " ++ Dec.primName k) ∧ d'.cur.pendingField = -1 := by
  obtain ⟨d', h1, h2, h3⟩ := C19_bad_value_names_field k field d hp hw hbad
  exact ⟨d', by rw [readSingle_tie, h1]; rfl, h2, h3⟩

end Pico.Props
