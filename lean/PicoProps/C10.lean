import PicoProofs.EndToEnd
import PicoProofs.Tie
import PicoProofs.SpecForward
import PicoModel.Sample
/-
C10 — Unknown fields never disturb known ones; captured ones are forwarded intact.
-/
namespace Pico.Props
open Pico Pico.Spec

/-- a field whose number the message type does not know — of ANY wire type, nested groups included
(`parse1` tokenizes all six) — inserted anywhere between fields changes nothing in a message that
does not capture -/
theorem C10_unknown_skipped (S : Schema) (id : Nat) (a u b : Bytes) (r : Record) (m : Val) (n : Nat) (rs : List Record)
    (hu : parse1 u = some (r, [])) (hf : findField (S.msg id).fields r.num = none)
    (hc : (S.msg id).capture = false) (ha : records n a = some rs) :
    specUnmarshal S id (a ++ u ++ b) m = specUnmarshal S id (a ++ b) m :=
  unknown_skipped_records S id b hu hf hc ha

/-- in a capturing message the unknown field is appended verbatim (after a minimal tag) to the
captured bytes and the known slots are untouched -/
theorem C10_unknown_captured (S : Schema) (id : Nat) (u : Bytes) (r : Record) (slots : List Val) (unrec : Bytes)
    (hu : parse1 u = some (r, [])) (hf : findField (S.msg id).fields r.num = none)
    (hc : (S.msg id).capture = true) :
    specUnmarshal S id u (.msg slots unrec) = some (.msg slots (unrec ++ Wire.tag r.num r.wire ++ r.raw)) :=
  unknown_captured S id slots unrec hu hf hc

/-- the captured bytes are exactly the unknown fields in their original order -/
theorem C10_capture_exact (S : Schema) (id : Nat) (hc : (S.msg id).capture = true) (n : Nat) (b : Bytes)
    (rs : List Record) (slots : List Val) (u0 : Bytes) (hr : records n b = some rs)
    (hall : ∀ r ∈ rs, findField (S.msg id).fields r.num = none) :
    specUnmarshal S id b (.msg slots u0) =
      some (.msg slots (u0 ++ (rs.map fun r => Wire.tag r.num r.wire ++ r.raw).flatten)) :=
  capture_exact S id hc n b rs slots u0 hr hall

/-- Marshal re-emits the captured bytes, last (by definition of the canonical encoder) -/
theorem C10_marshal_reemits (S : Schema) (id : Nat) (slots : List Val) (unrec : Bytes) (hc : (S.msg id).capture = true) :
    specEnc S id (.msg slots unrec) = sortChunks (encSlots S (S.msg id).fields slots) ++ unrec := by
  simp [specEnc, hc]

/-- malformed unknown data yields an error, not a crash: the machine is total on every input (C04)
and the specification rejects an incomplete unknown field -/
theorem C10_malformed_unknown_no_crash (S : Schema) (id : Nat) (data : Bytes) (m0 : Val) :
    ∃ d m, Gen2.unmarshal S id data m0 = .ok (d, m) := Gen2.unmarshal_total S id data m0

/-- MACHINE LEVEL: the real decoder computes the specification on every input, so all of the above
hold for `Gen2.unmarshal` — e.g. an inserted unknown field does not change verdict or value -/
theorem C10_unmarshal_skips_unknown (S : Schema) (hS : S.supported = true) (id : Nat) (a u b : Bytes) (r : Record)
    (n : Nat) (rs : List Record)
    (hu : parse1 u = some (r, [])) (hf : findField (S.msg id).fields r.num = none)
    (hc : (S.msg id).capture = false) (ha : records n a = some rs) :
    ∃ d m d' m', Gen2.unmarshal S id (a ++ u ++ b) (Gen2.zeroMsg S id) = .ok (d, m) ∧
      Gen2.unmarshal S id (a ++ b) (Gen2.zeroMsg S id) = .ok (d', m') ∧
      (d.err = none ↔ d'.err = none) ∧ (d.err = none → m = m') := by
  obtain ⟨d, m, hr, hiff, hval⟩ := Gen2.unmarshal_new_refines_spec S hS id (a ++ u ++ b)
  obtain ⟨d', m', hr', hiff', hval'⟩ := Gen2.unmarshal_new_refines_spec S hS id (a ++ b)
  have heq := unknown_skipped_records S id b (m := Gen2.zeroMsg S id) hu hf hc ha
  refine ⟨d, m, d', m', hr, hr', ?_, ?_⟩
  · rw [hiff, hiff', heq]
  · intro he
    have e1 := hval he
    have he' : d'.err = none := by rw [hiff', ← heq, e1]; rfl
    have e2 := hval' he'
    rw [heq, e2] at e1
    exact (Option.some.inj e1).symm

/-- every record the tokenizer accepts — any wire type, nested groups, non-minimal tag — is read back
as the very same record after being re-emitted as `minimal tag ++ captured value bytes`: the value
bytes cut out of the input are a complete value (`Wire.consumeFieldValue_take`: the tokenizer reads
nothing beyond the length it reports) -/
theorem C10_captured_record_reparses (b : Bytes) (r : Record) (rest : Bytes) (h : parse1 b = some (r, rest))
    (rest' : Bytes) : parse1 (Wire.tag r.num r.wire ++ r.raw ++ rest') = some (r, rest') :=
  selfParsing_of_parse1 h rest'

/-- "the captured bytes are exactly those fields in their original order", at full strength: for
ANY accepted input, known and unknown fields interleaved in any way, the captured bytes are the
unknown records (minimal tag ++ original value bytes) in input order, nothing else -/
theorem C10_capture_exact_mixed (S : Schema) (id : Nat) (hc : (S.msg id).capture = true) (n : Nat) (b : Bytes)
    (rs : List Record) (hr : records n b = some rs) (slots : List Val) (u0 : Bytes) (v : Val)
    (h : specUnmarshal S id b (.msg slots u0) = some v) :
    ∃ slots', v = .msg slots' (u0 ++ ((unknownOf S id rs).map fun r => Wire.tag r.num r.wire ++ r.raw).flatten) :=
  capture_exact_mixed S id hc n b rs hr slots u0 v h

/-- MACHINE LEVEL of the same: whenever the real decoder accepts an input into a fresh capturing
message, the `XXX_unrecognized` bytes it leaves are exactly the unknown records of the input, in
input order, each as minimal tag ++ original value bytes -/
theorem C10_unmarshal_captures_exactly (S : Schema) (hS : S.supported = true) (id : Nat)
    (hc : (S.msg id).capture = true) (n : Nat) (b : Bytes) (rs : List Record) (hr : records n b = some rs) :
    ∃ d m, Gen2.unmarshal S id b (Gen2.zeroMsg S id) = .ok (d, m) ∧
      (d.err = none → ∃ slots', m = .msg slots'
        ((unknownOf S id rs).map fun r => Wire.tag r.num r.wire ++ r.raw).flatten) := by
  obtain ⟨d, m, hrun, _, hval⟩ := Gen2.unmarshal_new_refines_spec S hS id b
  refine ⟨d, m, hrun, fun he => ?_⟩
  obtain ⟨slots, u, hz, _⟩ := Perm.wide_zeroMsg S id
  have hu : u = [] := by
    have : Gen2.zeroMsg S id = .msg ((S.msg id).fields.map fun f => Gen2.zeroSlot S (Gen2.zeroMsgN S S.length) f) [] := by
      unfold Gen2.zeroMsg; rw [Gen2.zeroMsgN]
    rw [this] at hz
    exact (Val.msg.inj hz).2.symm
  subst hu
  have h := hval he
  rw [hz] at h
  have := capture_exact_mixed S id hc n b rs hr slots [] m h
  simpa using this

/-- … and those bytes tokenize into exactly those records again: the unknown fields are forwarded intact -/
theorem C10_captured_bytes_records (S : Schema) (id : Nat) (n : Nat) (b : Bytes) (rs : List Record)
    (hr : records n b = some rs) :
    records ((unknownOf S id rs).length + 1)
      ((unknownOf S id rs).map fun r => Wire.tag r.num r.wire ++ r.raw).flatten = some (unknownOf S id rs) :=
  captured_bytes_records S id n b rs hr

/-- … so every captured byte string the decoder can produce meets the `unrecOk` premise of strict
well-typedness — the hypothesis about `XXX_unrecognized` under which the round-trip theorems
(C03, C08, C12) are stated is met by every value that comes out of a decode -/
theorem C10_captured_unrecOk (S : Schema) (id : Nat) (n : Nat) (b : Bytes) (rs : List Record)
    (hr : records n b = some rs) :
    unrecOk (S.msg id).fields ((unknownOf S id rs).map fun r => Wire.tag r.num r.wire ++ r.raw).flatten = true :=
  captured_unrecOk S id n b rs hr

/-- FORWARDING CHAIN, any capturing intermediary (it may know any subset of the fields): the
re-marshalled bytes are the canonical encoding of its known part followed by the captured records,
and a receiver that accepts the known part then applies exactly the sender's records the
intermediary did not know, in the sender's order. (What is NOT proved in general: that the known
part, re-encoded canonically, decodes at the receiver like the sender's known records did — the
value-level round trip relative to two message types; see `C10_forwarder_chain_partial` for the
case without a known part, and stream M for the rest.) -/
theorem C10_chain_unknown_part (S : Schema) (idN idW : Nat) (hc : (S.msg idN).capture = true) (n : Nat) (b : Bytes)
    (rs : List Record) (hr : records n b = some rs) (slots : List Val) (v : Val)
    (h : specUnmarshal S idN b (.msg slots []) = some v) :
    ∃ slots', v = .msg slots' ((unknownOf S idN rs).map fun r => Wire.tag r.num r.wire ++ r.raw).flatten ∧
      specEnc S idN v = sortChunks (encSlots S (S.msg idN).fields slots')
        ++ ((unknownOf S idN rs).map fun r => Wire.tag r.num r.wire ++ r.raw).flatten ∧
      ∀ mW m1, specUnmarshal S idW (sortChunks (encSlots S (S.msg idN).fields slots')) mW = some m1 →
        specUnmarshal S idW (specEnc S idN v) mW = Perm.foldSteps S idW (unknownOf S idN rs) m1 :=
  chain_unknown_part S idN idW hc n b rs hr slots v h

/-- FORWARDING CHAIN, partial: sender → intermediary → receiver for an intermediary whose message
type captures unrecognized fields and knows none of the sender's fields (a pure forwarder). For
EVERY well-formed input `b`, every receiver type `idW` and start value: the forwarder decodes `b`,
and decoding what it re-marshals equals decoding `b` itself — the receiver recovers every field the
sender wrote. (The general chain, with an intermediary that also knows some of the fields, is not
proved: it needs the value-level round trip relative to two message types; it is exercised by the
forward-compatibility chains of correspondence stream M on every run.) -/
theorem C10_forwarder_chain_partial (S : Schema) (idN idW : Nat) (hf : (S.msg idN).fields = [])
    (hc : (S.msg idN).capture = true) (n : Nat) (b : Bytes) (rs : List Record) (hr : records n b = some rs)
    (slots : List Val) (mW : Val) :
    ∃ v, specUnmarshal S idN b (.msg slots []) = some v ∧
      specUnmarshal S idW (specEnc S idN v) mW = specUnmarshal S idW b mW :=
  forwarder_chain S idN idW hf hc n b rs hr slots mW

/-- the forwarder's re-marshalled bytes are a fixed point: decoding them again into a fresh forwarder
message gives the same message, so any number of forwarding hops leaves the bytes and the receiver's
result unchanged after the first -/
theorem C10_forwarder_remarshal_fixpoint (S : Schema) (idN : Nat) (hf : (S.msg idN).fields = [])
    (hc : (S.msg idN).capture = true) (n : Nat) (b : Bytes) (rs : List Record) (hr : records n b = some rs)
    (slots : List Val) :
    ∃ v, specUnmarshal S idN b (.msg slots []) = some v ∧
      specUnmarshal S idN (specEnc S idN v) (.msg slots []) = some v := by
  have hall : ∀ r ∈ rs, findField (S.msg idN).fields r.num = none := fun r _ => by rw [hf]; rfl
  have h1 := capture_exact S idN hc n b rs slots [] hr hall
  refine ⟨_, h1, ?_⟩
  have hout : specEnc S idN (.msg slots ([] ++ (rs.map fun r => Wire.tag r.num r.wire ++ r.raw).flatten))
      = (rs.map fun r => Wire.tag r.num r.wire ++ r.raw).flatten := by
    simp [specEnc, hc, hf, encSlots, sortChunks]
  rw [hout]
  exact capture_exact S idN hc _ _ rs slots [] (records_retag rs (selfParsing_of_records n b rs hr)) hall

/-- MACHINE LEVEL of the same chain: the real decoder on the sender's bytes into a fresh forwarder
message reports no error; the real decoder of the receiver run on the real Marshal of that message
gives the same verdict and the same value as on the sender's bytes -/
theorem C10_forwarder_chain_machine_partial (S : Schema) (hS : S.supported = true) (idN idW : Nat)
    (hf : (S.msg idN).fields = []) (hc : (S.msg idN).capture = true) (n : Nat) (b : Bytes) (rs : List Record)
    (hr : records n b = some rs) :
    ∃ dN v, Gen2.unmarshal S idN b (Gen2.zeroMsg S idN) = .ok (dN, v) ∧ dN.err = none ∧
      ∃ d m d' m', Gen2.unmarshal S idW (Gen2.marshal S idN v) (Gen2.zeroMsg S idW) = .ok (d, m) ∧
        Gen2.unmarshal S idW b (Gen2.zeroMsg S idW) = .ok (d', m') ∧
        (d.err = none ↔ d'.err = none) ∧ (d.err = none → m = m') := by
  have hz : Gen2.zeroMsg S idN = .msg [] [] := by
    unfold Gen2.zeroMsg Gen2.zeroMsgN; rw [hf]; rfl
  have hcap := capture_exact S idN hc n b rs [] [] hr (fun r _ => by rw [hf]; rfl)
  rw [List.nil_append] at hcap
  obtain ⟨dN, v, hrN, hiffN, hvalN⟩ := Gen2.unmarshal_new_refines_spec S hS idN b
  rw [hz] at hiffN hvalN
  have heN : dN.err = none := hiffN.mpr (by rw [hcap]; rfl)
  have hv := hvalN heN
  rw [hcap] at hv
  have hv' := (Option.some.inj hv).symm
  subst hv'
  refine ⟨dN, _, hrN, heN, ?_⟩
  have hwt : wtMsg S false idN (.msg [] (rs.map fun r => Wire.tag r.num r.wire ++ r.raw).flatten) = true := by
    simp [wtMsg, wtSlots, hf, hc, oneofExclusive]
  rw [marshal_eq_spec S idN _ hwt]
  have hout : specEnc S idN (.msg [] (rs.map fun r => Wire.tag r.num r.wire ++ r.raw).flatten)
      = (rs.map fun r => Wire.tag r.num r.wire ++ r.raw).flatten := by
    simp [specEnc, hc, hf, encSlots, sortChunks]
  rw [hout]
  have heq := specUnmarshal_same_records S idW _ n _ b rs (Gen2.zeroMsg S idW)
    (records_retag rs (selfParsing_of_records n b rs hr)) hr
  obtain ⟨d, m, hr1, hiff, hval⟩ := Gen2.unmarshal_new_refines_spec S hS idW
    (rs.map fun r => Wire.tag r.num r.wire ++ r.raw).flatten
  obtain ⟨d', m', hr', hiff', hval'⟩ := Gen2.unmarshal_new_refines_spec S hS idW b
  refine ⟨d, m, d', m', hr1, hr', ?_, ?_⟩
  · rw [hiff, hiff', heq]
  · intro he
    have e1 := hval he
    have he' : d'.err = none := by rw [hiff', ← heq, e1]; rfl
    have e2 := hval' he'
    rw [heq, e2] at e1
    exact (Option.some.inj e1).symm

/-- non-vacuity: unknown fields of several wire types — a varint, a group holding a varint field, a
fixed32 with a field number above 63 — each a whole record, each unknown to the message; a capturing
and a non-capturing message -/
example : Spec.parse1 [0x78, 1] = some (⟨15, 0, [1]⟩, []) ∧ Spec.findField (S1.msg 0).fields 15 = none := by decide +kernel
example : Spec.parse1 [0x7b, 8, 1, 0x7c] = some (⟨15, 3, [8, 1, 0x7c]⟩, []) := by decide +kernel
example : Spec.parse1 [0xa5, 6, 1, 2, 3, 4] = some (⟨100, 5, [1, 2, 3, 4]⟩, []) ∧
    Spec.findField (S1.msg 1).fields 100 = none := by decide +kernel
example : (S1.msg 0).capture = false ∧ (S1.msg 1).capture = true := by decide +kernel

/-- non-vacuity of the forwarding chain: a supported schema with a pure forwarder type (message 2),
and a sender input holding a varint field with a non-minimal tag, a group and a fixed32 field -/
def S3 : Schema := S1 ++ [⟨[], true, false⟩]
example : (S3.msg 2).fields = [] ∧ (S3.msg 2).capture = true ∧ S3.supported = true := by decide +kernel
example : (specUnmarshal S1 1 [8, 5, 0x78, 1, 8, 6] (.msg [.num 0] [])).isSome = true ∧ (S1.msg 1).capture = true ∧
    unknownOf S1 1 [⟨1, 0, [5]⟩, ⟨15, 0, [1]⟩, ⟨1, 0, [6]⟩] = [⟨15, 0, [1]⟩] := by decide +kernel
example : records 4 [0xf8, 0x80, 0x00, 1, 0x7b, 8, 1, 0x7c, 0xa5, 6, 1, 2, 3, 4] =
    some [⟨15, 0, [1]⟩, ⟨15, 3, [8, 1, 0x7c]⟩, ⟨100, 5, [1, 2, 3, 4]⟩] := by decide +kernel

end Pico.Props
