import PicoProofs.EndToEnd
import PicoProofs.Tie
import PicoModel.Sample
/-
C10 — Unknown fields never disturb known ones; captured ones are forwarded intact.
-/
namespace Pico.Props
open Pico Pico.Spec

/-- a field whose number the message type does not know — of ANY wire type, nested groups included
(`parse1` tokenizes all six) — inserted anywhere between fields changes nothing in a message that
does not capture -/
theorem C10_unknown_skipped (S : Schema) (id : Nat) (a u b : Bytes) (r : Record) (m : Val) (n : Nat) (rs : List Record)
    (hu : parse1 u = some (r, [])) (hf : findField (S.msg id).fields r.num = none)
    (hc : (S.msg id).capture = false) (ha : records n a = some rs) :
    specUnmarshal S id (a ++ u ++ b) m = specUnmarshal S id (a ++ b) m :=
  unknown_skipped_records S id b hu hf hc ha

/-- in a capturing message the unknown field is appended verbatim (after a minimal tag) to the
captured bytes and the known slots are untouched -/
theorem C10_unknown_captured (S : Schema) (id : Nat) (u : Bytes) (r : Record) (slots : List Val) (unrec : Bytes)
    (hu : parse1 u = some (r, [])) (hf : findField (S.msg id).fields r.num = none)
    (hc : (S.msg id).capture = true) :
    specUnmarshal S id u (.msg slots unrec) = some (.msg slots (unrec ++ Wire.tag r.num r.wire ++ r.raw)) :=
  unknown_captured S id slots unrec hu hf hc

/-- the captured bytes are exactly the unknown fields in their original order -/
theorem C10_capture_exact (S : Schema) (id : Nat) (hc : (S.msg id).capture = true) (n : Nat) (b : Bytes)
    (rs : List Record) (slots : List Val) (u0 : Bytes) (hr : records n b = some rs)
    (hall : ∀ r ∈ rs, findField (S.msg id).fields r.num = none) :
    specUnmarshal S id b (.msg slots u0) =
      some (.msg slots (u0 ++ (rs.map fun r => Wire.tag r.num r.wire ++ r.raw).flatten)) :=
  capture_exact S id hc n b rs slots u0 hr hall

/-- Marshal re-emits the captured bytes, last (by definition of the canonical encoder) -/
theorem C10_marshal_reemits (S : Schema) (id : Nat) (slots : List Val) (unrec : Bytes) (hc : (S.msg id).capture = true) :
    specEnc S id (.msg slots unrec) = sortChunks (encSlots S (S.msg id).fields slots) ++ unrec := by
  simp [specEnc, hc]

/-- malformed unknown data yields an error, not a crash: the machine is total on every input (C04)
and the specification rejects an incomplete unknown field -/
theorem C10_malformed_unknown_no_crash (S : Schema) (id : Nat) (data : Bytes) (m0 : Val) :
    ∃ d m, Gen2.unmarshal S id data m0 = .ok (d, m) := Gen2.unmarshal_total S id data m0

/-- MACHINE LEVEL: the real decoder computes the specification on every input, so all of the above
hold for `Gen2.unmarshal` — e.g. an inserted unknown field does not change verdict or value -/
theorem C10_unmarshal_skips_unknown (S : Schema) (hS : S.supported = true) (id : Nat) (a u b : Bytes) (r : Record)
    (n : Nat) (rs : List Record)
    (hu : parse1 u = some (r, [])) (hf : findField (S.msg id).fields r.num = none)
    (hc : (S.msg id).capture = false) (ha : records n a = some rs) :
    ∃ d m d' m', Gen2.unmarshal S id (a ++ u ++ b) (Gen2.zeroMsg S id) = .ok (d, m) ∧
      Gen2.unmarshal S id (a ++ b) (Gen2.zeroMsg S id) = .ok (d', m') ∧
      (d.err = none ↔ d'.err = none) ∧ (d.err = none → m = m') := by
  obtain ⟨d, m, hr, hiff, hval⟩ := Gen2.unmarshal_new_refines_spec S hS id (a ++ u ++ b)
  obtain ⟨d', m', hr', hiff', hval'⟩ := Gen2.unmarshal_new_refines_spec S hS id (a ++ b)
  have heq := unknown_skipped_records S id b (m := Gen2.zeroMsg S id) hu hf hc ha
  refine ⟨d, m, d', m', hr, hr', ?_, ?_⟩
  · rw [hiff, hiff', heq]
  · intro he
    have e1 := hval he
    have he' : d'.err = none := by rw [hiff', ← heq, e1]; rfl
    have e2 := hval' he'
    rw [heq, e2] at e1
    exact (Option.some.inj e1).symm

/-- non-vacuity: unknown fields of several wire types — a varint, a group holding a varint field, a
fixed32 with a field number above 63 — each a whole record, each unknown to the message; a capturing
and a non-capturing message -/
example : Spec.parse1 [0x78, 1] = some (⟨15, 0, [1]⟩, []) ∧ Spec.findField (S1.msg 0).fields 15 = none := by decide +kernel
example : Spec.parse1 [0x7b, 8, 1, 0x7c] = some (⟨15, 3, [8, 1, 0x7c]⟩, []) := by decide +kernel
example : Spec.parse1 [0xa5, 6, 1, 2, 3, 4] = some (⟨100, 5, [1, 2, 3, 4]⟩, []) ∧
    Spec.findField (S1.msg 1).fields 100 = none := by decide +kernel
example : (S1.msg 0).capture = false ∧ (S1.msg 1).capture = true := by decide +kernel

end Pico.Props
