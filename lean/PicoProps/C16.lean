import PicoProofs.Tie
import PicoProofs.GoTieApi
import PicoProofs.GoTieEncProg
import PicoProofs.GoTieCoverage
/-
C16 — Concurrent encoding and decoding are race-free (PARTIAL: the Go memory model, the compiler
and the standard library are outside the model).

What is proved: (1) scheduling: threads that own their state and only read a shared store compute,
under EVERY interleaving of any length and any number of threads, exactly what each computes alone;
(2) the hypothesis of (1) is discharged for the library by facts regenerated from the source: no
package-level mutable state, no goroutines, no sync/atomic/unsafe, and every store goes through the
encoder's / decoder's own receiver or an output parameter (never through a message being encoded or
the input being decoded).
-/
namespace Pico.Props
open Pico Pico.Sched

/-- thread `i` alone: apply its step once per occurrence of `i` in the schedule -/
def alone {σ Sh : Type} (step : Nat → Sh → σ → σ) (sh : Sh) (i : Nat) : List Nat → σ → σ
  | [], s => s
  | t :: ts, s => if t = i then alone step sh i ts (step i sh s) else alone step sh i ts s

/-- every interleaving gives every thread its sequential result -/
theorem C16_schedule_independent {σ Sh : Type} (step : Nat → Sh → σ → σ) (sh : Sh) (sched : List Nat)
    (st : Nat → σ) (i : Nat) : run step sh sched st i = alone step sh i sched (st i) := by
  induction sched generalizing st with
  | nil => rfl
  | cons t ts ih =>
    simp only [run, alone]
    rw [ih]
    by_cases h : t = i
    · subst h; simp
    · have : (i = t) = False := by simp; exact fun e => h e.symm
      simp [h, this]

/-- two schedules with the same per-thread projection are indistinguishable for that thread -/
theorem C16_only_own_steps_matter {σ Sh : Type} (step : Nat → Sh → σ → σ) (sh : Sh) (s1 s2 : List Nat)
    (st : Nat → σ) (i : Nat) (h : s1.filter (· = i) = s2.filter (· = i)) :
    run step sh s1 st i = run step sh s2 st i := by
  rw [C16_schedule_independent, C16_schedule_independent]
  have key : ∀ (l : List Nat) (s : σ), alone step sh i l s = alone step sh i (l.filter (· = i)) s := by
    intro l
    induction l with
    | nil => intro s; rfl
    | cons t ts ih =>
      intro s
      by_cases ht : t = i
      · subst ht; simp [alone, ih]
      · simp [alone, ht, ih]
  rw [key s1, key s2, h]

/-- the library keeps no shared mutable state between calls (regenerated facts) -/
theorem C16_no_shared_mutable_state :
    Gen.globalVars = Tie.expectedGlobalVars ∧ Gen.globalWrites = [] ∧ Gen.goStmts = [] ∧ Gen.suspectImports = [] :=
  Tie.no_shared_mutable_state

/-- arguments are only read: stores go through receivers and output parameters only -/
theorem C16_arguments_read_only :
    Tie.storesOK Gen.paramStores Gen.copyCalls = true :=
  Tie.stores_are_the_modelled_ones

/-- one `picobuf.Unmarshal(data, &m)` of thread-private message `m` on the SHARED input `data`, run
through the translated Go source. That this is a function of `(data, m)` and nothing else is not an
assumption: the translator emits a closed Lean term per Go function and rejects any identifier that
is not a parameter, a local or a translated function — a package-level variable, a pool or a cache
in decoder.go / message.go / wire.go would make the function untranslatable (and the list of
functions not covered by any translation is pinned by `GoTie.untranslated_expected`). -/
def unmarshalStep (S : Schema) (id : Nat) : Nat → Bytes → Val → Val := fun _ data m =>
  match GoTie.srcUnmarshal S id data m with
  | .ok (m', _) => m'
  | _ => m

/-- any number of goroutines unmarshalling the same input into their own messages, under every
interleaving: each obtains exactly its sequential result -/
theorem C16_source_concurrent_unmarshal (S : Schema) (id : Nat) (data : Bytes) (sched : List Nat)
    (st : Nat → Val) (i : Nat) :
    run (unmarshalStep S id) data sched st i = alone (unmarshalStep S id) data i sched (st i) :=
  C16_schedule_independent _ _ _ _ _

/-- the same for encoders: each goroutine runs an encoder program (`GoTie.E.SOp`, through the
translated encoder.go) on its own buffer; the shared store is the program (the message being
marshalled is only read) -/
def marshalStep (oracle : Nat → Bytes) : Nat → List GoTie.E.SOp → Option EncLow.Buf → Option EncLow.Buf := fun _ prog b =>
  match b with
  | none => none
  | some b => match GoTie.E.srcOps oracle prog b with
    | .ok b' => some b'
    | _ => none

theorem C16_source_concurrent_marshal (oracle : Nat → Bytes) (prog : List GoTie.E.SOp) (sched : List Nat)
    (st : Nat → Option EncLow.Buf) (i : Nat) :
    run (marshalStep oracle) prog sched st i = alone (marshalStep oracle) prog i sched (st i) :=
  C16_schedule_independent _ _ _ _ _

example : run (fun _ (sh : Nat) (s : Nat) => s + sh) 3 [0, 1, 0, 2, 1, 0] (fun _ => 0) 0 = 9 := by decide

end Pico.Props
