import PicoProofs.FieldLemmas
import PicoProofs.Tie
/-
C15 — Every 32-bit scalar value encodes to reference bytes and decodes to itself.

The theorems quantify over ALL `BitVec 32` (no enumeration). The definitions `Gen.*`, `encBits`,
`decBits`, `isDefaultBits` are regenerated from conv.go / encoder_types.go / decoder_types.go on
every run; `Spec.scalarBits` is the protobuf specification's closed form (sign-extended varint,
zig-zag, little-endian word).
-/
namespace Pico.Props
open Pico

/-- the 32-bit kinds (an enum field is written and read as int32) -/
def is32 (k : Scalar) : Prop := k = .int32 ∨ k = .sint32 ∨ k = .sfixed32 ∨ k = .uint32 ∨ k = .fixed32 ∨ k = .float

theorem width32 {k : Scalar} (h : is32 k) : k.width = 32 ∧ k.isBytes = false := by
  rcases h with h | h | h | h | h | h <;> subst h <;> simp [Scalar.width, Scalar.isBytes]

/-- every writer variant (singular, packed element, oneof member = Always) hands the protobuf
specification's number to the wire primitive -/
theorem C15_encode_is_spec (k : Scalar) (hk : is32 k) (var : Variant) (v : BitVec 32) :
    encBits var k v.toNat = Spec.scalarBits k v.toNat := by
  have hw := (width32 hk).1
  exact enc_closed_form var k v.toNat (by rw [hw]; exact v.isLt)

/-- decoding what was encoded gives back exactly the same 32 bits -/
theorem C15_decode_inverts_encode (k : Scalar) (hk : is32 k) (rep : Bool) (var : Variant) (v : BitVec 32) :
    decBits rep k (encBits var k v.toNat) = v.toNat := by
  have hw := (width32 hk).1
  exact (roundtrip_bits rep var k v.toNat (by rw [hw]; exact v.isLt)).2

/-- the same at the level of bytes: the reader consumes exactly what the writer appended after the
tag and returns the value, whatever follows -/
theorem C15_bytes_roundtrip (k : Scalar) (hk : is32 k) (rep : Bool) (var : Variant) (v : BitVec 32) (rest : Bytes) :
    Dec.consumeScalar rep k (Enc.scalarPayload var k (.num v.toNat) ++ rest)
      = (.num v.toNat, ((Enc.scalarPayload var k (.num v.toNat)).length : Int)) := by
  have hw := width32 hk
  exact consumeScalar_scalarPayload rep var k (.num v.toNat) ⟨hw.2, by rw [hw.1]; exact v.isLt⟩ rest

/-- there is no exceptional value: the plain writer omits exactly the all-zero bit pattern (for
floats: +0.0 only, not -0.0) -/
theorem C15_only_zero_is_default (k : Scalar) (hk : is32 k) (v : BitVec 32) :
    isDefaultBits k v.toNat = true ↔ v = 0#32 := by
  have hw := width32 hk
  rw [default_iff_zero k hw.2 v.toNat (by rw [hw.1]; exact v.isLt)]
  constructor
  · intro h; exact BitVec.eq_of_toNat_eq (by simpa using h)
  · intro h; subst h; rfl

/-- both bools -/
theorem C15_bool (rep : Bool) (var : Variant) :
    (decBits rep .bool (encBits var .bool 0) = 0 ∧ encBits var .bool 0 = 0) ∧
    (decBits rep .bool (encBits var .bool 1) = 1 ∧ encBits var .bool 1 = 1) :=
  ⟨⟨(roundtrip_bits rep var .bool 0 (by decide)).2, by rw [enc_closed_form var .bool 0 (by decide)]; rfl⟩,
   ⟨(roundtrip_bits rep var .bool 1 (by decide)).2, by rw [enc_closed_form var .bool 1 (by decide)]; rfl⟩⟩

/-- the Go expressions themselves, as translated: zig-zag round trip on every value -/
theorem C15_zigzag32_roundtrip (v : BitVec 32) : Gen.decodeZigZag32 (Gen.encodeZigZag32 v) = v :=
  decodeZigZag32_encodeZigZag32 v

theorem C15_zigzag32_closed_form (v : BitVec 32) :
    Gen.encodeZigZag32 v = (v <<< 1) ^^^ (if v.msb then 0xFFFFFFFF#32 else 0#32) := encodeZigZag32_eq v

/-- non-vacuity / regression witnesses: the values on which the pinned tree used to fail -/
example : encBits .plain .sint32 0xFFFFFFFF = 1 := by decide
example : encBits .plain .sfixed32 0xFFFFFFFF = 0xFFFFFFFF := by decide
example : isDefaultBits .float 0x80000000 = false := by decide
example : decBits false .sint32 0xFFFFFFFF = 0x80000000 := by decide

end Pico.Props
