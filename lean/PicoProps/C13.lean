import PicoProofs.EncProg
import PicoProofs.FieldLemmas
import PicoProofs.Tie
import PicoProofs.GoTieEncTypes
/-
C13 — Each low-level Encoder/Decoder call handles exactly one reference-encoded field.
(encoder side: every writer variant appends the specification's encoding or nothing; nested
Message / PresentMessage / AlwaysMessage / AlwaysAnyBytes compose to length-prefixed payloads and
leave no trace on absence — `C17_buffer_independent`/`runOps_appends` at the Go-slice level;
decoder side below)
-/
namespace Pico.Props
open Pico Pico.Dec

/-! ### decoder: a reader leaves the decoder untouched when another field is pending -/

theorem C13_reader_other_field (k : Scalar) (field : Int) (d : Dec) (h : field ≠ d.cur.pendingField) :
    readSingle k field d = .ok (d, none) := by
  simp [readSingle, h]

theorem C13_repeated_reader_other_field (k : Scalar) (field : Int) (d : Dec) (acc : List Enc.SVal)
    (h : field ≠ d.cur.pendingField) : readRepeated k field d acc = .ok (d, acc) := by
  simp [readRepeated, readRepeatedN, h]

theorem C13_repeated_enum_other_field (field : Int) (d : Dec) (acc : List Nat)
    (h : field ≠ d.cur.pendingField) : readRepeatedEnum field d acc = .ok (d, acc) := by
  simp [readRepeatedEnum, readRepeatedEnumN, h]

theorem C13_message_other_field {σ} (field : Int) (fn : DecM σ) (d : Dec) (s : σ)
    (h : field ≠ d.cur.pendingField) : message field fn d s = .ok (d, s) := by
  simp [message, h]

theorem C13_repeated_message_other_field {σ} (field : Int) (fn : DecM σ) (d : Dec) (s : σ)
    (h : field ≠ d.cur.pendingField) : repeatedMessage field fn d s = .ok (d, s) := by
  simp [repeatedMessage, repeatedMessageN, h]

/-! ### decoder: otherwise it consumes exactly that field -/

/-- pending field matches, wire type matches, the value parses: the reader stores the decoded value
and advances the cursor by exactly the value's length (then reads the next tag) -/
theorem C13_reader_consumes (k : Scalar) (field : Int) (d : Dec)
    (hp : d.cur.pendingField = field) (hw : d.cur.pendingWire = k.wire)
    (hok : 0 ≤ (consumeScalar false k d.cur.buffer).2) :
    readSingle k field d =
      (nextField d (consumeScalar false k d.cur.buffer).2).bind fun d' =>
        .ok (d', some (consumeScalar false k d.cur.buffer).1) := by
  have : ¬ (consumeScalar false k d.cur.buffer).2 < 0 := by omega
  simp only [readSingle, hp, hw, this]
  simp [bind, Res.bind]

/-- what the writer appended is what the reader gets back: for every value in the kind's range, a
reader positioned on the writer's output returns the value and advances past exactly those bytes -/
theorem C13_reader_inverts_writer (k : Scalar) (var : Variant) (v : Enc.SVal) (h : svalOk k v) (rest : Bytes) :
    consumeScalar false k (Enc.scalarPayload var k v ++ rest) = (v, ((Enc.scalarPayload var k v).length : Int)) :=
  consumeScalar_scalarPayload false var k v h rest

/-! ### decoder: a wrong wire type or Fail() is a sticky error -/

theorem C13_wrong_wire_latches (k : Scalar) (field : Int) (d : Dec)
    (hp : d.cur.pendingField = field) (hw : d.cur.pendingWire ≠ k.wire) :
    readSingle k field d = .ok (fail d field ("expected wire type " ++ wireName k.wire), none) := by
  simp [readSingle, hp, hw]

theorem C13_fail_latches (d : Dec) (field : Int) (msg : String) :
    (fail d field msg).err = some (field, msg) ∧ (fail d field msg).cur.pendingField = -1 := ⟨rfl, rfl⟩

/-- no primitive of the decoder ever clears a latched error -/
theorem C13_error_sticky_nextField (d : Dec) (adv : Int) (h : d.err.isSome) :
    ∀ d', nextField d adv = .ok d' → d'.err.isSome := by
  intro d' hd
  unfold nextField at hd
  by_cases h1 : adv < 0 ∨ adv > d.cur.buffer.length
  · simp only [h1, ↓reduceIte] at hd
    cases hd; simp [fail]
  · simp only [h1, ↓reduceIte] at hd
    have hr : 0 ≤ adv ∧ adv ≤ d.cur.buffer.length := by omega
    simp only [sliceFrom, hr, and_self, ↓reduceIte, Res.bind_ok] at hd
    by_cases h2 : (d.cur.buffer.drop adv.toNat).length = 0
    · simp only [h2, ↓reduceIte, Res.pure_eq] at hd
      cases hd; simpa using h
    · simp only [h2, ↓reduceIte] at hd
      by_cases h3 : (Wire.consumeTag (d.cur.buffer.drop adv.toNat)).2.2 < 0 ∨
          (!Wire.numberIsValid (Wire.consumeTag (d.cur.buffer.drop adv.toNat)).1) = true
      · simp only [h3, ↓reduceIte, Res.pure_eq] at hd
        cases hd; simp [fail]
      · simp only [h3, ↓reduceIte] at hd
        by_cases h4 : 0 ≤ (Wire.consumeTag (d.cur.buffer.drop adv.toNat)).2.2 ∧
            (Wire.consumeTag (d.cur.buffer.drop adv.toNat)).2.2 ≤ (d.cur.buffer.drop adv.toNat).length
        · simp only [h4, and_self, ↓reduceIte, Res.bind_ok, Res.pure_eq] at hd
          cases hd; simpa using h
        · simp only [h4, ↓reduceIte, Res.bind_panic] at hd
          cases hd

theorem C13_error_sticky_pop (d : Dec) (h : d.err.isSome) : (popState d).err.isSome := by
  unfold popState
  split
  · simp [fail]
  · simpa using h

/-- an errored decoder has no valid pending field, so every reader leaves it alone -/
theorem C13_errored_reader_noop (k : Scalar) (field : Int) (d : Dec) (hf : 1 ≤ field)
    (he : d.cur.pendingField = -1) : readSingle k field d = .ok (d, none) := by
  apply C13_reader_other_field
  rw [he]; omega

/-! ### encoder -/

/-- a plain writer given the default value appends nothing; otherwise, and for every Always
variant, the tag and the value in the specification's closed form -/
theorem C13_writer_default_omitted (k : Scalar) (hk : k.isBytes = false) (field : Int) :
    Enc.writeSingle false k field (.num 0) = [] := by
  have : isDefaultBits k 0 = true := (default_iff_zero k hk 0 (Nat.two_pow_pos _)).mpr rfl
  simp [Enc.writeSingle, Enc.isDefault, hk, Enc.SVal.num!, this]

theorem C13_writer_value (always : Bool) (k : Scalar) (hk : k.isBytes = false) (field : Int) (n : Nat)
    (hn : n < 2 ^ k.width) (hnz : always = true ∨ n ≠ 0) :
    Enc.writeSingle always k field (.num n) =
      Wire.tag field k.wire ++ Enc.scalarPayload (if always then .always else .plain) k (.num n) ∧
    encBits (if always then Variant.always else .plain) k n = Spec.scalarBits k n := by
  refine ⟨?_, enc_closed_form _ k n hn⟩
  have hd : always = false → isDefaultBits k n = false := by
    intro ha
    rcases hnz with h | h
    · rw [ha] at h; cases h
    · cases hdb : isDefaultBits k n
      · rfl
      · exact absurd ((default_iff_zero k hk n hn).mp hdb) h
  cases always
  · simp [Enc.writeSingle, Enc.isDefault, hk, Enc.SVal.num!, hd rfl, Enc.appendTag, Wire.tag]
  · simp [Enc.writeSingle, Enc.appendTag, Wire.tag]

/-- nested calls compose; an absent callback leaves no trace; any buffer -/
theorem C13_nesting_composes (oracle : Nat → Bytes) (prog : List EncLow.LOp) (h : EncLow.sizesOk prog) (b : EncLow.Buf) :
    ∃ t, EncLow.runOps oracle prog b = .ok ⟨b.data ++ EncLow.absOps prog, t⟩ :=
  EncLow.runOps_appends oracle prog h b

theorem C13_absent_leaves_no_trace (tag : Bytes) (ops : List EncLow.LOp) :
    EncLow.absOp (.any tag false ops) = [] := by simp [EncLow.absOp]

/-- TIE: the 60 writers and 30 readers have the shapes the model transcribes -/
theorem C13_tables : Tie.sameRows Gen.encRows Tie.expectedEncRows = true ∧ Tie.sameRows Gen.decRows Tie.expectedDecRows = true :=
  ⟨Tie.encoder_table_expected, Tie.decoder_table_expected⟩

/-! ### the same, for the typed readers and writers translated from decoder_types.go / encoder_types.go -/

open Pico.GoTie.DT Pico.GoTie.ET in
/-- SOURCE: the translated `Decoder.<Kind>(field, &v)` is the model's reader: with another field
pending it changes nothing, -/
theorem C13_source_reader_other_field (k : Scalar) (field : Int) (d : Dec) (v : GoVal k)
    (h : field ≠ d.cur.pendingField) : srcReadSingle k field d v = .ok (d, v) := by
  rw [readSingle_tie, C13_reader_other_field k field d h]; rfl

open Pico.GoTie.DT in
/-- … on its own field with the right wire type it stores the decoded value and advances past
exactly that value, -/
theorem C13_source_reader_consumes (k : Scalar) (field : Int) (d : Dec) (v : GoVal k)
    (hp : d.cur.pendingField = field) (hw : d.cur.pendingWire = k.wire)
    (hok : 0 ≤ (consumeScalar false k d.cur.buffer).2) :
    srcReadSingle k field d v =
      (nextField d (consumeScalar false k d.cur.buffer).2).bind fun d' =>
        .ok (d', unS k (consumeScalar false k d.cur.buffer).1) := by
  rw [readSingle_tie, C13_reader_consumes k field d hp hw hok]
  cases nextField d (consumeScalar false k d.cur.buffer).2 <;> rfl

open Pico.GoTie.DT in
/-- … and a wrong wire type is a latched error naming the field; `*v` is left alone. -/
theorem C13_source_wrong_wire_latches (k : Scalar) (field : Int) (d : Dec) (v : GoVal k)
    (hp : d.cur.pendingField = field) (hw : d.cur.pendingWire ≠ k.wire) :
    srcReadSingle k field d v = .ok (fail d field ("expected wire type " ++ wireName k.wire), v) := by
  rw [readSingle_tie, C13_wrong_wire_latches k field d hp hw]; rfl

open Pico.GoTie.DT in
/-- SOURCE: the translated `Decoder.Repeated<Kind>` is the model's repeated reader (packed and
unpacked occurrences) -/
theorem C13_source_repeated_reader (k : Scalar) (field : Int) (d : Dec) (acc : List Enc.SVal) :
    srcReadRepeated k field d (acc.map (unS k))
      = Res.mapr (fun p => (p.1, p.2.map (unS k))) (readRepeated k field d acc) :=
  readRepeated_tie k field d acc

open Pico.GoTie.DT Pico.GoTie.ET in
/-- SOURCE: the translated `Encoder.<Kind>` / `Encoder.Always<Kind>` appends the model's bytes
(nothing for an omitted default), never panics and leaves `*v` as it was -/
theorem C13_source_writer (oracle : Nat → Bytes) (always : Bool) (k : Scalar) (field : Int) (enc : EncLow.Buf)
    (v : GoVal k) (h : InRange k v) :
    ∃ t, srcWriteSingle oracle always k field enc v
      = .ok (⟨enc.data ++ Enc.writeSingle always k field (toS k v), t⟩, v) :=
  writeSingle_data oracle always k field enc v h

open Pico.GoTie.DT Pico.GoTie.ET in
/-- SOURCE: the translated `Encoder.Repeated<Kind>` / `Encoder.AlwaysRepeated<Kind>` likewise -/
theorem C13_source_repeated_writer (oracle : Nat → Bytes) (always : Bool) (k : Scalar) (field : Int) (enc : EncLow.Buf)
    (vs : List (GoVal k)) (hr : ∀ x ∈ vs, InRange k x) (hsz : enc.len + 10 * vs.length + 12 < 9223372036854775808) :
    ∃ t, srcWriteRepeated oracle always k field enc vs
      = .ok (⟨enc.data ++ Enc.writeRepeated always k field (vs.map (toS k)), t⟩, vs) :=
  writeRepeated_tie oracle always k field enc vs hr hsz

theorem wrapS32_toU32 (w : Int) (hv : (-2147483648 : Int) ≤ w ∧ w < 2147483648) :
    Go.wrapS 32 ((Go.toU 32 w : Nat) : Int) = w := by
  unfold Go.wrapS Go.toU
  simp only [show (2:Int)^32 = 4294967296 from by decide, show (2:Int)^(32-1) = 2147483648 from by decide]
  split <;> omega

theorem wrapS64_toU64 (w : Int) (hv : (-9223372036854775808 : Int) ≤ w ∧ w < 9223372036854775808) :
    Go.wrapS 64 ((Go.toU 64 w : Nat) : Int) = w := by
  unfold Go.wrapS Go.toU
  simp only [show (2:Int)^64 = 18446744073709551616 from by decide, show (2:Int)^(64-1) = 9223372036854775808 from by decide]
  split <;> omega

open Pico.GoTie.DT Pico.GoTie.ET in
/-- the Go value of the bit pattern of a Go value is that value (every kind, every value of the type) -/
theorem C13_source_value_bits_roundtrip (k : Scalar) (v : GoVal k) (h : InRange k v) : unS k (toS k v) = v := by
  cases k
  case bool => cases v <;> rfl
  case int32 => exact wrapS32_toU32 v h
  case sint32 => exact wrapS32_toU32 v h
  case sfixed32 => exact wrapS32_toU32 v h
  case int64 => exact wrapS64_toU64 v h
  case sint64 => exact wrapS64_toU64 v h
  case sfixed64 => exact wrapS64_toU64 v h
  all_goals rfl

open Pico.GoTie.DT Pico.GoTie.ET in
/-- SOURCE: what the translated writer of kind `k` appended, the translated reader of kind `k` reads
back: positioned on the payload the writer produced for `v` (any variant), with any bytes after it,
`Decoder.<Kind>` stores exactly `v` and advances past exactly the payload — for every kind and every
value of the Go type. -/
theorem C13_source_reader_inverts_writer (k : Scalar) (var : Variant) (field : Int) (d : Dec) (v x : GoVal k)
    (h : InRange k v) (rest : Bytes)
    (hp : d.cur.pendingField = field) (hw : d.cur.pendingWire = k.wire)
    (hb : d.cur.buffer = Enc.scalarPayload var k (toS k v) ++ rest) :
    srcReadSingle k field d x =
      (nextField d ((Enc.scalarPayload var k (toS k v)).length : Int)).bind fun d' => .ok (d', v) := by
  have hok : svalOk k (toS k v) := by
    cases k
    case string =>
      have hl : v.length < 9223372036854775808 := h
      exact ⟨rfl, by show v.length < 2 ^ 64; have : (2:Nat)^64 = 18446744073709551616 := by decide
                     omega⟩
    case bytes =>
      have hl : v.length < 9223372036854775808 := h
      exact ⟨rfl, by show v.length < 2 ^ 64; have : (2:Nat)^64 = 18446744073709551616 := by decide
                     omega⟩
    all_goals exact ⟨rfl, toS_lt _ rfl v h⟩
  have hcs := consumeScalar_scalarPayload false var k (toS k v) hok rest
  rw [← hb] at hcs
  rw [C13_source_reader_consumes k field d x hp hw (by rw [hcs]; exact Int.natCast_nonneg _), hcs]
  simp only [C13_source_value_bits_roundtrip k v h]

/-- TIE: decoder_types.go / encoder_types.go declare exactly the 30 readers and 60 writers translated -/
theorem C13_source_coverage : GoSrc.DecTypes.names.length = 30 ∧ GoSrc.EncTypes.names.length = 60 :=
  ⟨by rw [Pico.GoTie.DT.names_expected]; rfl, Pico.GoTie.ET.names_expected.1⟩

/-- non-vacuity: a value in range and its bit pattern -/
example : Pico.GoTie.ET.InRange .sint32 (-3 : Int) ∧ Pico.GoTie.ET.toS .sint32 (-3 : Int) = .num 4294967293 := by
  refine ⟨by show (-2147483648 : Int) ≤ -3 ∧ (-3 : Int) < 2147483648; decide, ?_⟩
  show Enc.SVal.num (Go.toU 32 (-3)) = _
  decide

end Pico.Props
