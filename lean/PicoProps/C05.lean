import PicoProofs.EndToEnd
import PicoProofs.GoTieApi
import PicoProofs.Tie
import PicoModel.Sample
/-
C05 — Unmarshal succeeds only on well-formed input it has fully consumed.

`Spec.wellFormed` (PicoModel/WellFormed.lean) is the value-free predicate of the property text:
complete sequence of fields, numbers 1 … 2^29−1, complete values, balanced groups, acceptable wire
type for every known field, recursively through known sub-messages, map entries, packed payloads
and picoconv payloads.
-/
namespace Pico.Props
open Pico Pico.Spec

/-- the specification accepts exactly the well-formed inputs — at every fuel, whatever the message
decoded into -/
theorem C05_ok_iff_wellformed (S : Schema) (id : Nat) (b : Bytes) (m : Val) :
    (specUnmarshal S id b m).isSome = wellFormed S (2 * b.length + 2) id b :=
  specDec_ok_iff_wellFormed S id b m

/-- every truncation of a complete sequence of fields that cuts through a field is rejected -/
theorem C05_truncation_rejected (S : Schema) (id : Nat) (n : Nat) (a p q : Bytes) (rs : List Record) (r : Record)
    (ha : records n a = some rs) (h : parse1 (p ++ q) = some (r, [])) (hp : p ≠ []) (hq : q ≠ []) (f : Nat) :
    wellFormed S f id (a ++ p) = false := truncation_rejected S id ha h hp hq f

/-- no suffix is silently ignored: after a valid prefix the verdict is that of the suffix -/
theorem C05_no_suffix_ignored (S : Schema) (id : Nat) (a b : Bytes) (m m1 : Val)
    (ha : specUnmarshal S id a m = some m1) (hb : specUnmarshal S id b m1 = none) :
    specUnmarshal S id (a ++ b) m = none := by
  rw [specUnmarshal_append S id b ha]; exact hb

/-- the machine side proved so far: Unmarshal always terminates with a definite verdict (nil or a
latched error), see C04; and an error, once latched, is never cleared by the cursor primitives
(C13_error_sticky_*). -/
theorem C05_machine_total (S : Schema) (id : Nat) (data : Bytes) (m0 : Val) :
    ∃ d m, Gen2.unmarshal S id data m0 = .ok (d, m) := Gen2.unmarshal_total S id data m0

/-- MACHINE LEVEL (through the decoder refinement): Unmarshal returns nil exactly when the input is
well formed — for every byte string, every supported schema, every message of the right shape -/
theorem C05_unmarshal_nil_iff_wellformed (S : Schema) (hS : S.supported = true) (id : Nat) (data : Bytes) (m0 : Val)
    (hm0 : Gen2.shMsg S id m0 = true) :
    ∃ d m, Gen2.unmarshal S id data m0 = .ok (d, m) ∧
      (d.err = none ↔ wellFormed S (2 * data.length + 2) id data = true) := by
  obtain ⟨d, m, hr, hiff, _⟩ := Gen2.unmarshal_refines_spec S hS id data m0 hm0
  refine ⟨d, m, hr, ?_⟩
  rw [hiff, ← specDec_ok_iff_wellFormed S id data m0]
  rfl

/-- the same about the Go source itself: the translated `Unmarshal` returns nil exactly on
well-formed input -/
theorem C05_source_unmarshal_nil_iff_wellformed (S : Schema) (hS : S.supported = true) (id : Nat) (data : Bytes) (m0 : Val)
    (hm0 : Gen2.shMsg S id m0 = true) :
    ∃ m err, GoTie.srcUnmarshal S id data m0 = .ok (m, err) ∧
      (err = none ↔ wellFormed S (2 * data.length + 2) id data = true) := by
  obtain ⟨d, m, hr, hiff⟩ := C05_unmarshal_nil_iff_wellformed S hS id data m0 hm0
  exact ⟨m, d.err, GoTie.srcUnmarshal_of S id data m0 d m hr, hiff⟩

/-- an error detected at any depth is never lost: if the specification rejects (at whatever depth
the offending record sits), the machine's final error is non-nil -/
theorem C05_error_never_lost (S : Schema) (hS : S.supported = true) (id : Nat) (data : Bytes)
    (hbad : Spec.specUnmarshal S id data (Gen2.zeroMsg S id) = none) :
    ∃ d m, Gen2.unmarshal S id data (Gen2.zeroMsg S id) = .ok (d, m) ∧ d.err ≠ none := by
  obtain ⟨d, m, hr, hiff, _⟩ := Gen2.unmarshal_new_refines_spec S hS id data
  refine ⟨d, m, hr, ?_⟩
  intro he
  have := hiff.mp he
  rw [hbad] at this
  cases this

/-- non-vacuity: a prefix of whole records followed by a record cut in two; an input the
specification rejects (a lone continuation byte); a conforming start value -/
example : Spec.records 3 [8, 1] = some [⟨1, 0, [1]⟩] := by decide +kernel
example : Spec.parse1 ([16] ++ [2]) = some (⟨2, 0, [2]⟩, []) := by decide +kernel
example : Spec.specUnmarshal S1 0 [0xff] (Gen2.zeroMsg S1 0) = none := by decide +kernel
example : Gen2.shMsg S1 0 (Gen2.zeroMsg S1 0) = true := by decide +kernel

end Pico.Props
