import PicoProofs.EndToEnd
import PicoProofs.Tie
import PicoModel.Sample
/-
C12 — protoc-gen-pico emits correct codecs for every supported schema.

The model of the emitted code (`Gen2.encMsg`, `Gen2.decPass`: a deep embedding of `genFieldEncode` /
`genFieldDecode` for ANY schema) satisfies C01–C03, C06, C08 for EVERY schema with
`Schema.supported` — the theorems below quantify over the schema. PARTIAL: that this embedding is
what the working-tree generator emits is established per run on an exhaustive shape schema plus
sampled fresh schemas (generated, compiled, driven against the model and the reference), and
"terminates / compiles / same descriptor ⇒ same source" are observed on those schemas (each
generated twice): facts about a Go program outside the reach of a theorem.
-/
namespace Pico.Props
open Pico Pico.Gen2

/-- C01/C06 for every schema -/
theorem C12_encode_all_schemas (S : Schema) (id : Nat) (v : Val) (h : wtMsg S false id v = true) :
    marshal S id v = Spec.specEnc S id v := marshal_eq_spec S id v h

/-- C02 for every supported schema -/
theorem C12_decode_all_schemas (S : Schema) (hS : S.supported = true) (id : Nat) (data : Bytes) :
    ∃ d m, unmarshal S id data (zeroMsg S id) = .ok (d, m) ∧
      (d.err = none ↔ (Spec.specUnmarshal S id data (zeroMsg S id)).isSome) ∧
      (d.err = none → Spec.specUnmarshal S id data (zeroMsg S id) = some m) :=
  unmarshal_new_refines_spec S hS id data

/-- C03/C08 for every supported schema -/
theorem C12_roundtrip_all_schemas (S : Schema) (hS : S.ok) (id : Nat) (v : Val)
    (hwt : wtMsg S true id v = true) (hsz : (Spec.specEnc S id v).length < 2 ^ 64) :
    ∃ d, unmarshal S id (marshal S id v) (zeroMsg S id) = .ok (d, v) ∧ d.err = none :=
  unmarshal_marshal S hS id v hwt hsz

/-- the emitted Decode never crashes, for every schema whatsoever (supported or not) -/
theorem C12_decode_total_all_schemas (S : Schema) (id : Nat) (data : Bytes) (m0 : Val) :
    ∃ d m, unmarshal S id data m0 = .ok (d, m) := unmarshal_total S id data m0

/-- non-vacuity: the schema side conditions and the typing premises are met by the sample schema -/
example : wtMsg S1 false 0 v1 = true := by decide +kernel
example : S1.ok := ⟨by decide +kernel, SpecRt.zeroMsgOk_of_B S1 (by decide +kernel)⟩
example : wtMsg S1 true 0 v1 = true := by decide +kernel

end Pico.Props
