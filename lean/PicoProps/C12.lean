import PicoProofs.Tie
import PicoModel.WellTyped
/- C12: theorems are added as the proof modules land -/
