import PicoProofs.EndToEnd
import PicoProofs.GoTieApi
import PicoProofs.Tie
import PicoModel.Sample
/-
C09 — Decoding concatenated encodings equals decoding them one after another.

Stated on the specification decoder `Spec.specUnmarshal` (record at a time; last scalar wins,
repeated append, sub-messages merge, map entries overwrite by key, last oneof member wins are its
defining clauses). The machine-level statement for `Gen2.unmarshal` follows through the decoder
refinement (`PicoProofs/DecRefine.lean`); until that is complete for every field shape the tie
between machine and specification for the remaining shapes is the `real!=spec` correspondence check.
-/
namespace Pico.Props
open Pico Pico.Spec

/-- a||b in one call = a, then b into the same message — for ANY b (valid or not: the same error
status), any schema, any starting message -/
theorem C09_concat (S : Schema) (id : Nat) (a b : Bytes) (m m1 : Val)
    (ha : specUnmarshal S id a m = some m1) :
    specUnmarshal S id (a ++ b) m = specUnmarshal S id b m1 := specUnmarshal_append S id b ha

/-- the same when `a` is merely a complete sequence of fields (it need not decode) -/
theorem C09_concat_records (S : Schema) (id : Nat) (a b : Bytes) (n : Nat) (rs : List Record) (m : Val)
    (ha : records n a = some rs) :
    specUnmarshal S id (a ++ b) m = (specUnmarshal S id a m).bind (specUnmarshal S id b) :=
  specUnmarshal_append_records S id b n a rs m ha

/-- Unmarshal never resets fields the input does not mention: the empty input changes nothing -/
theorem C09_empty_input_is_identity (S : Schema) (id : Nat) (m : Val) : specUnmarshal S id [] m = some m :=
  specUnmarshal_nil S id m

/-- any number of calls (one to four, or a million): decoding the encodings one after another into
the same message equals decoding their concatenation in one call -/
theorem C09_any_number_of_calls (S : Schema) (id : Nat) (bs : List Bytes) (m : Val)
    (h : ∀ b ∈ bs, (records (b.length + 1) b).isSome) :
    specUnmarshal S id bs.flatten m = specDecAll S id bs m := specDecAll_eq_flatten S id bs m h

/-- at explicit fuels -/
theorem C09_concat_fuel (S : Schema) (f1 f2 id : Nat) (a b : Bytes) (m m1 m2 : Val)
    (h1 : specDec S f1 id a m = some m1) (h2 : specDec S f2 id b m1 = some m2) :
    ∀ f, 2 * (a ++ b).length + 2 ≤ f → specDec S f id (a ++ b) m = some m2 := specDec_append S h1 h2

/-- MACHINE LEVEL: unmarshalling `a` (without error) and then `b` into the same message gives the
same verdict and the same message as unmarshalling `a ++ b` in one call -/
theorem C09_unmarshal_concat (S : Schema) (hS : S.supported = true) (id : Nat) (a b : Bytes) (m0 : Val)
    (hm0 : Gen2.shMsg S id m0 = true) :
    ∀ d1 m1, Gen2.unmarshal S id a m0 = .ok (d1, m1) → d1.err = none →
    ∃ d2 m2 d12 m12, Gen2.unmarshal S id b m1 = .ok (d2, m2) ∧ Gen2.unmarshal S id (a ++ b) m0 = .ok (d12, m12) ∧
      (d12.err = none ↔ d2.err = none) ∧ (d2.err = none → m12 = m2) :=
  unmarshal_concat S hS id a b m0 hm0

/-- the same about the Go source: unmarshalling `a` then `b` into the same message with the translated
`Unmarshal`, and `a ++ b` in one call, agree (error-wise, and value-wise when accepted) -/
theorem C09_source_unmarshal_concat (S : Schema) (hS : S.supported = true) (id : Nat) (a b : Bytes) (m0 : Val)
    (hm0 : Gen2.shMsg S id m0 = true) :
    ∀ m1, GoTie.srcUnmarshal S id a m0 = .ok (m1, none) →
    ∃ m2 e2 m12 e12, GoTie.srcUnmarshal S id b m1 = .ok (m2, e2) ∧ GoTie.srcUnmarshal S id (a ++ b) m0 = .ok (m12, e12) ∧
      (e12 = none ↔ e2 = none) ∧ (e2 = none → m12 = m2) := by
  intro m1 h1
  obtain ⟨d1, m1', hr1⟩ := Gen2.unmarshal_total S id a m0
  have := GoTie.srcUnmarshal_of S id a m0 d1 m1' hr1
  rw [this] at h1
  have hinj := Res.ok.inj h1
  have hm : m1' = m1 := (Prod.mk.inj hinj).1
  have he : d1.err = none := (Prod.mk.inj hinj).2
  subst hm
  obtain ⟨d2, m2, d12, m12, h2, h12, hiff, hval⟩ := unmarshal_concat S hS id a b m0 hm0 d1 m1' hr1 he
  exact ⟨m2, d2.err, m12, d12.err, GoTie.srcUnmarshal_of S id b m1' d2 m2 h2,
    GoTie.srcUnmarshal_of S id (a ++ b) m0 d12 m12 h12, hiff, hval⟩

/-- non-vacuity: a first input that decodes, chunks that are whole records, a conforming start value -/
example : (Spec.specUnmarshal S1 0 [8, 1] (Gen2.zeroMsg S1 0)).isSome = true := by decide +kernel
example : ∀ b ∈ [[8, 1], [], [16, 0]], (Spec.records (b.length + 1) b).isSome := by decide +kernel
example : Gen2.shMsg S1 0 (Gen2.zeroMsg S1 0) = true := by decide +kernel

end Pico.Props
