import PicoProofs.TimeLemmas
/-
C14 — Time and Duration conversions match google.protobuf Timestamp/Duration.
(model of picoconv's int64 arithmetic with explicit wrap-around; the `time` package's behaviour is
a trusted, correspondence-checked parameter)
-/
namespace Pico.Props
open Pico Pico.Time

/-- every Duration splits into (seconds, nanos) exactly as durationpb.New does: truncated division,
same sign, |nanos| < 1e9, no wrap-around anywhere -/
theorem C14_duration_split (n : Int) (h : Time.I64 n) :
    let (s, ns) := durSplit n
    s = n.tdiv (10^9) ∧ ns = n.tmod (10^9) ∧ -10^9 < ns ∧ ns < 10^9 ∧
    (0 ≤ n → 0 ≤ s ∧ 0 ≤ ns) ∧ (n ≤ 0 → s ≤ 0 ∧ ns ≤ 0) ∧ s * 10^9 + ns = n := durSplit_spec n h

/-- round trip is the identity on every Duration -/
theorem C14_duration_roundtrip (n : Int) (h : Time.I64 n) : durDecode (durSplit n).1 (durSplit n).2 = n :=
  dur_roundtrip n h

/-- decoding ANY (seconds, nanos) pair: exact when representable, otherwise saturated to the
minimum / maximum Duration by the sign of seconds — never wrapped (this is AsDuration) -/
theorem C14_duration_decode_saturates (s ns : Int) (hs : Time.I64 s) (hn : Time.I32 ns) :
    durDecode s ns =
      if ¬ Time.I64 (s * 10^9) then (if s < 0 then minInt64 else maxInt64)
      else if Time.I64 (s * 10^9 + ns) then s * 10^9 + ns
      else (if s < 0 then minInt64 else maxInt64) := durDecode_saturates s ns hs hn

/-- decoding a Timestamp normalises nanos into [0, 1e9) with a floor carry into seconds -/
theorem C14_timestamp_decode_normalises (s ns : Int) (hs : Time.I64 s) (hn : Time.I32 ns) :
    let (s', n') := unixNorm s ns
    0 ≤ n' ∧ n' < 10^9 ∧ s' = wrap64 (s + ns.fdiv (10^9)) ∧ n' = ns.fmod (10^9) := unixNorm_spec s ns hs hn

/-- instants are preserved to the nanosecond -/
theorem C14_timestamp_roundtrip (s ns : Int) (hs : Time.I64 s) (hn : 0 ≤ ns ∧ ns < 1000000000) :
    codeSec (timeCode s ns) = s ∧ codeNs (timeCode s ns) = ns ∧ unixNorm s ns = (s, ns) := ts_roundtrip s ns hs hn

example : durDecode 9223372036 854775808 = maxInt64 := by decide
example : durDecode (-9223372036) (-854775808) = minInt64 := by decide
example : durSplit (-1500000000) = (-1, -500000000) := by decide

end Pico.Props
