import PicoProofs.Tie
import PicoModel.WellTyped
/- C11: theorems are added as the proof modules land -/
