import PicoProofs.EndToEnd
import PicoProofs.DecRefineMap
import PicoProofs.Tie
import PicoProofs.GoTieMap
/-
C11 — All 180 map codecs are faithful and protobuf-compatible.

One generic development over (key kind, value kind); `map_table_expected` (regenerated from
picowire/map.go on every run) shows that each of the 180 generated codecs is that one shape with
its own pair of typed reader/writer methods.
-/
namespace Pico.Props
open Pico Pico.Gen2

/-- TIE: 12 × 15 codecs, one shape -/
theorem C11_all_180_have_the_modelled_shape :
    Tie.sameRows Gen.mapRows Tie.expectedMapRows = true ∧ Gen.mapExtraFuncs = [] := Tie.map_table_expected

theorem C11_there_are_180 : Tie.expectedMapRows.length = 180 := by decide +kernel

/-- encode: one entry `{1: key, 2: value}` per element in iteration order, zero key / zero value
omitted inside the entry — for every key kind, value kind, map content and order -/
theorem C11_encode_is_spec (k v : Scalar) (f : Nat) (es : List (Val × Val))
    (h : es.all (fun e => scalarOk k e.1 && scalarOk v e.2) = true) :
    mapEncode k v (f : Int) es = Spec.mapEntries k v f es := mapEncode_eq k v f es h

/-- a message holding maps round-trips exactly: zero keys, zero values, NaN values (bit patterns),
one or many entries, any entry order (instance of C03 — `wtMsg` demands distinct keys, which a Go
map guarantees) -/
theorem C11_roundtrip (S : Schema) (hS : S.ok) (id : Nat) (v : Val)
    (hwt : wtMsg S true id v = true) (hsz : (Spec.specEnc S id v).length < 2 ^ 64) :
    ∃ d, unmarshal S id (marshal S id v) (zeroMsg S id) = .ok (d, v) ∧ d.err = none :=
  unmarshal_marshal S hS id v hwt hsz

/-- decode of ANY input equals the specification: a missing key or value means the zero value,
duplicate keys keep the last value (`mapInsert`), entries are independent of one another (the
entry callback starts from fresh zero key/value), no entries leave the map nil (instance of C02) -/
theorem C11_decode_is_spec (S : Schema) (hS : S.supported = true) (id : Nat) (data : Bytes) :
    ∃ d m, unmarshal S id data (zeroMsg S id) = .ok (d, m) ∧
      (d.err = none ↔ (Spec.specUnmarshal S id data (zeroMsg S id)).isSome) ∧
      (d.err = none → Spec.specUnmarshal S id data (zeroMsg S id) = some m) :=
  unmarshal_new_refines_spec S hS id data

/-- the rules, read off the specification: a new key is appended, an existing key has its value
overwritten in place (duplicate keys keep the last value) -/
theorem C11_new_key_appended (es : List (Val × Val)) (key v : Val) (h : es.any (fun e => keyEq e.1 key) = false) :
    mapInsert es key v keyEq = es ++ [(key, v)] := by simp [mapInsert, h]

theorem C11_duplicate_key_keeps_last (es : List (Val × Val)) (key v1 v2 : Val)
    (h : es.any (fun e => keyEq e.1 key) = false) (hk : keyEq key key = true) :
    mapInsert (mapInsert es key v1 keyEq) key v2 keyEq = es ++ [(key, v2)] := by
  rw [C11_new_key_appended es key v1 h]
  have hany : (es ++ [(key, v1)]).any (fun e => keyEq e.1 key) = true := by simp [hk]
  simp only [mapInsert, hany, ↓reduceIte, List.map_append, List.map_cons, List.map_nil, hk]
  congr 1
  have hall : ∀ e ∈ es, keyEq e.1 key = false := by
    intro e he
    have := List.any_eq_false.mp h e he
    simpa using this
  calc es.map (fun e => if keyEq e.1 key = true then (e.1, v2) else e) = es.map id :=
        List.map_congr_left (fun e he => by simp [hall e he])
    _ = es := List.map_id es

/-! ### the 180 codecs as translated from picowire/map.go -/

open Pico.GoTie.DT Pico.GoTie.ET Pico.GoTie.MP in
/-- SOURCE: the translated `PicoEncode` of every map type — any key kind, value kind, map content
and iteration order, any buffer — never panics, leaves the map as it was and appends exactly the
model's entries (hence, by `C11_encode_is_spec`, the specification's) -/
theorem C11_source_encode (oracle : Nat → Bytes) (k v : Scalar) (hk : isKeyKind k = true) (field : Int) (enc : EncLow.Buf)
    (m : Go.Map (GoVal k) (GoVal v)) (hok : ∀ e ∈ Go.mapRange m, InRange k e.1 ∧ InRange v e.2)
    (hsz : enc.len + (mapEncode k v field (toEntries k v m)).length + 2 < 9223372036854775808) :
    ∃ t, srcMapEncode oracle k v field enc m
      = .ok (⟨enc.data ++ mapEncode k v field (toEntries k v m), t⟩, m) :=
  mapEncode_tie oracle k v hk field enc m hok hsz

open Pico.GoTie.DT Pico.GoTie.MP in
/-- SOURCE: the translated `PicoDecode` of every map type is the model's `mapDecode` on ANY input:
a missing key or value is the zero value, a duplicate key overwrites in place, a new key is
appended, every entry starts from fresh zero key/value, no entry leaves a nil map nil -/
theorem C11_source_decode (k v : Scalar) (hk : isKeyKind k = true) (field : Int) (dec : Dec.Dec)
    (m : Option (List (Val × Val))) (hm : KeysOK k m) :
    srcMapDecode k v field dec (Fm (unV k) (unV v) m)
      = Res.mapr (fun p => (p.1, Fm (unV k) (unV v) p.2)) (mapDecode k v field dec m) :=
  mapDecode_tie k v hk field dec m hm

/-- TIE: picowire/map.go declares exactly the 360 methods translated -/
theorem C11_source_coverage : GoSrc.Map.names.length = 360 := Pico.GoTie.MP.names_expected

/-- non-vacuity: the nil map and a one-entry map have canonical keys -/
example : Pico.GoTie.MP.KeysOK .int32 none := by
  intro es h; cases h

example : Pico.GoTie.MP.KeysOK .int32 (some [(.num 7, .num 1)]) := by
  intro es h e he
  cases h
  have : e = (Val.num 7, Val.num 1) := by simpa using he
  rw [this]
  exact ⟨7, by decide, rfl⟩

end Pico.Props
