import PicoProofs.EndToEnd
import PicoProofs.DecRefineMap
import PicoProofs.Tie
/-
C11 — All 180 map codecs are faithful and protobuf-compatible.

One generic development over (key kind, value kind); `map_table_expected` (regenerated from
picowire/map.go on every run) shows that each of the 180 generated codecs is that one shape with
its own pair of typed reader/writer methods.
-/
namespace Pico.Props
open Pico Pico.Gen2

/-- TIE: 12 × 15 codecs, one shape -/
theorem C11_all_180_have_the_modelled_shape :
    Tie.sameRows Gen.mapRows Tie.expectedMapRows = true ∧ Gen.mapExtraFuncs = [] := Tie.map_table_expected

theorem C11_there_are_180 : Tie.expectedMapRows.length = 180 := by decide +kernel

/-- encode: one entry `{1: key, 2: value}` per element in iteration order, zero key / zero value
omitted inside the entry — for every key kind, value kind, map content and order -/
theorem C11_encode_is_spec (k v : Scalar) (f : Nat) (es : List (Val × Val))
    (h : es.all (fun e => scalarOk k e.1 && scalarOk v e.2) = true) :
    mapEncode k v (f : Int) es = Spec.mapEntries k v f es := mapEncode_eq k v f es h

/-- a message holding maps round-trips exactly: zero keys, zero values, NaN values (bit patterns),
one or many entries, any entry order (instance of C03 — `wtMsg` demands distinct keys, which a Go
map guarantees) -/
theorem C11_roundtrip (S : Schema) (hS : S.ok) (id : Nat) (v : Val)
    (hwt : wtMsg S true id v = true) (hsz : (Spec.specEnc S id v).length < 2 ^ 64) :
    ∃ d, unmarshal S id (marshal S id v) (zeroMsg S id) = .ok (d, v) ∧ d.err = none :=
  unmarshal_marshal S hS id v hwt hsz

/-- decode of ANY input equals the specification: a missing key or value means the zero value,
duplicate keys keep the last value (`mapInsert`), entries are independent of one another (the
entry callback starts from fresh zero key/value), no entries leave the map nil (instance of C02) -/
theorem C11_decode_is_spec (S : Schema) (hS : S.supported = true) (id : Nat) (data : Bytes) :
    ∃ d m, unmarshal S id data (zeroMsg S id) = .ok (d, m) ∧
      (d.err = none ↔ (Spec.specUnmarshal S id data (zeroMsg S id)).isSome) ∧
      (d.err = none → Spec.specUnmarshal S id data (zeroMsg S id) = some m) :=
  unmarshal_new_refines_spec S hS id data

/-- the rules, read off the specification: a new key is appended, an existing key has its value
overwritten in place (duplicate keys keep the last value) -/
theorem C11_new_key_appended (es : List (Val × Val)) (key v : Val) (h : es.any (fun e => keyEq e.1 key) = false) :
    mapInsert es key v keyEq = es ++ [(key, v)] := by simp [mapInsert, h]

theorem C11_duplicate_key_keeps_last (es : List (Val × Val)) (key v1 v2 : Val)
    (h : es.any (fun e => keyEq e.1 key) = false) (hk : keyEq key key = true) :
    mapInsert (mapInsert es key v1 keyEq) key v2 keyEq = es ++ [(key, v2)] := by
  rw [C11_new_key_appended es key v1 h]
  have hany : (es ++ [(key, v1)]).any (fun e => keyEq e.1 key) = true := by simp [hk]
  simp only [mapInsert, hany, ↓reduceIte, List.map_append, List.map_cons, List.map_nil, hk]
  congr 1
  have hall : ∀ e ∈ es, keyEq e.1 key = false := by
    intro e he
    have := List.any_eq_false.mp h e he
    simpa using this
  calc es.map (fun e => if keyEq e.1 key = true then (e.1, v2) else e) = es.map id :=
        List.map_congr_left (fun e he => by simp [hall e he])
    _ = es := List.map_id es

end Pico.Props
