import PicoProofs.BitsetLemmas
import PicoProofs.GoTieSmall
/-
C20 — The small-value bitset behaves as a set for every sequence of insertions.
-/
namespace Pico.Props
open Pico Pico.Bitset

/-- for EVERY finite sequence of insertions (any length, any values, any order): no insertion
panics, and the i-th answer is "this value is non-negative and was inserted before" -/
theorem C20_refines_set (xs : List Int) : ∃ s, run empty xs = .ok (s, specRun [] xs) :=
  run_refines_spec' xs

/-- one step: answer and effect of a single `Set` on any reachable state -/
theorem C20_one_step (s : Small) (x : Int) :
    ∃ s', set s x = .ok (s', decide (0 ≤ x) && mem s x.toNat) ∧
      ∀ i, mem s' i = (mem s i || (decide (0 ≤ x) && decide (i = x.toNat))) := set_sim s x

/-- the same, stated about the Go source itself: `GoSrc.Small.bitsetSet` is the statement-level
translation of `internal/bitset/set.go` `Small.Set`, regenerated from the working tree on every run.
For every sequence of `int32` values no insertion panics and the answers are the set's. -/
theorem C20_source_refines_set (xs : List Int) (h : ∀ x ∈ xs, -2147483648 ≤ x ∧ x < 2147483648) :
    ∃ s, GoTie.S.srcRun empty xs = .ok (s, specRun [] xs) := by
  rw [GoTie.S.srcRun_eq xs empty h (by decide)]
  exact run_refines_spec' xs

/-- the input on which the pinned tree panicked -/
example : (run empty [64]).isOk = true := by decide
example : specRun [] [64, 64, -1, 0, 0] = [false, true, false, false, true] := by decide

end Pico.Props
