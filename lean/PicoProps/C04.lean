import PicoProofs.DecSafe
import PicoProofs.GoTieApi
import PicoProofs.GoTieWire
import PicoProofs.Tie
import PicoProofs.WireTake
/-
C04 — Unmarshal is total and memory-safe on arbitrary bytes.

In the model every Go slice expression of decoder.go / decoder_types.go is a CHECKED operation that
yields `Res.panic` when out of range, and every `for` loop runs on explicit fuel (`len(buffer)+2`
iterations per loop, `len(data)+1` levels of nesting) yielding `Res.outOfFuel` if that were ever
not enough. The theorem says neither can happen — for EVERY byte string, EVERY schema (maps,
oneofs, picoconv casts, capture included), every message type and every starting value; there is
no hypothesis at all.
PARTIAL with respect to the property text: stack exhaustion for deep nesting, allocation failure and
wall-clock time are run-time behaviour the model cannot exhibit (the harness measures 10 000 levels).
-/
namespace Pico.Props
open Pico Pico.Gen2

/-- never panics, never reads outside the input, every loop terminates within its fuel -/
theorem C04_unmarshal_total (S : Schema) (id : Nat) (data : Bytes) (m0 : Val) :
    ∃ d m, unmarshal S id data m0 = .ok (d, m) := unmarshal_total S id data m0

/-- … and ends in the frame it started in, having consumed only from the input -/
theorem C04_unmarshal_frame (S : Schema) (id : Nat) (data : Bytes) (m0 : Val) :
    ∃ d m, unmarshal S id data m0 = .ok (d, m) ∧ d.stack = [] ∧ d.cur.buffer.length ≤ data.length :=
  unmarshal_frame S id data m0

/-- never loops without progress: a pass of `Loop` that continues leaves a strictly shorter buffer
(or a latched error) — `len(buffer)+2` passes therefore bound every loop: work is at most
(passes per frame) × (readers per pass) × (frames ≤ bytes), a small polynomial in the input length -/
theorem C04_loop_progress (d d1 : Dec.Dec) (h : d1.cur.buffer.length ≤ d.cur.buffer.length) :
    (Dec.loopNext d d1).stack = d1.stack ∧
    (Dec.loopNext d d1).cur.buffer.length ≤ d1.cur.buffer.length ∧
    ((Dec.loopNext d d1).cur.pendingField < 0 ∨ (Dec.loopNext d d1).cur.buffer.length < d.cur.buffer.length) :=
  Dec.loopN_progress d d1 h

/-- the generated decode pass of any message type is total on every decoder state whose remaining
input is shorter than the nesting fuel (the invariant behind the 10 000-levels claim: each nested
payload is strictly shorter than its parent) -/
theorem C04_pass_total (S : Schema) (fuel id : Nat) : Dec.PassBelow fuel (decPass S fuel id) :=
  decPass_ok S fuel id

/-- the same about the Go source itself. `GoSrc.Decoder.Unmarshal` / `Loop` / `nextField` / … are the
statement-level translations of message.go and decoder.go, regenerated from the working tree on
every run (every slice expression checked, every loop on fuel); the wire primitives they call are
the model's, which `C04_source_wire` ties to the translation of wire.go. With the generated `Decode`
of ANY message type as the callback, the translated `Unmarshal` never panics and never runs out of
fuel, for every byte string. -/
theorem C04_source_unmarshal_total (S : Schema) (id : Nat) (data : Bytes) (m0 : Val) :
    ∃ m err, GoTie.srcUnmarshal S id data m0 = .ok (m, err) := by
  obtain ⟨d, m, h⟩ := unmarshal_total S id data m0
  exact ⟨m, d.err, GoTie.srcUnmarshal_of S id data m0 d m h⟩

/-- the translated wire.go primitives the decoder rests on equal the model's, on every input shorter
than 2^63 bytes: the unrolled `ConsumeVarint`, `ConsumeBytes`, `ConsumeTag`, and the recursive
`consumeFieldValueD` with its group loop and recursion limit -/
theorem C04_source_wire (b : Bytes) (hb : b.length < 9223372036854775808) (num : Int) (typ : Nat) :
    GoSrc.Wire.consumeVarint b = .ok (Wire.consumeVarint b) ∧
    GoSrc.Wire.consumeBytes b = .ok (Wire.consumeBytes b) ∧
    GoSrc.Wire.consumeTag b = .ok (Wire.consumeTag b) ∧
    GoSrc.Wire.consumeFieldValue num typ b = .ok (Wire.consumeFieldValue num typ b) :=
  ⟨GoTie.W.consumeVarint_eq b, GoTie.W.consumeBytes_eq b hb, GoTie.W.consumeTag_eq b,
    GoTie.W.consumeFieldValue_eq num typ b hb⟩

/-- never modifies the input: the decoder model has no write primitive on the buffer, and the
regenerated store facts show the Go code has none either (no `dec.buffer[i] = …`, no `copy` into
it, no `append` to it: the only stores are into the cursor fields, the outputs and `*out`) -/
theorem C04_input_never_written :
    Tie.storesOK Gen.paramStores Gen.copyCalls = true :=
  Tie.stores_are_the_modelled_ones

/-- non-vacuity: the input that made the pinned tree panic (`78` into a capturing message) is an
ordinary error in the model -/
example : ∃ d m, unmarshal [⟨[⟨2, .scalar .int64, 0, 0, false, 0⟩], true, false⟩] 0 [0x78#8] (.msg [.num 0] []) = .ok (d, m) :=
  unmarshal_total _ _ _ _

/-- LOCALITY of the tokenizer (`ConsumeFieldValue`, nested groups included): the answer on an accepted
value depends only on the bytes it reports as consumed — whatever follows them (another field, the
rest of a shared buffer, nothing at all) is never looked at -/
theorem C04_tokenizer_reads_only_what_it_consumes (num : Int) (typ : Nat) (a c c' : Bytes)
    (h : 0 ≤ Wire.consumeFieldValue num typ (a ++ c)) (hle : Wire.consumeFieldValue num typ (a ++ c) ≤ a.length) :
    Wire.consumeFieldValue num typ (a ++ c') = Wire.consumeFieldValue num typ (a ++ c) := by
  have h1 := Wire.consumeFieldValue_of_append num typ a c h hle
  rw [← h1] at h ⊢
  exact Wire.consumeFieldValue_append num typ a c' h

end Pico.Props
