import PicoProofs.Tie
/-
C07 — Linking picobuf never pulls in reflection or fmt.

Model: the import graph of the runtime packages and of every package containing generated code,
regenerated on every run from `go list -deps -json` (plain build and the harness's overlay build).
Theorem: every package reachable from a root by an import path OF ANY LENGTH is standard library
or part of the module, and is neither reflect nor fmt. A linked binary can only contain
`reflect.Value.Method*` if package reflect is in that closure.
-/
namespace Pico.Props
open Pico Pico.Graph

/-- a closed set containing `a` contains everything reachable from `a` (induction on the path) -/
theorem closed_sound (edges : List (Nat × Nat)) (S : List Nat) (hc : closed edges S = true) :
    ∀ a b, a ∈ S → Reach edges a b → b ∈ S := by
  intro a b ha hr
  induction hr with
  | refl => exact ha
  | step _ he ih =>
    have := List.all_eq_true.mp hc _ he
    simp only [Bool.or_eq_true, Bool.not_eq_true', List.contains_eq_mem, decide_eq_true_eq, decide_eq_false_iff_not] at this
    rcases this with h | h
    · exact absurd ih h
    · exact h

theorem clean_of_graphClean (nodes : List ImportNode) (edges : List (Nat × Nat)) (roots : List Nat) (ok : Bool)
    (h : Tie.graphClean nodes edges roots ok = true) :
    ∀ r ∈ roots, ∀ p, Reach edges r p →
      ∃ n, nodes[p]? = some n ∧ (n.std = true ∨ n.inModule = true) ∧ n.path ≠ "reflect" ∧ n.path ≠ "fmt" := by
  simp only [Tie.graphClean, Bool.and_eq_true] at h
  obtain ⟨⟨⟨⟨_, hclosed⟩, hroots⟩, hnodes⟩, _⟩ := h
  intro r hr p hp
  have hrS : r ∈ Tie.allIds nodes := by
    have := List.all_eq_true.mp hroots r hr
    simpa [Tie.allIds] using this
  have hpS := closed_sound edges _ hclosed r p hrS hp
  have hlt : p < nodes.length := by simpa [Tie.allIds] using hpS
  refine ⟨nodes[p], by simp [hlt], ?_⟩
  have := List.all_eq_true.mp hnodes nodes[p] (List.getElem_mem hlt)
  simp only [Tie.forbidden, Bool.and_eq_true, Bool.or_eq_true, Bool.not_eq_true', beq_iff_eq, Bool.or_eq_false_iff, beq_eq_false_iff_ne] at this
  exact ⟨this.1, this.2.1, this.2.2⟩

/-- the plain build (linux/amd64, no tags) -/
theorem C07_closure_clean_plain : ∀ r ∈ Gen.plainRoots, ∀ p, Reach Gen.plainEdges r p →
    ∃ n, Gen.plainNodes[p]? = some n ∧ (n.std = true ∨ n.inModule = true) ∧ n.path ≠ "reflect" ∧ n.path ≠ "fmt" :=
  clean_of_graphClean _ _ _ _ Tie.import_graph_clean_plain

/-- the build the verification harness uses (overlay with export_verif.go) -/
theorem C07_closure_clean_overlay : ∀ r ∈ Gen.overlayRoots, ∀ p, Reach Gen.overlayEdges r p →
    ∃ n, Gen.overlayNodes[p]? = some n ∧ (n.std = true ∨ n.inModule = true) ∧ n.path ≠ "reflect" ∧ n.path ≠ "fmt" :=
  clean_of_graphClean _ _ _ _ Tie.import_graph_clean_overlay

/-- non-vacuity: there are roots, and they reach other packages -/
example : Gen.plainRoots ≠ [] ∧ Gen.plainEdges ≠ [] := by decide

end Pico.Props
