import PicoProofs.EndToEnd
import PicoProofs.GoTieApi
import PicoProofs.Tie
/-
C02 — Unmarshal reads every valid protobuf encoding of a message to the same values.

The decoder refinement T_dec: for EVERY byte string (so in particular every wire-equivalent
re-encoding: any field order, packed / unpacked / mixed, non-minimal varints, split sub-messages,
interleaved unknown fields and groups — no enumeration of rewrites is involved), every supported
schema and every starting message of the right shape, the cursor machine of decoder.go +
decoder_types.go + the generated Decode methods + the map codecs returns nil exactly when the
record-at-a-time specification accepts, and then with the specification's value.
The specification (`Spec.specDec`) spells out the protobuf rules; that it agrees with the
reference implementation is checked on every run by the reference column of stream M.
-/
namespace Pico.Props
open Pico Pico.Gen2

theorem C02_unmarshal_is_spec (S : Schema) (hS : S.supported = true) (id : Nat) (data : Bytes) (m0 : Val)
    (hm0 : shMsg S id m0 = true) :
    ∃ d m, unmarshal S id data m0 = .ok (d, m) ∧
      (d.err = none ↔ (Spec.specUnmarshal S id data m0).isSome) ∧
      (d.err = none → Spec.specUnmarshal S id data m0 = some m) :=
  unmarshal_refines_spec S hS id data m0 hm0

/-- the same about the Go source itself (`GoTie.srcUnmarshal` = the translated message.go `Unmarshal`
running the translated decoder.go on the generated `Decode`): for every byte string it returns nil
exactly when the specification accepts, and then the message is the specification's -/
theorem C02_source_unmarshal_is_spec (S : Schema) (hS : S.supported = true) (id : Nat) (data : Bytes) (m0 : Val)
    (hm0 : shMsg S id m0 = true) :
    ∃ m err, GoTie.srcUnmarshal S id data m0 = .ok (m, err) ∧
      (err = none ↔ (Spec.specUnmarshal S id data m0).isSome) ∧
      (err = none → Spec.specUnmarshal S id data m0 = some m) := by
  obtain ⟨d, m, hr, h1, h2⟩ := unmarshal_refines_spec S hS id data m0 hm0
  exact ⟨m, d.err, GoTie.srcUnmarshal_of S id data m0 d m hr, h1, h2⟩

/-- into a fresh message (the usual call), no hypothesis on anything but the schema -/
theorem C02_unmarshal_fresh_is_spec (S : Schema) (hS : S.supported = true) (id : Nat) (data : Bytes) :
    ∃ d m, unmarshal S id data (zeroMsg S id) = .ok (d, m) ∧
      (d.err = none ↔ (Spec.specUnmarshal S id data (zeroMsg S id)).isSome) ∧
      (d.err = none → Spec.specUnmarshal S id data (zeroMsg S id) = some m) :=
  unmarshal_new_refines_spec S hS id data

/-- into any well-typed message -/
theorem C02_unmarshal_welltyped_is_spec (S : Schema) (hS : S.supported = true) (id : Nat) (data : Bytes) (m0 : Val)
    (strict : Bool) (hm0 : wtMsg S strict id m0 = true) :
    ∃ d m, unmarshal S id data m0 = .ok (d, m) ∧
      (d.err = none ↔ (Spec.specUnmarshal S id data m0).isSome) ∧
      (d.err = none → Spec.specUnmarshal S id data m0 = some m) :=
  unmarshal_refines_spec_wt S hS id data m0 strict hm0

/-! the protobuf rules as the specification states them, per kind -/

/-- bool: any non-zero varint is true -/
theorem C02_bool_nonzero (x : Nat) : Spec.scalarOfBits .bool x = if x = 0 then 0 else 1 := rfl

/-- integer narrowing: a 32-bit kind keeps the low 32 bits of the varint -/
theorem C02_narrowing (x : Nat) : Spec.scalarOfBits .int32 x = x % 2 ^ 32 ∧ Spec.scalarOfBits .uint32 x = x % 2 ^ 32 := ⟨rfl, rfl⟩

/-- the readers' decode expressions (regenerated from decoder_types.go) ARE those rules -/
theorem C02_readers_follow_the_rules (rep : Bool) (k : Scalar) (x : Nat) (hx : x < 2 ^ 64) (hx5 : k.wire = 5 → x < 2 ^ 32) :
    decBits rep k x = Spec.scalarOfBits k x := dec_closed_form rep k x hx hx5

/-- non-minimal varints decode to the same number: the consumer's value does not depend on the
encoding's length (it is the base-128 value of the bytes) and a minimal encoding round-trips -/
theorem C02_varint_value (v : Nat) (hv : v < 2 ^ 64) (rest : Bytes) :
    (Wire.consumeVarint (Wire.varint v ++ rest)).1 = v := by rw [Wire.consumeVarint_varint v hv]

end Pico.Props
