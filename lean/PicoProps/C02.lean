import PicoProofs.EndToEnd
import PicoProofs.VarintNonMinimal
import PicoProofs.SpecPerm
import PicoProofs.SpecForward
import PicoProofs.GoTieApi
import PicoProofs.Tie
/-
C02 — Unmarshal reads every valid protobuf encoding of a message to the same values.

The decoder refinement T_dec: for EVERY byte string (so in particular every wire-equivalent
re-encoding: any field order, packed / unpacked / mixed, non-minimal varints, split sub-messages,
interleaved unknown fields and groups — no enumeration of rewrites is involved), every supported
schema and every starting message of the right shape, the cursor machine of decoder.go +
decoder_types.go + the generated Decode methods + the map codecs returns nil exactly when the
record-at-a-time specification accepts, and then with the specification's value.
The specification (`Spec.specDec`) spells out the protobuf rules; that it agrees with the
reference implementation is checked on every run by the reference column of stream M.
-/
namespace Pico.Props
open Pico Pico.Gen2

theorem C02_unmarshal_is_spec (S : Schema) (hS : S.supported = true) (id : Nat) (data : Bytes) (m0 : Val)
    (hm0 : shMsg S id m0 = true) :
    ∃ d m, unmarshal S id data m0 = .ok (d, m) ∧
      (d.err = none ↔ (Spec.specUnmarshal S id data m0).isSome) ∧
      (d.err = none → Spec.specUnmarshal S id data m0 = some m) :=
  unmarshal_refines_spec S hS id data m0 hm0

/-- the same about the Go source itself (`GoTie.srcUnmarshal` = the translated message.go `Unmarshal`
running the translated decoder.go on the generated `Decode`): for every byte string it returns nil
exactly when the specification accepts, and then the message is the specification's -/
theorem C02_source_unmarshal_is_spec (S : Schema) (hS : S.supported = true) (id : Nat) (data : Bytes) (m0 : Val)
    (hm0 : shMsg S id m0 = true) :
    ∃ m err, GoTie.srcUnmarshal S id data m0 = .ok (m, err) ∧
      (err = none ↔ (Spec.specUnmarshal S id data m0).isSome) ∧
      (err = none → Spec.specUnmarshal S id data m0 = some m) := by
  obtain ⟨d, m, hr, h1, h2⟩ := unmarshal_refines_spec S hS id data m0 hm0
  exact ⟨m, d.err, GoTie.srcUnmarshal_of S id data m0 d m hr, h1, h2⟩

/-- "fields in any order": rearranging the records of an encoding by exchanging neighbours that belong
to different fields (not two members of one oneof; unknown fields freely unless they are captured) —
i.e. any permutation that keeps each field's own occurrences, each oneof's members and captured
unknown fields in their relative order — does not change what the specification decodes -/
theorem C02_order_independent (S : Schema) (id : Nat) (n n' : Nat) (b b' : Bytes) (rs rs' : List Spec.Record) (m : Val)
    (h : Spec.records n b = some rs) (h' : Spec.records n' b' = some rs') (hp : Spec.Perm.PermI S id rs rs')
    (hw : Spec.Perm.Wide S id m) :
    Spec.specUnmarshal S id b m = Spec.specUnmarshal S id b' m :=
  Spec.Perm.specUnmarshal_perm S id n n' b b' rs rs' m h h' hp hw

/-- … and therefore neither does the decoder itself, run through the translated Go source: both
orders are accepted or rejected together, and when accepted yield the same message -/
theorem C02_source_order_independent (S : Schema) (hS : S.supported = true) (id : Nat) (n n' : Nat) (b b' : Bytes)
    (rs rs' : List Spec.Record) (h : Spec.records n b = some rs) (h' : Spec.records n' b' = some rs')
    (hp : Spec.Perm.PermI S id rs rs') :
    ∃ m e m' e', GoTie.srcUnmarshal S id b (zeroMsg S id) = .ok (m, e) ∧
      GoTie.srcUnmarshal S id b' (zeroMsg S id) = .ok (m', e') ∧ (e = none ↔ e' = none) ∧ (e = none → m = m') := by
  obtain ⟨d, m, hr, h1, h2⟩ := unmarshal_new_refines_spec S hS id b
  obtain ⟨d', m', hr', h1', h2'⟩ := unmarshal_new_refines_spec S hS id b'
  have heq := Spec.Perm.specUnmarshal_perm S id n n' b b' rs rs' (zeroMsg S id) h h' hp (Spec.Perm.wide_zeroMsg S id)
  refine ⟨m, d.err, m', d'.err, GoTie.srcUnmarshal_of S id b _ d m hr, GoTie.srcUnmarshal_of S id b' _ d' m' hr', ?_, ?_⟩
  · rw [h1, h1', heq]
  · intro he
    have hs := h2 he
    have he' : d'.err = none := by rw [h1', ← heq, ← h1]; exact he
    have hs' := h2' he'
    rw [heq] at hs
    rw [hs] at hs'
    exact Option.some.inj hs'

/-- "a sub-message split into several occurrences": a record of a singular message field (or message
oneof member) with payload `a ++ b`, `a` a complete sequence of records, has the effect of the record
with payload `a` followed by the record with payload `b` -/
theorem C02_submessage_split (S : Schema) (id : Nat) (m : Val) (hw : Spec.Perm.Wide S id m) (i : Nat) (f : Field) (sub : Nat)
    (r ra rb : Spec.Record) (hnum : Spec.findField (S.msg id).fields r.num = some (i, f))
    (hna : ra.num = r.num) (hnb : rb.num = r.num)
    (hk : f.kind = .message sub) (hcat : ¬ (f.cat == 1 ∨ f.cat == 2)) (hrep : f.repeated = false)
    (hwr : r.wire = 2) (hwa : ra.wire = 2) (hwb : rb.wire = 2)
    (hp : r.payload = ra.payload ++ rb.payload) (n : Nat) (rs : List Spec.Record) (hrs : Spec.records n ra.payload = some rs) :
    Spec.stepU S id r m = (Spec.stepU S id ra m).bind (Spec.stepU S id rb) :=
  Spec.Perm.stepU_split S id m hw i f sub r ra rb hnum hna hnb hk hcat hrep hwr hwa hwb hp n rs hrs

/-- "repeated scalars packed, unpacked or mixed": a packed record has the effect of the unpacked
records carrying its elements one by one (so any mixture of the two forms decodes alike) -/
theorem C02_packed_equals_unpacked (S : Schema) (f : Field) (k : Scalar) (hk : f.kind = .scalar k)
    (hrep : f.repeated = true) (hnb : k.isBytes = false) (hw2 : k.wire ≠ 2)
    (r : Spec.Record) (hw : r.wire = 2) (xs : List Enc.SVal)
    (hun : Spec.unpack k (r.payload.length + 1) r.payload = some xs)
    (es : List Spec.Record) (hes : es.map (fun e => (e.wire, e.scalar k)) = xs.map (fun x => (k.wire, some x)))
    (cur : Val) (hcur : ∃ l, cur = .list l) :
    Spec.applyU S f r cur = Spec.Perm.foldApply S f es cur :=
  Spec.Perm.applyU_packed_eq_unpacked S f k hk hrep hnb hw2 r hw xs hun es hes cur hcur

/-- "non-minimal varints": a varint padded with `k` continuation bytes (within ten bytes) is read as
the same number — tags, values, length prefixes and packed elements alike go through `ConsumeVarint` -/
theorem C02_nonminimal_varint (v k : Nat) (hv : v < 2 ^ 64) (hk : 1 ≤ k) (hl : (Wire.varint v).length + k ≤ 10)
    (rest : Bytes) :
    Wire.consumeVarint (Wire.nonMinimal v k ++ rest) = (v, (((Wire.varint v).length + k : Nat) : Int)) :=
  Wire.consumeVarint_nonMinimal v k hv hk hl rest

/-- non-vacuity: two records of different fields may be exchanged -/
example : Spec.Perm.PermI [⟨[⟨1, .scalar .int32, 0, 0, false, 0⟩, ⟨2, .scalar .string, 0, 0, false, 0⟩], false, false⟩] 0
    [⟨1, 0, [5]⟩, ⟨2, 2, [1, 65]⟩] [⟨2, 2, [1, 65]⟩, ⟨1, 0, [5]⟩] :=
  Spec.Perm.PermI.swap [] _ _ [] (by
    show Spec.Perm.IndepK 0 1 _ _
    exact ⟨by decide, Or.inl rfl⟩)

/-- non-minimal TAGS (and any other spelling of a tag): an input decodes to what its records decode
to, so re-spelling every tag minimally — the value bytes of every record left as they are — changes
nothing, whatever the message type and the start value; in particular two inputs that differ only
in how their tags are spelled decode alike -/
theorem C02_tag_spelling_irrelevant (S : Schema) (id : Nat) (n : Nat) (b : Bytes) (rs : List Spec.Record)
    (hr : Spec.records n b = some rs) (m : Val) :
    Spec.specUnmarshal S id (rs.map fun r => Wire.tag r.num r.wire ++ r.raw).flatten m
      = Spec.specUnmarshal S id b m :=
  Spec.specUnmarshal_same_records S id _ n _ b rs m
    (Spec.records_retag rs (Spec.selfParsing_of_records n b rs hr)) hr

/-- into a fresh message (the usual call), no hypothesis on anything but the schema -/
theorem C02_unmarshal_fresh_is_spec (S : Schema) (hS : S.supported = true) (id : Nat) (data : Bytes) :
    ∃ d m, unmarshal S id data (zeroMsg S id) = .ok (d, m) ∧
      (d.err = none ↔ (Spec.specUnmarshal S id data (zeroMsg S id)).isSome) ∧
      (d.err = none → Spec.specUnmarshal S id data (zeroMsg S id) = some m) :=
  unmarshal_new_refines_spec S hS id data

/-- into any well-typed message -/
theorem C02_unmarshal_welltyped_is_spec (S : Schema) (hS : S.supported = true) (id : Nat) (data : Bytes) (m0 : Val)
    (strict : Bool) (hm0 : wtMsg S strict id m0 = true) :
    ∃ d m, unmarshal S id data m0 = .ok (d, m) ∧
      (d.err = none ↔ (Spec.specUnmarshal S id data m0).isSome) ∧
      (d.err = none → Spec.specUnmarshal S id data m0 = some m) :=
  unmarshal_refines_spec_wt S hS id data m0 strict hm0

/-! the protobuf rules as the specification states them, per kind -/

/-- bool: any non-zero varint is true -/
theorem C02_bool_nonzero (x : Nat) : Spec.scalarOfBits .bool x = if x = 0 then 0 else 1 := rfl

/-- integer narrowing: a 32-bit kind keeps the low 32 bits of the varint -/
theorem C02_narrowing (x : Nat) : Spec.scalarOfBits .int32 x = x % 2 ^ 32 ∧ Spec.scalarOfBits .uint32 x = x % 2 ^ 32 := ⟨rfl, rfl⟩

/-- the readers' decode expressions (regenerated from decoder_types.go) ARE those rules -/
theorem C02_readers_follow_the_rules (rep : Bool) (k : Scalar) (x : Nat) (hx : x < 2 ^ 64) (hx5 : k.wire = 5 → x < 2 ^ 32) :
    decBits rep k x = Spec.scalarOfBits k x := dec_closed_form rep k x hx hx5

/-- non-minimal varints decode to the same number: the consumer's value does not depend on the
encoding's length (it is the base-128 value of the bytes) and a minimal encoding round-trips -/
theorem C02_varint_value (v : Nat) (hv : v < 2 ^ 64) (rest : Bytes) :
    (Wire.consumeVarint (Wire.varint v ++ rest)).1 = v := by rw [Wire.consumeVarint_varint v hv]

end Pico.Props
