import PicoProofs.Tie
import PicoModel.WellTyped
/- C02: theorems are added as the proof modules land -/
