import PicoProofs.EncProg
import PicoProofs.GoTieEncoder
import PicoProofs.GoTieEncProg
import PicoProofs.Tie
import PicoProofs.GoTieEncTypes
/-
C17 — Results are independent of buffer provenance; arguments are never modified.
-/
namespace Pico.Props
open Pico Pico.EncLow

/-- `anyBytes` on the Go-slice model: for EVERY payload length (1-, 2-, 3+-byte length prefix),
every initial buffer (stale tail of any content and size) and every re-allocation behaviour, the
logical bytes are `buf ++ tag ++ minimal-varint(len) ++ payload`, or the untouched buffer when the
callback reports absence; never a panic -/
theorem C17_anyBytes_refines (oracle : Nat → Bytes) (tag p : Bytes) (ok : Bool)
    (fn : Buf → Res (Buf × Bool)) (hfn : AppendOnly fn p ok) (hsz : p.length < 2 ^ 64) (b : Buf) :
    dataOf (anyBytesLow oracle tag fn b) = some (if ok then b.data ++ tag ++ Wire.varint p.length ++ p else b.data, ok) :=
  anyBytesLow_refines oracle tag p ok fn hfn hsz b

/-- no re-slice beyond `len` is ever executed: stale bytes are never exposed -/
theorem C17_no_stale_exposed (oracle : Nat → Bytes) (tag p : Bytes) (ok : Bool)
    (fn : Buf → Res (Buf × Bool)) (hfn : AppendOnly fn p ok) (hsz : p.length < 2 ^ 64) (b : Buf) :
    dataOf (anyBytesLowWith Buf.resliceToStrict oracle tag fn b) = dataOf (anyBytesLow oracle tag fn b) ∧
    ∃ r, anyBytesLowWith Buf.resliceToStrict oracle tag fn b = .ok r :=
  no_stale_exposed oracle tag p ok fn hfn hsz b

/-- the same about the Go source itself: `GoSrc.Encoder.anyBytes` is the statement-level translation
of encoder.go `anyBytes` (reserve two length bytes, run the callback, re-encode the length minimally,
`copy`, `PutUvarint` into a window, re-slice), regenerated from the working tree on every run -/
theorem C17_source_anyBytes_refines (oracle : Nat → Bytes) (field : Int) (p : Bytes) (ok : Bool)
    (fn : Buf → Res (Buf × Bool)) (hfn : AppendOnly fn p ok) (b : Buf)
    (hsz : b.data.length + (Pico.Enc.appendTag field 2).length + 2 + p.length < 9223372036854775808) :
    dataOf (GoSrc.Encoder.anyBytes oracle field fn b)
      = some (if ok then b.data ++ Pico.Enc.appendTag field 2 ++ Wire.varint p.length ++ p else b.data, ok) := by
  have hstart : (GoTie.E.start oracle field b).data = b.data ++ Pico.Enc.appendTag field 2 ++ List.replicate 2 (0 : Byte) := by
    unfold GoTie.E.start Buf.append; split <;> split <;> rfl
  have hg : GoTie.E.Grows fn (GoTie.E.start oracle field b) := by
    intro b' ok' h
    obtain ⟨t, ht⟩ := hfn (GoTie.E.start oracle field b)
    rw [ht] at h
    cases h
    simp only [Buf.len, hstart, List.length_append, List.length_replicate]
    omega
  rw [GoTie.E.anyBytes_eq oracle field fn b hg (by simp only [Buf.len]; omega)]
  exact anyBytesLow_refines oracle _ p ok fn hfn (by omega) b

/-- whole encoder programs (any nesting of Message / PresentMessage / AlwaysMessage / packed
writers around appending writers): `MarshalBuffer` with ANY buffer and `Marshal` produce the
same bytes — the abstract encoder's — and neither panics -/
theorem C17_buffer_independent (oracle oracle' : Nat → Bytes) (prog : List LOp) (h : sizesOk prog) (buffer : Bytes) :
    dataOf1 (marshalBufferLow oracle prog buffer) = some (absOps prog) ∧
    dataOf1 (marshalLow oracle' prog) = some (absOps prog) :=
  marshalBuffer_eq_marshal oracle oracle' prog h buffer

/-- the same about the Go source itself: ANY program over the encoder API (`GoTie.E.SOp`: appending
writers and arbitrarily nested Message / PresentMessage / AlwaysMessage), run through the translated
encoder.go by the translated message.go `MarshalBuffer` (any caller buffer, any re-allocation
behaviour) and `Marshal`, yields exactly the abstract encoder's bytes and a nil error -/
theorem C17_source_buffer_independent (oracle oracle' : Nat → Bytes) (prog : List GoTie.E.SOp)
    (h : sizesOk (GoTie.E.SOp.toLs prog)) (hw : GoTie.E.SOp.weights prog < 9223372036854775808) (buffer : Bytes) :
    GoSrc.Encoder.MarshalBuffer oracle (fun b => do let b' ← GoTie.E.srcOps oracle prog b; pure (b', true)) buffer
      = .ok (absOps (GoTie.E.SOp.toLs prog), none) ∧
    GoSrc.Encoder.Marshal oracle' (fun b => do let b' ← GoTie.E.srcOps oracle' prog b; pure (b', true))
      = .ok (absOps (GoTie.E.SOp.toLs prog), none) := by
  constructor
  · rw [GoTie.E.MarshalBuffer_eq, GoTie.E.srcOps_eq oracle prog h ⟨[], buffer⟩ (by simpa [Buf.len] using hw)]
    obtain ⟨t, ht⟩ := runOps_appends oracle _ h ⟨[], buffer⟩
    simp [ht]
  · rw [GoTie.E.Marshal_eq, GoTie.E.srcOps_eq oracle' prog h ⟨[], []⟩ (by simpa [Buf.len] using hw)]
    obtain ⟨t, ht⟩ := runOps_appends oracle' _ h ⟨[], []⟩
    simp [ht]

/-- arguments are never modified: the only stores of the runtime are into the encoder's own buffer,
the decoder's own cursor and output parameters; nothing stores through a value pointer handed to
an encoder or into the input slice of a decoder (facts regenerated from the source) -/
theorem C17_arguments_never_modified :
    Tie.storesOK Gen.paramStores Gen.copyCalls = true :=
  Tie.stores_are_the_modelled_ones

open Pico.GoTie.DT Pico.GoTie.ET in
/-- SOURCE (encoder_types.go, translated): a typed writer never modifies the value it is handed, and
the bytes it leaves do not depend on the buffer's spare capacity or on what a re-allocation leaves
behind: two runs on buffers with the same logical bytes agree on the logical bytes -/
theorem C17_source_typed_writer_independent (oracle oracle' : Nat → Bytes) (always : Bool) (k : Scalar) (field : Int)
    (enc enc' : Buf) (hd : enc.data = enc'.data) (v : GoVal k) (h : InRange k v) :
    ∃ d t t', srcWriteSingle oracle always k field enc v = .ok (⟨d, t⟩, v)
      ∧ srcWriteSingle oracle' always k field enc' v = .ok (⟨d, t'⟩, v) := by
  obtain ⟨t, ht⟩ := writeSingle_data oracle always k field enc v h
  obtain ⟨t', ht'⟩ := writeSingle_data oracle' always k field enc' v h
  exact ⟨_, t, t', ht, by rw [ht', hd]⟩

open Pico.GoTie.DT Pico.GoTie.ET in
/-- SOURCE: likewise for the repeated writers (the list handed in comes back unchanged) -/
theorem C17_source_repeated_writer_independent (oracle oracle' : Nat → Bytes) (always : Bool) (k : Scalar) (field : Int)
    (enc enc' : Buf) (hd : enc.data = enc'.data) (vs : List (GoVal k)) (hr : ∀ x ∈ vs, InRange k x)
    (hsz : enc.len + 10 * vs.length + 12 < 9223372036854775808) :
    ∃ d t t', srcWriteRepeated oracle always k field enc vs = .ok (⟨d, t⟩, vs)
      ∧ srcWriteRepeated oracle' always k field enc' vs = .ok (⟨d, t'⟩, vs) := by
  obtain ⟨t, ht⟩ := writeRepeated_tie oracle always k field enc vs hr hsz
  obtain ⟨t', ht'⟩ := writeRepeated_tie oracle' always k field enc' vs hr (by
    have : enc'.len = enc.len := by simp [Buf.len, hd]
    omega)
  exact ⟨_, t, t', ht, by rw [ht', hd]⟩

/-- non-vacuity: a two-level program with a stale 0xFF buffer -/
example : sizesOk [LOp.any [0x0a] true [LOp.raw [1, 2, 3]], LOp.present [0x12] []] := by
  simp [sizesOk, sizeOk, absOps, absOp]

end Pico.Props
