import PicoProofs.Tie
import PicoModel.WellTyped
/- C03: theorems are added as the proof modules land -/
