import PicoProofs.EndToEnd
import PicoProofs.GoTieApi
import PicoProofs.Tie
import PicoModel.Sample
/-
C03 — Unmarshal(Marshal(m)) reproduces m for every message.

Machine level: `Gen2.marshal` / `Gen2.unmarshal` are the models of the generated Encode / Decode
(and of message.go) over the regenerated Go expressions and tables. For EVERY supported schema
and EVERY strictly well-typed value — all scalar bit patterns (NaN payloads, -0 included), every
presence pattern, any nesting depth, maps in ANY entry order (a map value is an association list
in iteration order; the decoded list is compared entry for entry, see `mapInsert`), picoconv
times and durations — decoding the encoding into a fresh message gives back exactly that value
with a nil error. `wtMsg … true` excludes only what the property itself sets aside (nil ≡ empty;
values that are by design encoded as absent).
-/
namespace Pico.Props
open Pico Pico.Gen2

theorem C03_roundtrip (S : Schema) (hS : S.ok) (id : Nat) (v : Val)
    (hwt : wtMsg S true id v = true) (hsz : (Spec.specEnc S id v).length < 2 ^ 64) :
    ∃ d, unmarshal S id (marshal S id v) (zeroMsg S id) = .ok (d, v) ∧ d.err = none :=
  unmarshal_marshal S hS id v hwt hsz

/-- the same with the decoder side run through the Go source (`GoTie.srcUnmarshal` = the translated
message.go `Unmarshal` + decoder.go on the generated `Decode`): it returns the original value and a
nil error -/
theorem C03_source_roundtrip (S : Schema) (hS : S.ok) (id : Nat) (v : Val)
    (hwt : wtMsg S true id v = true) (hsz : (Spec.specEnc S id v).length < 2 ^ 64) :
    GoTie.srcUnmarshal S id (marshal S id v) (zeroMsg S id) = .ok (v, none) := by
  obtain ⟨d, hr, he⟩ := unmarshal_marshal S hS id v hwt hsz
  rw [GoTie.srcUnmarshal_of S id _ _ d v hr, he]

/-- the per-kind kernel of the proof: decode ∘ encode is the identity on every bit pattern -/
theorem C03_scalar_bits (rep : Bool) (var : Variant) (k : Scalar) (n : Nat) (h : n < 2 ^ k.width) :
    decBits rep k (encBits var k n) = n := (roundtrip_bits rep var k n h).2

/-- "default omitted ⇒ the decoder's zero-initialised target is right": the plain writer omits a
numeric field exactly when its bit pattern is zero -/
theorem C03_default_is_zero (k : Scalar) (hk : k.isBytes = false) (n : Nat) (h : n < 2 ^ k.width) :
    isDefaultBits k n = true ↔ n = 0 := default_iff_zero k hk n h

/-- picoconv: round trip of every Duration and of every instant -/
theorem C03_duration (n : Int) (h : Time.I64 n) : Time.durDecode (Time.durSplit n).1 (Time.durSplit n).2 = n :=
  Time.dur_roundtrip n h

/-! non-vacuity: the side conditions hold for the sample schema and value of `PicoModel/Sample.lean` -/
example : S1.supported = true := by decide
example : SpecRt.zeroMsgOkB S1 = true := by decide
example : wtMsg S1 true 0 v1 = true := by decide

end Pico.Props
