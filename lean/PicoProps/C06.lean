import PicoProofs.Tie
import PicoModel.WellTyped
/- C06: theorems are added as the proof modules land -/
