import PicoProofs.EncRefine
import PicoProofs.AnyBytes
import PicoProofs.WireLemmas
import PicoProofs.Tie
import PicoModel.Sample
/-
C06 — Marshal emits the canonical deterministic protobuf bytes.
-/
namespace Pico.Props
open Pico

/-- Marshal's output IS the canonical encoding — a function of the value alone (maps excluded by
the property: their entry order is the Go iteration order) -/
theorem C06_marshal_canonical (S : Schema) (id : Nat) (v : Val) (h : wtMsg S false id v = true) :
    Gen2.marshal S id v = Spec.specEnc S id v := marshal_eq_spec S id v h

/-- fields in strictly ascending field-number order, at every level -/
theorem C06_ascending_order (S : Schema) (id : Nat) (slots : List Val)
    (hw : wtSlots S false (S.msg id).fields slots = true) (hn : ((S.msg id).fields.map (·.num)).Nodup) :
    ((sortedChunks (Spec.encSlots S (S.msg id).fields slots)).map (·.1)).Pairwise (· < ·) :=
  specEnc_strictly_sorted S id slots hw hn

/-- captured unrecognized fields last -/
theorem C06_unrecognized_last (S : Schema) (id : Nat) (slots : List Val) (unrec : Bytes)
    (hc : (S.msg id).capture = true) :
    Spec.specEnc S id (.msg slots unrec) = Spec.sortChunks (Spec.encSlots S (S.msg id).fields slots) ++ unrec :=
  specEnc_unrec_last S id slots unrec hc

/-- minimal-length varints: every tag, value and length prefix is `Wire.varint`, whose length is
the minimum `SizeVarint` and whose last byte is non-zero -/
theorem C06_varints_minimal (v : Nat) (h : v < 2 ^ 64) :
    (Wire.varint v).length = Wire.sizeVarint v ∧ (v ≠ 0 → (Wire.varint v).getLast? ≠ some 0#8) :=
  ⟨(Wire.sizeVarint_eq v h).symm, Wire.varint_getLast_ne_zero v⟩

/-- … at every payload size: the length-patching trick (2 reserved bytes, shrink or grow) yields
the minimal prefix for EVERY length, on every buffer -/
theorem C06_length_prefix_every_size (oracle : Nat → Bytes) (field : Int) (p : Bytes) (ok : Bool)
    (fn : EncLow.Buf → Res (EncLow.Buf × Bool)) (hfn : EncLow.AppendOnly fn p ok) (hsz : p.length < 2 ^ 64) (b : EncLow.Buf) :
    EncLow.dataOf (EncLow.anyBytesLow oracle (Enc.appendTag field 2) fn b) = some (b.data ++ Enc.anyBytes field p ok, ok) :=
  EncLow.anyBytesLow_eq_abstract oracle field p ok fn hfn hsz b

/-- default-valued singular fields omitted — exactly the zero bit pattern / empty bytes, nothing else -/
theorem C06_defaults_omitted (k : Scalar) (f : Nat) (v : Val) (h : scalarOk k v = true) :
    Enc.writeSingle false k (f : Int) v.toSVal = [] ↔ Spec.isZeroVal k v.toSVal = true := by
  rw [writeSingle_eq false k f v h]
  cases hz : Spec.isZeroVal k v.toSVal
  · simp only [Bool.not_false, Bool.true_and, Bool.false_eq_true, ↓reduceIte, iff_false]
    intro hnil
    have hne := Wire.varint_ne_nil (Wire.encodeTag f k.wire)
    simp only [Spec.field1, Wire.tag, List.append_eq_nil_iff] at hnil
    exact hne hnil.1
  · simp

/-- repeated scalars packed -/
theorem C06_repeated_packed (k : Scalar) (f : Nat) (vs : List Val) (h : vs.all (scalarOk k) = true) :
    Enc.writeRepeated false k (f : Int) (vs.map Val.toSVal)
      = if vs.isEmpty then [] else Spec.packed k f (vs.map Val.toSVal) := writeRepeated_eq k f vs h

/-- non-vacuity: distinct field numbers, a well-typed value, a capturing message -/
example : ((S1.msg 0).fields.map (·.num)).Nodup := by decide +kernel
example : wtMsg S1 false 0 v1 = true := by decide +kernel
example : (S1.msg 1).capture = true := by decide +kernel

end Pico.Props
