import PicoProofs.EncRefine
import PicoProofs.EncProg
import PicoProofs.Tie
import PicoModel.Sample
/-
C01 — Marshal output is valid protobuf carrying exactly the message's values.

`Gen2.marshal` is the statement-by-statement model of the generated `Encode` methods (all field
kinds and shapes, map codecs and picoconv casts included) over the regenerated Go expressions;
`Spec.specEnc` is the canonical protobuf encoder written from the specification with closed-form
arithmetic. The theorem holds for EVERY schema and EVERY well-typed value (all 2^32 / 2^64 scalar
values, any depth, any size), nil pointers, nil slices and nil maps included (`wtMsg` admits them).
That the reference implementation parses `specEnc` back to the same values is the specification's
round trip (C03) — plus, on every run, the reference column of correspondence stream M.
-/
namespace Pico.Props
open Pico

/-- Marshal = the canonical specification encoder -/
theorem C01_marshal_is_spec (S : Schema) (id : Nat) (v : Val) (h : wtMsg S false id v = true) :
    Gen2.marshal S id v = Spec.specEnc S id v := marshal_eq_spec S id v h

/-- Marshal never panics or errors: the abstract encoder is a total function, and at the Go-slice
level every encoder program runs to completion on every buffer (no out-of-range slice, no
out-of-window PutUvarint) -/
theorem C01_marshal_never_panics (oracle : Nat → Bytes) (prog : List EncLow.LOp) (h : EncLow.sizesOk prog) :
    ∃ t, EncLow.marshalLow oracle prog = .ok ⟨EncLow.absOps prog, t⟩ := by
  obtain ⟨t, ht⟩ := EncLow.runOps_appends oracle prog h ⟨[], []⟩
  exact ⟨t, by simpa [EncLow.marshalLow] using ht⟩

/-- per field: every singular writer emits the specification's tag and value, or nothing for the
default of a field without presence -/
theorem C01_scalar_field (always : Bool) (k : Scalar) (f : Nat) (v : Val) (h : scalarOk k v = true) :
    Enc.writeSingle always k (f : Int) v.toSVal
      = if !always && Spec.isZeroVal k v.toSVal then [] else Spec.field1 f k v.toSVal :=
  writeSingle_eq always k f v h

/-- repeated scalars are packed (string/bytes: one record per element) -/
theorem C01_repeated_field (k : Scalar) (f : Nat) (vs : List Val) (h : vs.all (scalarOk k) = true) :
    Enc.writeRepeated false k (f : Int) (vs.map Val.toSVal)
      = if vs.isEmpty then [] else Spec.packed k f (vs.map Val.toSVal) := writeRepeated_eq k f vs h

/-- all 180 map codecs: one `{1:key, 2:value}` entry per element, zero key/value omitted -/
theorem C01_map_field (k v : Scalar) (f : Nat) (es : List (Val × Val))
    (h : es.all (fun e => scalarOk k e.1 && scalarOk v e.2) = true) :
    Gen2.mapEncode k v (f : Int) es = Spec.mapEntries k v f es := mapEncode_eq k v f es h

/-- TIE: writers, readers and map codecs have the modelled shapes -/
theorem C01_tables : Tie.sameRows Gen.encRows Tie.expectedEncRows = true ∧
    (Tie.sameRows Gen.mapRows Tie.expectedMapRows = true ∧ Gen.mapExtraFuncs = []) :=
  ⟨Tie.encoder_table_expected, Tie.map_table_expected⟩

/-- non-vacuity: a well-typed value (nil pointers included) of a schema with a oneof, a map, a
nested capturing and a recursive message -/
example : wtMsg S1 false 0 v1 = true := by decide +kernel

end Pico.Props
