import PicoProofs.Tie
import PicoModel.WellTyped
/- C01: theorems are added as the proof modules land -/
