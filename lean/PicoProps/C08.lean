import PicoProofs.Tie
import PicoModel.WellTyped
/- C08: theorems are added as the proof modules land -/
