import PicoProofs.EndToEnd
import PicoProofs.Tie
import PicoModel.Sample
/-
C08 — Field presence survives encoding and decoding.

Presence is part of the value tree (`.none` vs `.some`, selected oneof member, `.list` length), so
the round-trip theorem preserves it wholesale; the lemmas below spell out the zero cases the
property names: they are instances, each for EVERY field number, kind and schema.
-/
namespace Pico.Props
open Pico Pico.Gen2

/-- whatever the message distinguishes in memory it still distinguishes after Marshal, Unmarshal -/
theorem C08_presence_survives (S : Schema) (hS : S.ok) (id : Nat) (v : Val)
    (hwt : wtMsg S true id v = true) (hsz : (Spec.specEnc S id v).length < 2 ^ 64) :
    ∃ d, unmarshal S id (marshal S id v) (zeroMsg S id) = .ok (d, v) ∧ d.err = none :=
  unmarshal_marshal S hS id v hwt hsz

/-- … and a reader of the wire (the specification decoder, which the reference implementation is
compared with) sees the same distinctions -/
theorem C08_reference_sees_it (S : Schema) (hS : S.ok) (id : Nat) (v : Val)
    (hwt : wtMsg S true id v = true) (hsz : (Spec.specEnc S id v).length < 2 ^ 64) :
    Spec.specUnmarshal S id (marshal S id v) (zeroMsg S id) = some v := spec_reads_marshal S hS id v hwt hsz

/-- an optional field / oneof member explicitly set to the zero value is still written: the Always
writers emit tag and value for EVERY value, zero included -/
theorem C08_zero_kept_when_present (k : Scalar) (f : Nat) (v : Val) (h : scalarOk k v = true) :
    Enc.writeSingle true k (f : Int) v.toSVal = Spec.field1 f k v.toSVal := by
  rw [writeSingle_eq true k f v h]; rfl

theorem C08_zero_kept_nonempty (k : Scalar) (f : Nat) (v : Val) (h : scalarOk k v = true) :
    Enc.writeSingle true k (f : Int) v.toSVal ≠ [] := by
  rw [C08_zero_kept_when_present k f v h]
  intro hnil
  have hne := Wire.varint_ne_nil (Wire.encodeTag f k.wire)
  simp only [Spec.field1, Wire.tag, List.append_eq_nil_iff] at hnil
  exact hne hnil.1

/-- an empty-but-present sub-message (pointer set, no content) is written as a zero-length field,
an absent one as nothing -/
theorem C08_empty_submessage_kept (f : Nat) : Enc.message (f : Int) [] true = Spec.lenField f [] ∧ Enc.message (f : Int) [] false = [] :=
  ⟨message_eq f [], rfl⟩

/-- repeated message elements are never dropped or merged: each element, empty or not, is one
length-delimited record -/
theorem C08_repeated_message_elements (f : Nat) (p : Bytes) : Enc.alwaysMessage (f : Int) p = Spec.lenField f p :=
  alwaysMessage_eq f p

/-- non-vacuity: the premises of the presence round trip hold for the sample schema and value (set
pointer to zero, selected oneof member, empty sub-message) -/
example : S1.ok := ⟨by decide +kernel, SpecRt.zeroMsgOk_of_B S1 (by decide +kernel)⟩
example : wtMsg S1 true 0 v1 = true := by decide +kernel

end Pico.Props
