import PicoModel.Encoder
/-
L2 — transcription of `decoder.go` and of the readers of `decoder_types.go` as a state machine.

* Every Go slice expression `b[i:]`, `b[:j]` is a *checked* operation (`sliceFrom`, `sliceTo`):
  out of range is `Res.panic`, so "Unmarshal never panics" is a theorem about this model
  (`PicoProofs/DecSafe.lean`), not an artefact of `List.drop` being total.
* Callbacks (`fn func(*Decoder)`) are functions `Dec → σ → Res (Dec × σ)` over a user state `σ`
  (the message being filled).
* `Loop` is a `for` loop that runs until input is exhausted; it gets `len(buffer)+1` iterations
  of fuel and returns `Res.outOfFuel` if that were ever not enough (theorem: it always is).
-/
namespace Pico.Dec
open Pico.Wire

def fieldDecodingErrored : Int := -1
def fieldDecodingDone : Int := -2

/-- `messageDecodeState` -/
structure Frame where
  pendingField : Int
  pendingWire : Nat
  buffer : Bytes
  deriving Repr, DecidableEq, Inhabited

/-- `Decoder` -/
structure Dec where
  cur : Frame
  stack : List Frame
  init : Bool
  err : Option (Int × String)
  deriving Repr, DecidableEq, Inhabited

abbrev DecM (σ : Type) := Dec → σ → Res (Dec × σ)

/-- `NewDecoder(data)` / the decoder `Unmarshal` builds -/
def new (data : Bytes) : Dec :=
  { cur := ⟨0, 0, data⟩, stack := [], init := false, err := none }

/-- Go `b[n:]` -/
def sliceFrom (b : Bytes) (n : Int) : Res Bytes :=
  if 0 ≤ n ∧ n ≤ b.length then .ok (b.drop n.toNat) else .panic "slice bounds out of range [n:]"

/-- Go `b[:n]` (capacity is never smaller than the length, and no reader re-slices beyond it) -/
def sliceTo (b : Bytes) (n : Int) : Res Bytes :=
  if 0 ≤ n ∧ n ≤ b.length then .ok (b.take n.toNat) else .panic "slice bounds out of range [:n]"

/-- `dec.fail(field, msg)` -/
def fail (d : Dec) (field : Int) (msg : String) : Dec :=
  { d with cur := { d.cur with pendingField := fieldDecodingErrored }, err := some (field, msg) }

/-- `dec.nextField(advance)` (decoder.go:197) -/
def nextField (d : Dec) (advance : Int) : Res Dec :=
  if advance < 0 ∨ advance > d.cur.buffer.length then
    .ok (fail d 0 "advance outside buffer")
  else do
    let b ← sliceFrom d.cur.buffer advance
    let d := { d with cur := { d.cur with buffer := b } }
    if b.length = 0 then
      return { d with cur := { d.cur with pendingField := fieldDecodingDone } }
    let t := consumeTag b
    if t.2.2 < 0 ∨ !numberIsValid t.1 then
      return fail d 0 "failed to parse"
    let b2 ← sliceFrom b t.2.2
    return { d with cur := ⟨t.1, t.2.1, b2⟩ }

/-- `dec.pushState(message)` -/
def pushState (d : Dec) (message : Bytes) : Res Dec :=
  nextField { d with stack := d.stack ++ [d.cur], cur := ⟨0, 0, message⟩ } 0

/-- `dec.popState()` -/
def popState (d : Dec) : Dec :=
  match d.stack.getLast? with
  | none => fail d 0 "stack mangled"
  | some f => { d with cur := f, stack := d.stack.dropLast }

/-- `FieldNumber.IsValid` of the pending field -/
def pendingValid (d : Dec) : Bool := numberIsValid d.cur.pendingField

/-! ### typed readers (decoder_types.go) -/

def wireName : Nat → String
  | 0 => "Varint" | 5 => "Fixed32" | 1 => "Fixed64" | 2 => "Bytes" | 3 => "StartGroup" | 4 => "EndGroup"
  | _ => "?"

def primName (k : Scalar) : String :=
  match k with
  | .string => "String"
  | .bytes => "Bytes"
  | _ => wireName k.wire

/-- `protowire.ConsumeX(b)` for the primitive of kind `k`: decoded scalar and length -/
def consumeScalar (rep : Bool) (k : Scalar) (b : Bytes) : Enc.SVal × Int :=
  match k.wire with
  | 0 => let r := consumeVarint b; (.num (decBits rep k r.1), r.2)
  | 5 => let r := consumeFixed32 b; (.num (decBits rep k r.1), r.2)
  | 1 => let r := consumeFixed64 b; (.num (decBits rep k r.1), r.2)
  | _ => let r := consumeBytes b; (.bytes r.1, r.2)

/-- `dec.X(field, &v)` for the 15 singular readers. Returns the new value when one was stored. -/
def readSingle (k : Scalar) (field : Int) (d : Dec) : Res (Dec × Option Enc.SVal) :=
  if field ≠ d.cur.pendingField then .ok (d, none)
  else if d.cur.pendingWire ≠ k.wire then
    .ok (fail d field ("expected wire type " ++ wireName k.wire), none)
  else
    let r := consumeScalar false k d.cur.buffer
    if r.2 < 0 then .ok (fail d field ("unable to parse " ++ primName k), none)
    else do
      let d ← nextField d r.2
      return (d, some r.1)

/-- the inner `for len(packed) > 0` loop of the packed branch: the elements appended, and whether
it stopped at an unparsable element -/
def readPacked (k : Scalar) : Nat → Bytes → List Enc.SVal → Res (List Enc.SVal × Bool)
  | 0, _, _ => .outOfFuel
  | fuel + 1, packed, acc =>
    if packed.length = 0 then .ok (acc, false)
    else
      let r := consumeScalar true k packed
      if r.2 < 0 then .ok (acc, true)
      else do
        let rest ← sliceFrom packed r.2
        readPacked k fuel rest (acc ++ [r.1])

/-- `dec.RepeatedX(field, &vs)`: the `for field == dec.pendingField` loop; `acc` are the elements
appended so far. -/
def readRepeatedN (k : Scalar) (field : Int) : Nat → Dec → List Enc.SVal → Res (Dec × List Enc.SVal)
  | 0, _, _ => .outOfFuel
  | fuel + 1, d, acc =>
    if field ≠ d.cur.pendingField then .ok (d, acc)
    else if d.cur.pendingWire = 2 ∧ !k.isBytes then
      let r := consumeBytes d.cur.buffer
      if r.2 < 0 then .ok (fail d field "unable to parse Bytes", acc)
      else do
        let (xs, bad) ← readPacked k (r.1.length + 1) r.1 []
        if bad then return (fail d field ("unable to parse " ++ primName k), acc ++ xs)
        let d ← nextField d r.2
        readRepeatedN k field fuel d (acc ++ xs)
    else if d.cur.pendingWire = k.wire then
      let r := consumeScalar true k d.cur.buffer
      if r.2 < 0 then .ok (fail d field ("unable to parse " ++ primName k), acc)
      else do
        let d ← nextField d r.2
        readRepeatedN k field fuel d (acc ++ [r.1])
    else .ok (fail d field ("expected wire type " ++ wireName k.wire), acc)

def readRepeated (k : Scalar) (field : Int) (d : Dec) (acc : List Enc.SVal) : Res (Dec × List Enc.SVal) :=
  readRepeatedN k field (d.cur.buffer.length + 2) d acc

/-- `dec.RepeatedEnum(field, add)`: same control flow as a repeated varint reader, elements are
`int32(x)` bit patterns -/
def readRepeatedEnumN (field : Int) : Nat → Dec → List Nat → Res (Dec × List Nat)
  | 0, _, _ => .outOfFuel
  | fuel + 1, d, acc =>
    if field ≠ d.cur.pendingField then .ok (d, acc)
    else if d.cur.pendingWire = 2 then
      let r := consumeBytes d.cur.buffer
      if r.2 < 0 then .ok (fail d field "unable to parse Bytes", acc)
      else do
        let (xs, bad) ← packedEnum (r.1.length + 1) r.1 []
        if bad then return (fail d field "unable to parse Varint", acc ++ xs)
        let d ← nextField d r.2
        readRepeatedEnumN field fuel d (acc ++ xs)
    else if d.cur.pendingWire = 0 then
      let r := consumeVarint d.cur.buffer
      if r.2 < 0 then .ok (fail d field "unable to parse Varint", acc)
      else do
        let d ← nextField d r.2
        readRepeatedEnumN field fuel d (acc ++ [r.1 % 4294967296])
    else .ok (fail d field "expected wire type Varint", acc)
where
  packedEnum : Nat → Bytes → List Nat → Res (List Nat × Bool)
    | 0, _, _ => .outOfFuel
    | fuel + 1, packed, acc =>
      if packed.length = 0 then .ok (acc, false)
      else
        let r := consumeVarint packed
        if r.2 < 0 then .ok (acc, true)
        else do
          let rest ← sliceFrom packed r.2
          packedEnum fuel rest (acc ++ [r.1 % 4294967296])

def readRepeatedEnum (field : Int) (d : Dec) (acc : List Nat) : Res (Dec × List Nat) :=
  readRepeatedEnumN field (d.cur.buffer.length + 2) d acc

/-! ### message-level operations (decoder.go) -/

/-- `dec.Loop(fn)` (decoder.go:158). `fuel` bounds the number of passes. -/
def loopN {σ} (fn : DecM σ) : Nat → DecM σ
  | 0, _, _ => .outOfFuel
  | fuel + 1, d, s => do
    let startingLength := d.cur.buffer.length
    let (d, s) ← fn d s
    if !pendingValid d then return (d, s)
    if d.cur.buffer.length = startingLength then
      -- we didn't process any of the fields
      let n := consumeFieldValue d.cur.pendingField d.cur.pendingWire d.cur.buffer
      let d ← nextField d n
      loopN fn fuel d s
    else loopN fn fuel d s

def loop {σ} (fn : DecM σ) : DecM σ := fun d s => do
  let d ← if !d.init then (do let d ← nextField d 0; pure { d with init := true }) else pure d
  loopN fn (d.cur.buffer.length + 2) d s

/-- `dec.Message(field, fn)` and `dec.PresentMessage(field, fn)` (identical bodies) -/
def message {σ} (field : Int) (fn : DecM σ) : DecM σ := fun d s =>
  if field ≠ d.cur.pendingField then .ok (d, s)
  else if d.cur.pendingWire ≠ 2 then .ok (fail d field "expected wire type Bytes", s)
  else
    let r := consumeBytes d.cur.buffer
    if r.2 < 0 then .ok (fail d field "unable to parse Bytes", s)
    else do
      let d ← pushState d r.1
      let (d, s) ← loop fn d s
      let d := popState d
      let d ← nextField d r.2
      return (d, s)

/-- `dec.RepeatedMessage(field, fn)`: `fn` is run once per occurrence (it calls `Loop` itself) -/
def repeatedMessageN {σ} (field : Int) (fn : DecM σ) : Nat → DecM σ
  | 0, _, _ => .outOfFuel
  | fuel + 1, d, s =>
    if field ≠ d.cur.pendingField then .ok (d, s)
    else if d.cur.pendingWire ≠ 2 then .ok (fail d field "expected wire type Bytes", s)
    else
      let r := consumeBytes d.cur.buffer
      if r.2 < 0 then .ok (fail d field "unable to parse Bytes", s)
      else do
        let d ← pushState d r.1
        let (d, s) ← fn d s
        let d := popState d
        let d ← nextField d r.2
        repeatedMessageN field fn fuel d s

def repeatedMessage {σ} (field : Int) (fn : DecM σ) : DecM σ := fun d s =>
  repeatedMessageN field fn (d.cur.buffer.length + 2) d s

/-- `dec.UnrecognizedFields(exclude, &out)` (decoder.go:147). `exclude` is the bit mask. -/
def unrecognizedFieldsN (exclude : Nat) : Nat → Dec → Bytes → Res (Dec × Bytes)
  | 0, _, _ => .outOfFuel
  | fuel + 1, d, out =>
    let pf := d.cur.pendingField
    if pf ≥ 0 ∧ (pf ≥ 64 ∨ !(exclude.testBit pf.toNat)) then
      let n := consumeFieldValue pf d.cur.pendingWire d.cur.buffer
      if n < 0 then .ok (fail d pf "unable to parse unrecognized field", out)
      else do
        let out := out ++ tag pf d.cur.pendingWire
        let raw ← sliceTo d.cur.buffer n
        let d ← nextField d n
        unrecognizedFieldsN exclude fuel d (out ++ raw)
    else .ok (d, out)

def unrecognizedFields (exclude : Nat) (d : Dec) (out : Bytes) : Res (Dec × Bytes) :=
  unrecognizedFieldsN exclude (d.cur.buffer.length + 2) d out

end Pico.Dec
