import PicoModel.GenCode
import PicoModel.GoPrelude
/-
Primitives the statement translator maps picoconv's calls to:
* the callbacks `func(c) { c.Int64(1, &seconds); c.Int32(2, &nanos) }` handed to `c.Message`, on both
  sides (recognised by template; their reading/writing of the two fields is the typed readers'/writers'
  semantics of the model);
* the `time` package (trusted parameter, see `Time.lean`): a `time.Time` is what the conversions
  observe of it, `(Unix(), Nanosecond())`.
-/
namespace Pico.GoTime
open Pico Pico.Wire Pico.Enc Pico.Dec

/-- a `time.Time`, observed through `Unix()` and `Nanosecond()` -/
abbrev T := Int × Int

def isZero (z : T) : Bool := Time.isZero z.1 z.2
def unix (z : T) : Int := z.1
def nanosecond (z : T) : Int := z.2
/-- `time.Unix(sec, nsec)` -/
def ofUnix (sec nsec : Int) : T := Time.unixNorm sec nsec
/-- `Time.UTC()`: the instant is unchanged -/
def utc (z : T) : T := z
/-- `Duration.Nanoseconds()` -/
def nanoseconds (d : Int) : Int := d

/-- `c.Message(field, func(c *picobuf.Decoder) { c.Int64(1, &seconds); c.Int32(2, &nanos) })` -/
def readSecNanos (field : Int) (c : Dec) (seconds nanos : Int) : Res (Dec × Int × Int) := do
  let (d, s) ← Dec.message field Gen2.secNanosPass c (Time.pat64 seconds, Time.pat32 nanos)
  pure (d, Time.wrap64 s.1, Time.wrap32 s.2)

/-- `c.Message(field, func(c *picobuf.Encoder) bool { c.Int64(1, &seconds); c.Int32(2, &nanos); return true })`
on the append-only encoder: the bytes appended -/
def secNanosMessage (field : Int) (seconds nanos : Int) : Bytes :=
  Enc.message field
    (writeSingle false .int64 1 (.num (Time.pat64 seconds)) ++ writeSingle false .int32 2 (.num (Time.pat32 nanos))) true

end Pico.GoTime
