import PicoModel.Conv
/-
L1b — the abstract encoder: every method of `encoder.go` / `encoder_types.go` as the byte string
it appends to `enc.buffer`. The refinement from the Go-slice level (`EncLow.lean`: reserved length
bytes, `copy`, re-slicing, stale capacity) to this level is theorem `anyBytesLow_refines`.

Field numbers are `Int` (Go `int32`): the tag arithmetic is defined for every value, valid or not.
-/
namespace Pico.Enc
open Pico.Wire

/-- conv.go `appendTag`: its own varint loop over `uint64(num)<<3 | uint64(typ&7)` -/
def appendTag (num : Int) (typ : Nat) : Bytes := varint (encodeTag num typ)

/-- `anyBytes` (encoder.go:68): tag, minimal length prefix, payload — or nothing when the callback
reports absence. -/
def anyBytes (field : Int) (payload : Bytes) (ok : Bool) : Bytes :=
  if ok then appendTag field 2 ++ varint payload.length ++ payload else []

/-- `alwaysAnyBytes` (encoder.go:105) -/
def alwaysAnyBytes (field : Int) (payload : Bytes) : Bytes :=
  appendTag field 2 ++ varint payload.length ++ payload

/-- a scalar value: numeric kinds carry their bit pattern, string/bytes their bytes -/
inductive SVal where
  | num (n : Nat)
  | bytes (b : Bytes)
  deriving Repr, DecidableEq, Inhabited

def SVal.num! : SVal → Nat
  | .num n => n
  | .bytes _ => 0

def SVal.bytes! : SVal → Bytes
  | .bytes b => b
  | .num _ => []

/-- the value part written after the tag by a singular writer of kind `k` -/
def scalarPayload (var : Variant) (k : Scalar) (v : SVal) : Bytes :=
  match k.wire with
  | 0 => varint (encBits var k v.num!)
  | 5 => fixed32 (encBits var k v.num!)
  | 1 => fixed64 (encBits var k v.num!)
  | _ => lenPrefixed v.bytes!

/-- is the value the default for which the plain writer emits nothing? -/
def isDefault (k : Scalar) (v : SVal) : Bool :=
  if k.isBytes then v.bytes!.isEmpty else isDefaultBits k v.num!

/-- `enc.X(field, &v)` / `enc.AlwaysX(field, &v)` -/
def writeSingle (always : Bool) (k : Scalar) (field : Int) (v : SVal) : Bytes :=
  if !always && isDefault k v then []
  else appendTag field k.wire ++ scalarPayload (if always then .always else .plain) k v

/-- `enc.RepeatedX(field, &vs)` / `enc.AlwaysRepeatedX(field, &vs)`; the packed layouts follow the
three styles of encoder_types.go. -/
def writeRepeated (always : Bool) (k : Scalar) (field : Int) (vs : List SVal) : Bytes :=
  let var : Variant := if always then .alwaysRep else .rep
  if !always && vs.isEmpty then []
  else match k with
    | .string | .bytes =>
      (vs.map fun v => appendTag field 2 ++ lenPrefixed v.bytes!).flatten
    | .bool =>
      appendTag field 2 ++ varint vs.length ++ vs.map (fun v => byteOfNat (encBits var k v.num!))
    | _ =>
      match k.wire with
      | 5 => appendTag field 2 ++ varint (vs.length * 4) ++ (vs.map fun v => fixed32 (encBits var k v.num!)).flatten
      | 1 => appendTag field 2 ++ varint (vs.length * 8) ++ (vs.map fun v => fixed64 (encBits var k v.num!)).flatten
      | _ => alwaysAnyBytes field (vs.map fun v => varint (encBits var k v.num!)).flatten

/-- `enc.RepeatedEnum(field, n, fn)`: `xs` are the int32 bit patterns `fn` returns -/
def repeatedEnum (field : Int) (xs : List Nat) : Bytes :=
  if xs.isEmpty then []
  else alwaysAnyBytes field (xs.map fun x => varint ((BitVec.ofNat 32 x).signExtend 64).toNat).flatten

/-- `enc.Message(field, fn)` where `fn` appended `payload` and returned `ok` -/
def message (field : Int) (payload : Bytes) (ok : Bool) : Bytes := anyBytes field payload ok

/-- `enc.AlwaysMessage(field, fn)`: the callback's result is ignored -/
def alwaysMessage (field : Int) (payload : Bytes) : Bytes := alwaysAnyBytes field payload

/-- `enc.PresentMessage(field, fn)`: present iff the callback appended something -/
def presentMessage (field : Int) (payload : Bytes) : Bytes := anyBytes field payload (!payload.isEmpty)

end Pico.Enc
