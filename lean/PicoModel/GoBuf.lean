import PicoModel.EncLow
import PicoModel.GoPrelude
/-
Go operations on a byte slice that is WRITTEN IN PLACE (`enc.buffer` of encoder.go), as emitted by
the statement translator: the slice is an `EncLow.Buf` (logical bytes + stale capacity), appends go
through the re-allocation oracle, indices are Go `int`s (negative = panic).
-/
namespace Pico.GoBuf
open Pico Pico.EncLow

/-- conv.go `appendTag(buf, num, typ)` on a written slice: appends the tag bytes -/
def appendTag (oracle : Nat → Bytes) (b : Buf) (num : Int) (typ : Nat) : Buf :=
  b.append oracle (Pico.Enc.appendTag num typ)

/-- `protowire.AppendVarint(buf, v)` on a written slice -/
def appendVarint (oracle : Nat → Bytes) (b : Buf) (v : Nat) : Buf :=
  b.append oracle (Pico.Wire.varint v)

/-- `protowire.AppendFixed32(buf, v)` on a written slice -/
def appendFixed32 (oracle : Nat → Bytes) (b : Buf) (v : Nat) : Buf :=
  b.append oracle (Pico.Wire.fixed32 v)

/-- `protowire.AppendFixed64(buf, v)` on a written slice -/
def appendFixed64 (oracle : Nat → Bytes) (b : Buf) (v : Nat) : Buf :=
  b.append oracle (Pico.Wire.fixed64 v)

/-- `protowire.AppendBytes(buf, v)` / `AppendString(buf, v)` on a written slice -/
def appendBytes (oracle : Nat → Bytes) (b : Buf) (v : Bytes) : Buf :=
  b.append oracle (Pico.Wire.lenPrefixed v)

/-- `buf[:n]` -/
def resliceTo (b : Buf) (n : Int) : Res Buf :=
  if n < 0 then .panic "slice bounds out of range" else b.resliceTo n.toNat

/-- `copy(buf[dst:], buf[src:])` -/
def copyWithin (b : Buf) (dst src : Int) : Res Buf :=
  if dst < 0 ∨ src < 0 then .panic "slice bounds out of range" else b.copyWithin dst.toNat src.toNat

/-- `protowire.PutUvarint(buf[lo:hi], x)` -/
def putUvarintAt (b : Buf) (lo hi : Int) (x : Nat) : Res Buf :=
  if lo < 0 ∨ hi < 0 then .panic "slice bounds out of range" else b.putUvarintAt lo.toNat hi.toNat x

/-- `buffer[:0]` of a caller-supplied slice: everything it held becomes stale capacity -/
def ofSliceZero (buffer : Bytes) : Buf := ⟨[], buffer⟩

end Pico.GoBuf
