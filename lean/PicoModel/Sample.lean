import PicoModel.Schema
/-
A sample schema and value used only by the non-vacuity `example`s next to the property theorems
(never by a proof): a oneof, a map, a nested capturing message, a recursive message; the value
exercises nil/non-nil pointers, NaN and negative-zero float patterns, empty and non-empty bytes.
-/
namespace Pico.Props
open Pico

def S1 : Schema := [
  ⟨[⟨1, .scalar .sint32, 0, 0, false, 0⟩, ⟨2, .scalar .string, 1, 0, false, 0⟩, ⟨3, .scalar .float, 2, 0, false, 0⟩,
    ⟨4, .scalar .bool, 0, 1, false, 0⟩, ⟨5, .message 1, 0, 1, false, 0⟩, ⟨6, .map .int32 .bytes, 0, 0, false, 0⟩,
    ⟨7, .message 0, 0, 0, false, 0⟩], false, false⟩,
  ⟨[⟨1, .scalar .int64, 0, 0, false, 0⟩], true, false⟩ ]

def v1 : Val := .msg [.num 0xFFFFFFFF, .some (.bytes []), .list [.num 0x80000000, .num 0x7FC00001],
  .none, .some (.some (.msg [.num 0] [])), .map [(.num 0, .bytes [1]), (.num 7, .bytes [])],
  .some (.msg [.num 0, .none, .list [], .some (.num 0), .none, .none, .none] [])] []

end Pico.Props
