import PicoModel.Basic
/-
Hand models of the small self-contained pieces:
* `FieldNumber.String` (message.go:32) — the hand-rolled itoa over an 11-byte array;
* `bitset.Small.Set` (internal/bitset/set.go);
* a generic closure check used for the import graph (C07);
* a scheduler of threads with private state (C16).
-/
namespace Pico

/-! ### FieldNumber.String -/
namespace FieldNum

def digitChar (d : Nat) : Char := Char.ofNat (48 + d)

/-- the `for ; i >= 0 && field > 0; i--` loop: `i` is the Go index (as an `Int`), `acc` the
characters `z[i+1:]` written so far -/
def digitLoop : Nat → Int → Nat → List Char → Int × Nat × List Char
  | 0, i, field, acc => (i, field, acc)
  | fuel + 1, i, field, acc =>
    if i ≥ 0 ∧ field > 0 then digitLoop fuel (i - 1) (field / 10) (digitChar (field % 10) :: acc)
    else (i, field, acc)

/-- `FieldNumber(field).String()` for a Go `int32` value. The array `z` has 11 elements; writing
`z[i]` with `i < 0` would panic. -/
def fieldString (field : Int) : Res String :=
  if field == 0 then .ok "0"
  else if field == -2147483648 then .ok "-2147483648"
  else
    let negative := field < 0
    let mag : Nat := if negative then (-field).toNat else field.toNat
    let r := digitLoop 12 10 mag []
    if negative then
      if r.1 < 0 then .panic "index out of range [-1]" else .ok (String.ofList ('-' :: r.2.2))
    else .ok (String.ofList r.2.2)

/-- `parseError.Error()` -/
def errorText (field : Int) (msg : String) : Res String := do
  let s ← fieldString field
  return "failed while parsing " ++ s ++ ": " ++ msg

end FieldNum

/-! ### bitset.Small -/
namespace Bitset

structure Small where
  low : Nat
  rest : List Nat
  deriving Repr, DecidableEq, Inhabited

def empty : Small := ⟨0, []⟩

/-- `set.Set(x)` for a Go `int32` `x` -/
def set (s : Small) (x : Int) : Res (Small × Bool) :=
  if x < 0 then .ok (s, false)
  else if x < 64 then
    let b := x.toNat
    .ok ({ s with low := s.low ||| (1 <<< b) }, s.low.testBit b)
  else
    let w := (x - 64).toNat
    let bucket := w / 64
    let bit := w % 64
    let rest := if s.rest.length ≤ bucket then s.rest ++ List.replicate (bucket + 1 - s.rest.length) 0 else s.rest
    match rest[bucket]? with
    | none => .panic "index out of range"
    | some word => .ok ({ s with rest := rest.set bucket (word ||| (1 <<< bit)) }, word.testBit bit)

/-- run a sequence of insertions, collecting the answers -/
def run : Small → List Int → Res (Small × List Bool)
  | s, [] => .ok (s, [])
  | s, x :: xs => do
    let (s, b) ← set s x
    let (s, bs) ← run s xs
    return (s, b :: bs)

/-- the specification: was this non-negative value inserted before? -/
def specRun : List Int → List Int → List Bool
  | _, [] => []
  | seen, x :: xs => (decide (0 ≤ x) && seen.contains x) :: specRun (x :: seen) xs

end Bitset

/-! ### graph closure (C07) -/
namespace Graph

/-- `S` is closed under the edge relation -/
def closed (edges : List (Nat × Nat)) (S : List Nat) : Bool :=
  edges.all fun e => !S.contains e.1 || S.contains e.2

/-- reachability by a path of any length -/
inductive Reach (edges : List (Nat × Nat)) : Nat → Nat → Prop where
  | refl (a) : Reach edges a a
  | step {a b c} : Reach edges a b → (b, c) ∈ edges → Reach edges a c

/-- executable closure (for the witness path search and the evidence) -/
def closureN (edges : List (Nat × Nat)) : Nat → List Nat → List Nat
  | 0, S => S
  | fuel + 1, S =>
    let new := (edges.filter fun e => S.contains e.1 && !S.contains e.2).map (·.2)
    if new.isEmpty then S else closureN edges fuel (S ++ new.eraseDups)

end Graph

/-! ### threads with private state (C16) -/
namespace Sched

/-- `n` threads; thread `i` runs the deterministic step function `step i` on its private state;
the shared store `sh` is only read. A schedule is a list of thread ids. -/
def run {σ : Type} {Sh : Type} (step : Nat → Sh → σ → σ) (sh : Sh) : List Nat → (Nat → σ) → (Nat → σ)
  | [], st => st
  | t :: ts, st => run step sh ts (fun i => if i = t then step t sh (st t) else st i)

end Sched

end Pico
