import PicoModel.Basic
/-
Primitives the regenerated `Gen/Exprs.lean` may refer to.
-/
namespace Pico

/-- `bits.Len64`: number of bits needed to represent the value (0 for 0), as a Go `int`. -/
def bitsLen64 (v : BitVec 64) : BitVec 64 :=
  BitVec.ofNat 64 (if v.toNat = 0 then 0 else Nat.log2 v.toNat + 1)

end Pico
