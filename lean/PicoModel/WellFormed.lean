import PicoModel.Spec
/-
C05 — the value-free side of the specification decoder: which byte strings are *well formed* for
message type `id` of schema `S`, i.e. accepted by `Spec.specDec` (theorem
`Pico.Spec.specDec_ok_iff_wellFormed` in PicoProofs/SpecLaws.lean: acceptance depends on the
bytes and the schema only, never on the value decoded into).

Definitions only. The fuel discipline is that of `specDec`/`applyRec` (one unit per record and one
per nesting level; `2 * b.length + 2` is always enough), so that the correspondence holds at every
fuel, not just at sufficient fuel.
-/
namespace Pico.Spec
open Pico.Wire

/-- a packed payload splits completely into elements of kind `k` -/
def unpackOk (k : Scalar) (p : Bytes) : Bool := (unpack k (p.length + 1) p).isSome

/-- one record of a two-field entry (map entry, picoconv Timestamp/Duration): field 1 has wire type
`w1`, field 2 has wire type `w2`, anything else is skipped -/
def entryRecOk (w1 w2 : Nat) (r : Record) : Bool :=
  if r.num = 1 then r.wire == w1 else if r.num = 2 then r.wire == w2 else true

/-- an entry payload: a complete sequence of records whose field 1 / field 2 records have the
wire types `w1` / `w2` -/
def entryOk (w1 w2 : Nat) (p : Bytes) : Bool :=
  match records (p.length + 1) p with
  | none => false
  | some rs => rs.all (entryRecOk w1 w2)

mutual
/-- `b` is a complete sequence of records (valid tag, number in 1 … 2^29−1, complete balanced
value — all inside `parse1`) and every record bearing the number of a known field of message `id`
is acceptable for that field -/
def wellFormed (S : Schema) : Nat → Nat → Bytes → Bool
  | 0, _, _ => false
  | fuel + 1, id, b =>
    if b.isEmpty then true
    else match parse1 b with
      | none => false
      | some (r, rest) =>
        (match findField (S.msg id).fields r.num with
         | none => true
         | some (_, f) => recOk S fuel f r) && wellFormed S fuel id rest

/-- record `r` is acceptable for the known field `f` -/
def recOk (S : Schema) : Nat → Field → Record → Bool
  | 0, _, _ => false
  | fuel + 1, f, r =>
    match f.kind with
    | .scalar k =>
      if f.repeated then
        if r.wire = 2 ∧ !k.isBytes then unpackOk k r.payload else decide (r.wire = k.wire)
      else decide (r.wire = k.wire)
    | .enum =>
      if f.repeated then
        if r.wire = 2 then unpackOk .int32 r.payload else decide (r.wire = 0)
      else decide (r.wire = 0)
    | .map k v => decide (r.wire = 2) && entryOk k.wire v.wire r.payload
    | .message id =>
      decide (r.wire = 2) &&
        (if f.cat == 1 ∨ f.cat == 2 then entryOk 0 0 r.payload else wellFormed S fuel id r.payload)
end

end Pico.Spec
