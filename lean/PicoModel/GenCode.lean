import PicoModel.Schema
import PicoModel.Time
/-
L3 — deep embedding of the code protoc-gen-pico emits (`genFieldEncode`, `genFieldDecode`,
protoc-gen-pico/main.go:213 and :356), for any schema, plus the picowire map codecs and the
picoconv casts as the generated code calls them. `Api` at the end is message.go.

Encoding is a structural recursion over the value; decoding runs the `Dec` machine of
`Decoder.lean` and takes a nesting fuel (each nested payload is strictly shorter than its parent,
so `len(data)+1` always suffices).
-/
namespace Pico.Gen2
open Pico.Wire Pico.Enc Pico.Dec

/-! ### picoconv, as called by generated code -/

/-- `(*picoconv.Timestamp)(&t).PicoEncode(c, field)` for a non-nil pointer -/
def tsEncode (field : Int) (code : Nat) : Bytes :=
  let sec := Time.codeSec code
  let ns := Time.codeNs code
  if Time.isZero sec ns then []
  else Enc.message field
    (writeSingle false .int64 1 (.num (Time.pat64 sec)) ++ writeSingle false .int32 2 (.num (Time.pat32 (Time.wrap32 ns)))) true

/-- `(*picoconv.Duration)(&d).PicoEncode(c, field)` for a non-nil pointer; `pat` is the int64 pattern -/
def durEncode (field : Int) (pat : Nat) : Bytes :=
  let sp := Time.durSplit (Time.wrap64 pat)
  Enc.message field
    (writeSingle false .int64 1 (.num (Time.pat64 sp.1)) ++ writeSingle false .int32 2 (.num (Time.pat32 sp.2))) true

/-- the callback both casts hand to `c.Message`: `c.Int64(1,&seconds); c.Int32(2,&nanos)` -/
def secNanosPass : DecM (Nat × Nat) := fun d s => do
  let (d, a) ← readSingle .int64 1 d
  let s := match a with | some v => (v.num!, s.2) | none => s
  let (d, b) ← readSingle .int32 2 d
  let s := match b with | some v => (s.1, v.num!) | none => s
  return (d, s)

/-- `(*picoconv.Timestamp)(t).PicoDecode(c, field)`; returns the new time code if `*t` was assigned -/
def tsDecode (field : Int) (d : Dec) : Res (Dec × Option Nat) :=
  if d.cur.pendingField ≠ field then .ok (d, none)
  else do
    let (d, s) ← Dec.message field secNanosPass d (0, 0)
    let r := Time.unixNorm (Time.wrap64 s.1) (Time.wrap32 s.2)
    return (d, some (Time.timeCode r.1 r.2))

/-- `(*picoconv.Duration)(d).PicoDecode(c, field)` -/
def durDecode (field : Int) (d : Dec) : Res (Dec × Option Nat) :=
  if d.cur.pendingField ≠ field then .ok (d, none)
  else do
    let (d, s) ← Dec.message field secNanosPass d (0, 0)
    return (d, some (Time.pat64 (Time.durDecode (Time.wrap64 s.1) (Time.wrap32 s.2))))

/-! ### picowire map codecs -/

/-- `(*picowire.MapKV)(&m).PicoEncode(c, field)`: entries in iteration order -/
def mapEncode (k v : Scalar) (field : Int) (es : List (Val × Val)) : Bytes :=
  (es.map fun e =>
    alwaysAnyBytes field (writeSingle false k 1 e.1.toSVal ++ writeSingle false v 2 e.2.toSVal)).flatten

/-- insertion into a Go map modelled as an association list: overwrite in place or append -/
def mapInsert (es : List (Val × Val)) (key val : Val) (eq : Val → Val → Bool) : List (Val × Val) :=
  if es.any (fun e => eq e.1 key) then es.map (fun e => if eq e.1 key then (e.1, val) else e)
  else es ++ [(key, val)]

def keyEq (a b : Val) : Bool :=
  match a, b with
  | .num x, .num y => x == y
  | .bytes x, .bytes y => x == y
  | _, _ => false

/-- the per-entry callback of `PicoDecode`: fresh key/val, `c.Loop{ c.K(1,&key); c.V(2,&val) }`,
then `(*m)[key] = val` -/
def mapEntry (k v : Scalar) : DecM (Option (List (Val × Val))) := fun d m => do
  let m := match m with | none => some [] | some es => some es
  let pass : DecM (Val × Val) := fun d kv => do
    let (d, a) ← readSingle k 1 d
    let kv := match a with | some x => (Val.ofSVal x, kv.2) | none => kv
    let (d, b) ← readSingle v 2 d
    let kv := match b with | some x => (kv.1, Val.ofSVal x) | none => kv
    return (d, kv)
  let (d, kv) ← Dec.loop pass d (k.zero, v.zero)
  return (d, m.map fun es => mapInsert es kv.1 kv.2 keyEq)

def mapDecode (k v : Scalar) (field : Int) : DecM (Option (List (Val × Val))) :=
  Dec.repeatedMessage field (mapEntry k v)

/-! ### generated Encode -/

def sortChunks (cs : List (Nat × Bytes)) : Bytes :=
  ((cs.mergeSort fun a b => a.1 ≤ b.1).map (·.2)).flatten

mutual
/-- bytes appended by `x.Encode(c)` on a non-nil `x` of message type `id` -/
def encMsg (S : Schema) (id : Nat) : Val → Bytes
  | .msg slots unrec =>
    sortChunks (encSlots S (S.msg id).fields slots) ++ (if (S.msg id).capture then unrec else [])
  | _ => []

def encSlots (S : Schema) : List Field → List Val → List (Nat × Bytes)
  | f :: fs, v :: vs => (f.num, encField S false f v) :: encSlots S fs vs
  | _, _ => []

/-- the statement `genFieldEncode` emits for field `f`, applied to the Go value `v` of the field.
`always` is set once a oneof wrapper has been unwrapped. -/
def encField (S : Schema) (always : Bool) (f : Field) : Val → Bytes
  | .none => []
  | .some v =>
    if f.inOneof && !always then encField S true f v
    else match f.kind with
      | .message id =>
        (match f.cat with
         | 1 => tsEncode f.num v.num!
         | 2 => durEncode f.num v.num!
         | _ => Enc.message f.num (encMsg S id v) true)
      | .scalar k => writeSingle true k f.num v.toSVal
      | .enum => writeSingle true .int32 f.num v.toSVal
      | .map _ _ => []
  | .num n =>
    match f.kind with
    | .scalar k => writeSingle always k f.num (.num n)
    | .enum => writeSingle always .int32 f.num (.num n)
    | .message _ =>
      (match f.cat with
       | 1 => tsEncode f.num n
       | 2 => durEncode f.num n
       | _ => [])
    | .map _ _ => []
  | .bytes b =>
    match f.kind with
    | .scalar k => writeSingle always k f.num (.bytes b)
    | _ => []
  | .msg slots unrec =>
    match f.kind with
    | .message id =>
      Enc.presentMessage f.num
        (sortChunks (encSlots S (S.msg id).fields slots) ++ (if (S.msg id).capture then unrec else []))
    | _ => []
  | .list vs =>
    match f.kind with
    | .scalar k => writeRepeated false k f.num (vs.map Val.toSVal)
    | .enum => repeatedEnum f.num (vs.map Val.num!)
    | .message id =>
      (match f.cat with
       | 1 => (vs.map fun v => match v with | .none => [] | .some x => tsEncode f.num x.num! | x => tsEncode f.num x.num!).flatten
       | 2 => (vs.map fun v => match v with | .none => [] | .some x => durEncode f.num x.num! | x => durEncode f.num x.num!).flatten
       | _ => encElems S f.num id vs)
    | .map _ _ => []
  | .map es =>
    match f.kind with
    | .map k v => mapEncode k v f.num es
    | _ => []

/-- `for _, x := range m.F { c.AlwaysMessage(num, x.Encode) }` -/
def encElems (S : Schema) (num : Nat) (id : Nat) : List Val → Bytes
  | [] => []
  | v :: vs => alwaysMessage num (encMsg S id v) ++ encElems S num id vs
end

/-! ### generated Decode -/

/-- fresh value of a field's Go type; `sub id` is the zero value of an always-present (value-typed)
sub-message of type `id` -/
def zeroSlot (S : Schema) (sub : Nat → Val) (f : Field) : Val :=
  if f.inOneof then .none
  else if f.repeated then .list []
  else match f.kind with
    | .map _ _ => .none
    | .message id =>
      if f.pointer S then .none
      else if f.cat == 1 then .num (Time.timeCode Time.zeroUnix 0)
      else if f.cat == 2 then .num 0
      else sub id
    | .scalar k => if f.pointer S then .none else k.zero
    | .enum => .num 0

/-- `new(T)` for message type `id`, to depth `fuel` of always-present sub-messages -/
def zeroMsgN (S : Schema) : Nat → Nat → Val
  | 0, _ => .msg [] []
  | fuel + 1, id => .msg ((S.msg id).fields.map fun f => zeroSlot S (zeroMsgN S fuel) f) []

/-- `new(T)`: always-present nesting is acyclic (a cycle does not compile), so its depth is below
the number of message types -/
def zeroMsg (S : Schema) (id : Nat) : Val := zeroMsgN S (S.length + 1) id

def zeroField (S : Schema) (f : Field) : Val := zeroSlot S (zeroMsg S) f

def setSlot (m : Val) (i : Nat) (v : Val) : Val :=
  match m with
  | .msg slots u => .msg (slots.set i v) u
  | x => x

def getSlot (m : Val) (i : Nat) : Val :=
  match m with
  | .msg slots _ => slots.getD i .none
  | _ => .none

/-- selecting oneof member `i`: every other member of the same group becomes unset (the Go
interface field holds exactly one wrapper) -/
def clearGroup (fs : List Field) (group : Nat) (keep : Nat) (m : Val) : Val :=
  match m with
  | .msg slots u =>
    .msg ((slots.zipIdx.zip fs).map fun (p : (Val × Nat) × Field) =>
      if p.2.oneof == group && p.1.2 != keep then Val.none else p.1.1) u
  | x => x

/-- the bit mask `fieldsBitSet` -/
def fieldsMask (fs : List Field) : Nat := fs.foldl (fun z f => z ||| (1 <<< f.num)) 0

def sortedIdx (fs : List Field) : List (Nat × Field) :=
  (fs.zipIdx.map fun p => (p.2, p.1)).mergeSort fun a b => a.2.num ≤ b.2.num

/-- `for c.PendingField() == num { x := new(T) / append zero; PicoDecode; append }` -/
def castLoop (one : Dec → Res (Dec × Option Nat)) (ptr : Bool) (zeroC : Nat) : Nat → Int → Dec → List Val → Res (Dec × Val)
  | 0, _, _, _ => .outOfFuel
  | fuel + 1, num, d, xs =>
    if d.cur.pendingField ≠ num then .ok (d, .list xs)
    else do
      let (d, a) ← one d
      let c := match a with | some c => c | none => zeroC
      let x : Val := if ptr then .some (.num c) else .num c
      castLoop one ptr zeroC fuel num d (xs ++ [x])


mutual
/-- one run of the generated `m.Decode(c)` for message type `id` (σ = the message value) -/
def decPass (S : Schema) : Nat → Nat → DecM Val
  | 0, _ => fun _ _ => .outOfFuel
  | fuel + 1, id => fun d m => do
    let fs := (S.msg id).fields
    let (d, m) ← decFields S fuel fs (sortedIdx fs) d m
    if (S.msg id).capture then
      match m with
      | .msg slots u =>
        let (d, u) ← Dec.unrecognizedFields (fieldsMask fs) d u
        return (d, .msg slots u)
      | x => return (d, x)
    else return (d, m)

def decFields (S : Schema) : Nat → List Field → List (Nat × Field) → DecM Val
  | _, _, [] => fun d m => .ok (d, m)
  | fuel, fs, (i, f) :: rest => fun d m => do
    let (d, m) ← decField S fuel fs i f d m
    decFields S fuel fs rest d m

/-- the statement `genFieldDecode` emits for field `f` (slot `i`) -/
def decField (S : Schema) : Nat → List Field → Nat → Field → DecM Val
  | fuel, fs, i, f => fun d m =>
    if f.inOneof then
      if d.cur.pendingField ≠ f.num then .ok (d, m)
      else do
        -- reuse the wrapper if this member is already selected, else install a fresh one
        let cur := getSlot m i
        let (m, inner) := match cur with
          | .some x => (m, x)
          | _ =>
            let z := zeroField S { f with oneof := 0 }
            (setSlot (clearGroup fs f.oneof i m) i (.some z), z)
        let (d, inner) ← decInner S fuel { f with oneof := 0 } d inner
        return (d, setSlot m i (.some inner))
    else do
      let (d, v) ← decInner S fuel f d (getSlot m i)
      return (d, setSlot m i v)

/-- decoding into the Go variable holding field `f` (not, or no longer, inside a oneof wrapper) -/
def decInner (S : Schema) : Nat → Field → DecM Val
  | fuel, f => fun d cur =>
    let num : Int := f.num
    match f.kind with
    | .scalar k =>
      if f.repeated then do
        let (d, xs) ← readRepeated k num d (cur.list!.map Val.toSVal)
        return (d, .list (xs.map Val.ofSVal))
      else if f.pointer S then
        if d.cur.pendingField ≠ num then .ok (d, cur)
        else do
          -- m.F = new(T); c.X(num, m.F)
          let (d, a) ← readSingle k num d
          return (d, .some (match a with | some x => Val.ofSVal x | none => k.zero))
      else do
        let (d, a) ← readSingle k num d
        return (d, match a with | some x => Val.ofSVal x | none => cur)
    | .enum =>
      if f.repeated then do
        let (d, xs) ← readRepeatedEnum num d (cur.list!.map Val.num!)
        return (d, .list (xs.map Val.num))
      else do
        let (d, a) ← readSingle .int32 num d
        return (d, match a with | some x => Val.ofSVal x | none => cur)
    | .map k v =>
      do
        let m0 : Option (List (Val × Val)) := match cur with | .map es => some es | _ => none
        let (d, m1) ← mapDecode k v num d m0
        return (d, match m1 with | some es => Val.map es | none => Val.none)
    | .message id =>
      if f.cat == 1 ∨ f.cat == 2 then
        let one (d : Dec) : Res (Dec × Option Nat) := if f.cat == 1 then tsDecode num d else durDecode num d
        let zeroC : Nat := if f.cat == 1 then Time.timeCode Time.zeroUnix 0 else 0
        if f.repeated then
          castLoop one (f.pointer S) zeroC (d.cur.buffer.length + 2) num d cur.list!
        else if f.pointer S then
          if d.cur.pendingField ≠ num then .ok (d, cur)
          else do
            let old := match cur with | .some x => x | _ => Val.num zeroC
            let (d, a) ← one d
            return (d, .some (match a with | some c => .num c | none => old))
        else do
          let (d, a) ← one d
          return (d, match a with | some c => .num c | none => cur)
      else if f.repeated then
        -- c.RepeatedMessage(num, func(c){ x := new(T); c.Loop(x.Decode); m.F = append(m.F, x) })
        let entry : DecM (List Val) := fun d xs => do
          let (d, x) ← Dec.loop (decPass S fuel id) d (zeroMsg S id)
          return (d, xs ++ [x])
        do
          let (d, xs) ← Dec.repeatedMessage num entry d cur.list!
          return (d, .list xs)
      else if f.pointer S then
        -- c.Message(num, func(c){ if m.F == nil { m.F = new(T) }; m.F.Decode(c) })
        let fn : DecM Val := fun d cur => do
          let x := match cur with | .some x => x | _ => zeroMsg S id
          let (d, x) ← decPass S fuel id d x
          return (d, .some x)
        Dec.message num fn d cur
      else
        -- c.PresentMessage(num, m.F.Decode)
        Dec.message num (decPass S fuel id) d cur
end

/-! ### message.go -/

/-- `picobuf.Marshal(msg)` for a non-nil message of type `id` -/
def marshal (S : Schema) (id : Nat) (m : Val) : Bytes := encMsg S id m

/-- `picobuf.Unmarshal(data, msg)`: the final decoder state and the message -/
def unmarshal (S : Schema) (id : Nat) (data : Bytes) (m0 : Val) : Res (Dec × Val) :=
  Dec.loop (decPass S (data.length + 1) id) (Dec.new data) m0

end Pico.Gen2
