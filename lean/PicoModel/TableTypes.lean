import PicoModel.Basic
/-
Row types of the fact tables regenerated from the Go sources (`Gen/CoderTable.lean`,
`Gen/MapTable.lean`, `Gen/Imports.lean`, `Gen/Globals.lean`).
-/
namespace Pico

inductive EncShape where
  | single          -- appendTag; AppendX(expr(*v))
  | repAnyBytes     -- alwaysAnyBytes(field){ for x: AppendX(expr(x)) }
  | repLen          -- appendTag Bytes; AppendVarint(len*lenMul); for x: AppendX(expr(x))
  | repBool         -- appendTag Bytes; AppendVarint(len); for x: append(expr(x))
  | repUnpacked     -- for x: appendTag; AppendX(expr(x))
  | unrecognised
  deriving DecidableEq, Repr

structure EncRow where
  name : String
  kind : String
  always : Bool
  repeated : Bool
  shape : EncShape
  guard : String
  wire : String
  prim : String
  expr : String
  lenMul : Nat
  deriving DecidableEq, Repr

inductive DecShape where
  | single | repPacked | repUnpacked | unrecognised
  deriving DecidableEq, Repr

structure DecRow where
  name : String
  kind : String
  repeated : Bool
  shape : DecShape
  wire : String
  prim : String
  expr : String
  wireMsg : String
  parseMsg : String
  bytesMsg : String
  deriving DecidableEq, Repr

structure MapRow where
  name : String
  goType : String
  ok : Bool
  encKey : String
  encVal : String
  decKey : String
  decVal : String
  keyType : String
  valType : String
  deriving DecidableEq, Repr

structure ImportNode where
  path : String
  std : Bool
  inModule : Bool
  deriving DecidableEq, Repr

structure SrcFact where
  file : String
  fn : String
  what : String
  deriving DecidableEq, Repr

end Pico
