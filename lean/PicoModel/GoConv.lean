import PicoModel.Gen.Exprs
import PicoModel.GoPrelude
/-
The scalar conversions of conv.go / protowire (zig-zag, bool) as the statement translator calls
them from the typed readers and writers. They are the `BitVec` expressions regenerated from the Go
source (`Gen/Exprs.lean`), seen through the statement translator's value representation (`intN` as
`Int`, `uintN` as `Nat`). Floats are represented by their IEEE bit pattern, so
`math.Float32bits` / `Float32frombits` (and the 64-bit pair) are the identity; the translator
rejects every other floating-point operation.
-/
namespace Pico.Go

def encodeZigZag32 (v : Int) : Nat := (Pico.Gen.encodeZigZag32 (BitVec.ofInt 32 v)).toNat
def decodeZigZag32 (v : Nat) : Int := (Pico.Gen.decodeZigZag32 (BitVec.ofNat 32 v)).toInt
def encodeZigZag (v : Int) : Nat := (Pico.Gen.wireEncodeZigZag (BitVec.ofInt 64 v)).toNat
def decodeZigZag (v : Nat) : Int := (Pico.Gen.wireDecodeZigZag (BitVec.ofNat 64 v)).toInt
def encodeBool64 (v : Bool) : Nat := (Pico.Gen.encodeBool64 v).toNat
def encodeBool8 (v : Bool) : Byte := Pico.Gen.encodeBool8 v

def float32bits (f : Nat) : Nat := f
def float64bits (f : Nat) : Nat := f
def float32frombits (x : Nat) : Nat := x
def float64frombits (x : Nat) : Nat := x

/-- `protowire.AppendFixed32(b, v)` -/
def appendFixed32 (b : Bytes) (v : Nat) : Bytes := b ++ Pico.Wire.fixed32 v
/-- `protowire.AppendFixed64(b, v)` -/
def appendFixed64 (b : Bytes) (v : Nat) : Bytes := b ++ Pico.Wire.fixed64 v
/-- `protowire.AppendBytes(b, v)` / `AppendString(b, v)` -/
def appendBytes (b v : Bytes) : Bytes := b ++ Pico.Wire.lenPrefixed v

end Pico.Go
