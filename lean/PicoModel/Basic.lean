/-
Basic types shared by the whole model of storj/picobuf.

* a byte is `BitVec 8`, a byte string a `List` of them;
* Go operations that can panic return `Res`, so that "never panics" is a theorem about the model
  and not an artefact of a totalised list function.
-/
namespace Pico

abbrev Byte := BitVec 8
abbrev Bytes := List Byte

/-- Result of a Go computation that may panic (slice bounds, index, nil map …) or — for the
fuel-driven transcriptions of `for` loops — run out of fuel. -/
inductive Res (α : Type) where
  | ok (a : α)
  | panic (why : String)
  | outOfFuel
  deriving Repr

namespace Res

def bind {α β} (r : Res α) (f : α → Res β) : Res β :=
  match r with
  | .ok a => f a
  | .panic w => .panic w
  | .outOfFuel => .outOfFuel

instance : Monad Res where
  pure := .ok
  bind := Res.bind

def isOk {α} : Res α → Bool
  | .ok _ => true
  | _ => false

@[simp] theorem bind_ok {α β} (a : α) (f : α → Res β) : (Res.ok a >>= f) = f a := rfl
@[simp] theorem bind_panic {α β} (w) (f : α → Res β) : (Res.panic w >>= f) = .panic w := rfl
@[simp] theorem bind_oof {α β} (f : α → Res β) : (Res.outOfFuel >>= f) = .outOfFuel := rfl
@[simp] theorem pure_eq {α} (a : α) : (pure a : Res α) = .ok a := rfl

end Res

/-- Go `int32` carried as `BitVec 32`; signed reading. -/
abbrev I32 := BitVec 32
abbrev U32 := BitVec 32
abbrev I64 := BitVec 64
abbrev U64 := BitVec 64

def byteOfNat (n : Nat) : Byte := BitVec.ofNat 8 n

end Pico
