import PicoModel.EncLow
/-
Programs over the low-level encoder: every method of encoder.go / encoder_types.go is either a
plain `append` to `enc.buffer` (`raw`: all typed writers — see the tie theorem
`stores_are_the_modelled_ones` — and `UnrecognizedFields`) or one of the three length-prefixing
wrappers around a callback that again runs such a program.
`runOps` executes on the Go-slice model (`EncLow.Buf`: stale capacity, re-allocation oracle);
`absOps` is the byte string the abstract encoder (`Encoder.lean`) appends.
-/
namespace Pico.EncLow
open Pico Pico.Wire

inductive LOp where
  /-- a writer that only appends -/
  | raw (bs : Bytes)
  /-- `anyBytes(field, fn)` with `fn` = run `ops`, report `ok` (Message) -/
  | any (tag : Bytes) (ok : Bool) (ops : List LOp)
  /-- `anyBytes(field, fn)` with `fn` = run `ops`, report "something was appended" (PresentMessage) -/
  | present (tag : Bytes) (ops : List LOp)
  /-- `alwaysAnyBytes(field, fn)` (AlwaysMessage, AlwaysAnyBytes, packed repeated writers) -/
  | always (tag : Bytes) (ops : List LOp)

mutual
def runOp (oracle : Nat → Bytes) : LOp → Buf → Res Buf
  | .raw bs, b => .ok (b.append oracle bs)
  | .any tag ok ops, b => do
    let r ← anyBytesLow oracle tag (fun b => do let b' ← runOps oracle ops b; pure (b', ok)) b
    pure r.1
  | .present tag ops, b => do
    let r ← anyBytesLow oracle tag (fun b => do
      let lengthStart := b.len
      let b' ← runOps oracle ops b
      pure (b', decide (b'.len > lengthStart))) b
    pure r.1
  | .always tag ops, b => alwaysAnyBytesLow oracle tag (runOps oracle ops) b

def runOps (oracle : Nat → Bytes) : List LOp → Buf → Res Buf
  | [], b => .ok b
  | op :: ops, b => do
    let b' ← runOp oracle op b
    runOps oracle ops b'
end

mutual
def absOp : LOp → Bytes
  | .raw bs => bs
  | .any tag ok ops => if ok then tag ++ varint (absOps ops).length ++ absOps ops else []
  | .present tag ops => if (absOps ops).isEmpty then [] else tag ++ varint (absOps ops).length ++ absOps ops
  | .always tag ops => tag ++ varint (absOps ops).length ++ absOps ops

def absOps : List LOp → Bytes
  | [] => []
  | op :: ops => absOp op ++ absOps ops
end

mutual
/-- every length-prefixed payload is shorter than 2^64 bytes -/
def sizeOk : LOp → Prop
  | .raw _ => True
  | .any _ _ ops => (absOps ops).length < 2 ^ 64 ∧ sizesOk ops
  | .present _ ops => (absOps ops).length < 2 ^ 64 ∧ sizesOk ops
  | .always _ ops => (absOps ops).length < 2 ^ 64 ∧ sizesOk ops

def sizesOk : List LOp → Prop
  | [] => True
  | op :: ops => sizeOk op ∧ sizesOk ops
end

/-- `Marshal`: a fresh encoder (`&Encoder{}`: nil buffer) -/
def marshalLow (oracle : Nat → Bytes) (prog : List LOp) : Res Buf := runOps oracle prog ⟨[], []⟩

/-- `MarshalBuffer(msg, buffer)` / `NewEncoderBuffer(buffer)`: the encoder starts on `buffer[:0]`,
so all of `buffer`'s capacity — its old contents included — is stale tail -/
def marshalBufferLow (oracle : Nat → Bytes) (prog : List LOp) (buffer : Bytes) : Res Buf :=
  runOps oracle prog ⟨[], buffer⟩

end Pico.EncLow
