import PicoModel.GoPrelude
/-
Go maps as the statement translator sees them: `none` is the nil map, `some es` an allocated map
whose entries `es` are listed in iteration order (Go leaves that order unspecified: every theorem
about a translated `range` over a map holds for whatever order the list has). Keys are unique in a
map built by `mapSet`.
-/
namespace Pico.Go

abbrev Map (K V : Type) := Option (List (K × V))

/-- the entries a `range` visits (none for a nil map) -/
def mapRange {K V} (m : Map K V) : List (K × V) := m.getD []

/-- `m == nil` -/
def mapIsNil {K V} (m : Map K V) : Bool := m.isNone

/-- `map[K]V{}` -/
def mapEmpty {K V} : Map K V := some []

/-- association-list update: overwrite the entry with an equal key in place, else append -/
def assocSet {K V} [DecidableEq K] (es : List (K × V)) (k : K) (v : V) : List (K × V) :=
  if es.any (fun e => e.1 = k) then es.map (fun e => if e.1 = k then (e.1, v) else e)
  else es ++ [(k, v)]

/-- `m[k] = v`; assignment to an entry of a nil map panics -/
def mapSet {K V} [DecidableEq K] (m : Map K V) (k : K) (v : V) : Res (Map K V) :=
  match m with
  | none => .panic "assignment to entry in nil map"
  | some es => .ok (some (assocSet es k v))

end Pico.Go
