import PicoModel.Decoder
/-
L3 (first part) — schemas and values.

`Schema` is the proto3 subset protoc-gen-pico supports; `Field.pointer` etc. re-derive the
generator's `fieldInfo` (protoc-gen-pico/main.go:525). `Val` is an untyped tree of Go values with
exactly the distinctions the properties observe (nil pointer vs pointer to zero, nil map vs
allocated map, selected oneof member).
-/
namespace Pico

inductive FKind where
  | scalar (k : Scalar)
  | enum
  | message (id : Nat)
  | map (k v : Scalar)
  deriving DecidableEq, Repr, Inhabited

structure Field where
  num : Nat
  kind : FKind
  /-- 0 plain, 1 `optional`, 2 `repeated` -/
  label : Nat
  /-- 0 = not a member of a real oneof, otherwise the group id (1, 2, …) within the message -/
  oneof : Nat
  /-- `(pico.field).always_present` -/
  always : Bool
  /-- 0 normal, 1 cast to picoconv.Timestamp, 2 cast to picoconv.Duration, 3 other custom (outside the model) -/
  cat : Nat
  deriving DecidableEq, Repr, Inhabited

structure Msg where
  fields : List Field
  /-- `(pico.message).capture_unrecognized_fields` -/
  capture : Bool
  /-- `(pico.message).always_present` -/
  always : Bool
  deriving DecidableEq, Repr, Inhabited

abbrev Schema := List Msg

def Schema.msg (S : Schema) (id : Nat) : Msg := S.getD id ⟨[], false, false⟩

namespace Field

def repeated (f : Field) : Bool := f.label == 2 && (match f.kind with | .map _ _ => false | _ => true)
def inOneof (f : Field) : Bool := f.oneof != 0
def isMessage (f : Field) : Bool := match f.kind with | .message _ => true | _ => false

/-- `fieldInfo(...).pointer` -/
def pointer (S : Schema) (f : Field) : Bool :=
  let p : Bool := match f.kind with
    | .message id => !(S.msg id).always
    | .map _ _ => false
    | _ => f.label == 1
  !f.always && p

end Field

/-- The generator accepts the schema (it panics with "unsupported …" otherwise); also restricts
to what the model covers (`cat ≠ 3`). -/
def Field.supported (S : Schema) (f : Field) : Bool :=
  f.cat != 3 &&
  (match f.kind with
    | .enum => !(f.pointer S)
    | .map k _ => k != .float && k != .double && k != .bytes && f.label == 0 && f.oneof == 0
    | .message id => id < S.length
    | .scalar _ => true) &&
  (f.cat == 0 || (f.isMessage && f.oneof == 0)) &&
  (f.label != 2 || f.oneof == 0) && (f.label != 1 || f.oneof == 0) &&
  1 ≤ f.num && f.num ≤ 536870911

def Msg.supported (S : Schema) (m : Msg) : Bool :=
  m.fields.all (Field.supported S) &&
  (m.fields.map (·.num)).Nodup &&
  (!m.capture || m.fields.all (·.num < 64))

def Schema.supported (S : Schema) : Bool := S.all (Msg.supported S)

/-- Go values, untyped. -/
inductive Val where
  | num (n : Nat)
  | bytes (b : Bytes)
  | msg (slots : List Val) (unrec : Bytes)
  | list (vs : List Val)
  | map (es : List (Val × Val))
  | none
  | some (v : Val)
  deriving Repr, Inhabited

namespace Val

def num! : Val → Nat
  | .num n => n
  | _ => 0

def bytes! : Val → Bytes
  | .bytes b => b
  | _ => []

def toSVal : Val → Enc.SVal
  | .num n => .num n
  | .bytes b => .bytes b
  | _ => .num 0

def ofSVal : Enc.SVal → Val
  | .num n => .num n
  | .bytes b => .bytes b

def list! : Val → List Val
  | .list vs => vs
  | _ => []

end Val

/-- zero value of a scalar kind -/
def Scalar.zero (k : Scalar) : Val := if k.isBytes then .bytes [] else .num 0

end Pico
