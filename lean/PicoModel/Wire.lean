import PicoModel.Basic
/-
L0 — hand model of `internal/protowire/wire.go` (a clone of protobuf-go's protowire) and of
`stdlib.go` (PutUvarint). Values are natural numbers (`uint64` arguments are `< 2^64`; the
`BitVec` wrappers are in `Conv.lean`), lengths are `Int` exactly as in Go: a negative length is
an error code (-1 truncated, -2 field number, -3 overflow, -4 reserved, -5 end group,
-6 recursion depth).

Tied to the source by correspondence stream P (every function here is driven against the real
function on boundary-biased and random arguments).
-/
namespace Pico.Wire

def errTruncated : Int := -1
def errFieldNumber : Int := -2
def errOverflow : Int := -3
def errReserved : Int := -4
def errEndGroup : Int := -5
def errRecursionDepth : Int := -6
/-- never returned when the fuel is larger than the input (theorem `cfv_never_fuel`) -/
def errFuel : Int := -100

/-- `AppendVarint` (wire.go:196): the Go code is a 10-way switch on the magnitude; the bytes are
the little-endian base-128 digits with the continuation bit on all but the last. -/
def varint (v : Nat) : Bytes :=
  if v < 128 then [byteOfNat v] else byteOfNat (v % 128 + 128) :: varint (v / 128)
termination_by v
decreasing_by omega

/-- `ConsumeVarint` (wire.go:278), unrolled 10 times in Go. `idx` is the byte index. -/
def consumeVarintAux : Nat → Bytes → Nat × Int
  | _, [] => (0, errTruncated)
  | idx, b :: bs =>
    let y := b.toNat
    if idx = 9 then (if y < 2 then (y <<< 63, 1) else (0, errOverflow))
    else if y < 128 then (y <<< (7 * idx), 1)
    else
      let r := consumeVarintAux (idx + 1) bs
      if r.2 < 0 then (0, r.2) else ((y - 128) <<< (7 * idx) + r.1, r.2 + 1)

def consumeVarint (b : Bytes) : Nat × Int := consumeVarintAux 0 b

/-- `bits.Len64` -/
def len64 (v : Nat) : Nat := if v = 0 then 0 else Nat.log2 v + 1

/-- `SizeVarint` (wire.go:382): `int(9*uint32(bits.Len64(v))+64) / 64` -/
def sizeVarint (v : Nat) : Nat := (9 * len64 v + 64) / 64

/-- `AppendFixed32` -/
def fixed32 (v : Nat) : Bytes :=
  [byteOfNat v, byteOfNat (v / 256), byteOfNat (v / 65536), byteOfNat (v / 16777216)]

def consumeFixed32 : Bytes → Nat × Int
  | b0 :: b1 :: b2 :: b3 :: _ =>
    (b0.toNat + b1.toNat * 256 + b2.toNat * 65536 + b3.toNat * 16777216, 4)
  | _ => (0, errTruncated)

/-- `AppendFixed64` -/
def fixed64 (v : Nat) : Bytes :=
  fixed32 (v % 4294967296) ++ fixed32 (v / 4294967296)

def consumeFixed64 : Bytes → Nat × Int
  | b0 :: b1 :: b2 :: b3 :: b4 :: b5 :: b6 :: b7 :: _ =>
    (b0.toNat + b1.toNat * 256 + b2.toNat * 65536 + b3.toNat * 16777216
      + (b4.toNat + b5.toNat * 256 + b6.toNat * 65536 + b7.toNat * 16777216) * 4294967296, 8)
  | _ => (0, errTruncated)

/-- `AppendBytes` / `AppendString` -/
def lenPrefixed (v : Bytes) : Bytes := varint v.length ++ v

/-- `ConsumeBytes` (wire.go:447) -/
def consumeBytes (b : Bytes) : Bytes × Int :=
  let r := consumeVarint b
  if r.2 < 0 then ([], r.2)
  else
    let rest := b.drop r.2.toNat
    if r.1 > rest.length then ([], errTruncated)
    else (rest.take r.1, r.2 + r.1)

/-- `uint64(num)` for an `int32` field number: sign extension to 64 bits. -/
def u64OfInt (num : Int) : Nat := (num % 18446744073709551616).toNat

/-- `EncodeTag` (wire.go:521): `uint64(num)<<3 | uint64(typ&7)` -/
def encodeTag (num : Int) (typ : Nat) : Nat :=
  (u64OfInt num * 8) % 18446744073709551616 + typ % 8

/-- `DecodeTag` (wire.go:512) -/
def decodeTag (x : Nat) : Int × Nat :=
  if x / 8 > 2147483647 then (-1, 0) else (Int.ofNat (x / 8), x % 8)

/-- `AppendTag` -/
def tag (num : Int) (typ : Nat) : Bytes := varint (encodeTag num typ)

/-- `ConsumeTag` (wire.go:178) -/
def consumeTag (b : Bytes) : Int × Nat × Int :=
  let r := consumeVarint b
  if r.2 < 0 then (0, 0, r.2)
  else
    let d := decodeTag r.1
    if d.1 < 1 then (0, 0, errFieldNumber) else (d.1, d.2, r.2)

/-- length of a non-group value of wire type `typ` (the first four arms of `consumeFieldValueD`) -/
def consumeScalarValue (typ : Nat) (b : Bytes) : Int :=
  match typ with
  | 0 => (consumeVarint b).2
  | 5 => (consumeFixed32 b).2
  | 1 => (consumeFixed64 b).2
  | 2 => (consumeBytes b).2
  | 4 => errEndGroup
  | _ => errReserved

/-- The `StartGroupType` arm of `consumeFieldValueD` (wire.go:139-163): a loop over the fields
inside the group until the matching end-group tag. `acc` is `n0 - len(b)` so far; `depth` is the
Go parameter *of the enclosing call* (the test `depth < 0` has already been passed). -/
def groupLoop : Nat → Int → Bytes → Int → Int → Int
  | 0, _, _, _, _ => errFuel
  | fuel + 1, num, b, depth, acc =>
    let t := consumeTag b
    if t.2.2 < 0 then t.2.2
    else
      let b1 := b.drop t.2.2.toNat
      if t.2.1 = 4 then (if num ≠ t.1 then errEndGroup else acc + t.2.2)
      else
        let m : Int :=
          if t.2.1 = 3 then
            (if depth - 1 < 0 then errRecursionDepth else groupLoop fuel t.1 b1 (depth - 1) 0)
          else consumeScalarValue t.2.1 b1
        if m < 0 then m else groupLoop fuel num (b1.drop m.toNat) depth (acc + t.2.2 + m)

/-- `consumeFieldValueD` -/
def consumeFieldValueD (num : Int) (typ : Nat) (b : Bytes) (depth : Int) : Int :=
  if typ = 3 then
    (if depth < 0 then errRecursionDepth else groupLoop (b.length + 1) num b depth 0)
  else consumeScalarValue typ b

def defaultRecursionLimit : Int := 10000

/-- `ConsumeFieldValue` (wire.go:122) -/
def consumeFieldValue (num : Int) (typ : Nat) (b : Bytes) : Int :=
  consumeFieldValueD num typ b defaultRecursionLimit

/-- `Number.IsValid` -/
def numberIsValid (n : Int) : Bool := 1 ≤ n && n ≤ 536870911

/-- `DecodeZigZag` on the 64-bit pattern (wire.go:529) -/
def decodeZigZag64 (x : Nat) : Nat :=
  if x % 2 = 0 then x / 2 else 18446744073709551615 - x / 2

/-- `EncodeZigZag` on the 64-bit two's-complement pattern (wire.go:537) -/
def encodeZigZag64 (x : Nat) : Nat :=
  if x < 9223372036854775808 then 2 * x else 2 * (18446744073709551615 - x) + 1

/-- `PutUvarint(buf, x)` (stdlib.go): the bytes it writes; it panics when the window is shorter. -/
def putUvarintBytes (x : Nat) : Bytes := varint x

end Pico.Wire
