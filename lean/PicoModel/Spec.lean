import PicoModel.GenCode
/-
L4 — the specification: protobuf wire semantics for the picobuf subset, written independently of
the encoder's buffer tricks and of the decoder's cursor machine.

* `specEnc` : canonical encoding (ascending field numbers, minimal varints, packed repeated
  scalars, defaults omitted by *bit pattern*, captured bytes last) using closed-form arithmetic
  for each scalar kind — not the regenerated Go expressions.
* `parse1` : tokenizer (one record: tag + raw value).
* `specDec` : record-at-a-time decoder: parse one record, dispatch on the field number, continue
  with the rest. Last scalar wins, repeated append (packed or not), sub-messages merge, map
  entries overwrite by key, last oneof member wins (same message member merges), unknown fields
  are skipped — or captured as `minimalTag ++ rawValue` in input order; a wrong wire type for a
  known field, a malformed record or trailing garbage gives `none`.
-/
namespace Pico.Spec
open Pico.Wire

/-! ### scalar arithmetic, closed forms -/

def two31 : Nat := 2147483648
def two32 : Nat := 4294967296
def two63 : Nat := 9223372036854775808
def two64 : Nat := 18446744073709551616

/-- the unsigned 64-bit number a value of kind `k` with bit pattern `n` is written as -/
def scalarBits : Scalar → Nat → Nat
  | .bool, n => if n = 0 then 0 else 1
  | .int32, n => if n < two31 then n else n + (two64 - two32)
  | .sint32, n => if n < two31 then 2 * n else 2 * (two32 - n) - 1
  | .sint64, n => if n < two63 then 2 * n else 2 * (two64 - n) - 1
  | _, n => n

/-- the bit pattern stored for kind `k` when the wire carries the number `x` -/
def scalarOfBits : Scalar → Nat → Nat
  | .bool, x => if x = 0 then 0 else 1
  | .int32, x => x % two32
  | .uint32, x => x % two32
  | .sint32, x => let y := x % two32; if y % 2 = 0 then y / 2 else two32 - (y + 1) / 2
  | .sint64, x => if x % 2 = 0 then x / 2 else two64 - (x + 1) / 2
  | _, x => x

/-- the value bytes (without tag) of one scalar -/
def scalarWire (k : Scalar) (v : Enc.SVal) : Bytes :=
  match k.wire with
  | 0 => varint (scalarBits k v.num!)
  | 5 => fixed32 (scalarBits k v.num!)
  | 1 => fixed64 (scalarBits k v.num!)
  | _ => lenPrefixed v.bytes!

def isZeroVal (k : Scalar) (v : Enc.SVal) : Bool :=
  if k.isBytes then v.bytes!.isEmpty else v.num! == 0

def field1 (num : Nat) (k : Scalar) (v : Enc.SVal) : Bytes := tag num k.wire ++ scalarWire k v

def lenField (num : Nat) (payload : Bytes) : Bytes := tag num 2 ++ lenPrefixed payload

/-! ### canonical encoder -/

def tsPayload (code : Nat) : Bytes :=
  let sec := Time.codeSec code
  let ns := Time.codeNs code
  (if sec = 0 then [] else field1 1 .int64 (.num (Time.pat64 sec))) ++
  (if ns = 0 then [] else field1 2 .int32 (.num ns.toNat))

def tsField (num : Nat) (code : Nat) : Bytes :=
  if Time.isZero (Time.codeSec code) (Time.codeNs code) then [] else lenField num (tsPayload code)

def durField (num : Nat) (pat : Nat) : Bytes :=
  let n := Time.wrap64 pat
  let s := n.tdiv Time.nano
  let ns := n.tmod Time.nano
  lenField num
    ((if s = 0 then [] else field1 1 .int64 (.num (Time.pat64 s))) ++
     (if ns = 0 then [] else field1 2 .int32 (.num (Time.pat32 ns))))

def mapEntries (k v : Scalar) (num : Nat) (es : List (Val × Val)) : Bytes :=
  (es.map fun e => lenField num
    ((if isZeroVal k e.1.toSVal then [] else field1 1 k e.1.toSVal) ++
     (if isZeroVal v e.2.toSVal then [] else field1 2 v e.2.toSVal))).flatten

def packed (k : Scalar) (num : Nat) (vs : List Enc.SVal) : Bytes :=
  if k.isBytes then (vs.map fun v => field1 num k v).flatten
  else lenField num (vs.map fun v => scalarWire k v).flatten

def sortChunks (cs : List (Nat × Bytes)) : Bytes :=
  ((cs.mergeSort fun a b => a.1 ≤ b.1).map (·.2)).flatten

mutual
def encSlots (S : Schema) : List Field → List Val → List (Nat × Bytes)
  | f :: fs, v :: vs => (f.num, encField S false f v) :: encSlots S fs vs
  | _, _ => []

/-- `presence = true`: the value sits in a presence-carrying position (set pointer, selected oneof
member) and is emitted even when zero -/
def encField (S : Schema) (presence : Bool) (f : Field) : Val → Bytes
  | .none => []
  | .some v =>
    if f.inOneof && !presence then encField S true f v
    else match f.kind with
      | .message id =>
        (match f.cat with
         | 1 => tsField f.num v.num!
         | 2 => durField f.num v.num!
         | _ => match v with
           | .msg slots unrec =>
             lenField f.num (sortChunks (encSlots S (S.msg id).fields slots) ++ (if (S.msg id).capture then unrec else []))
           | _ => [])
      | .scalar k => field1 f.num k v.toSVal
      | .enum => field1 f.num .int32 v.toSVal
      | .map _ _ => []
  | .num n =>
    match f.kind with
    | .scalar k => if !presence && isZeroVal k (.num n) then [] else field1 f.num k (.num n)
    | .enum => if !presence && n == 0 then [] else field1 f.num .int32 (.num n)
    | .message _ =>
      (match f.cat with
       | 1 => tsField f.num n
       | 2 => durField f.num n
       | _ => [])
    | .map _ _ => []
  | .bytes b =>
    match f.kind with
    | .scalar k => if !presence && b.isEmpty then [] else field1 f.num k (.bytes b)
    | _ => []
  | .msg slots unrec =>
    match f.kind with
    | .message id =>
      -- always-present sub-message: by design absent when it has no content
      let body := sortChunks (encSlots S (S.msg id).fields slots) ++ (if (S.msg id).capture then unrec else [])
      if body.isEmpty then [] else lenField f.num body
    | _ => []
  | .list vs =>
    match f.kind with
    | .scalar k => if vs.isEmpty then [] else packed k f.num (vs.map Val.toSVal)
    | .enum => if vs.isEmpty then [] else packed .int32 f.num (vs.map Val.toSVal)
    | .message id =>
      (match f.cat with
       | 1 => (vs.map fun v => match v with | .none => [] | .some x => tsField f.num x.num! | x => tsField f.num x.num!).flatten
       | 2 => (vs.map fun v => match v with | .none => [] | .some x => durField f.num x.num! | x => durField f.num x.num!).flatten
       | _ => encElems S f.num id vs)
    | .map _ _ => []
  | .map es =>
    match f.kind with
    | .map k v => mapEntries k v f.num es
    | _ => []

def encElems (S : Schema) (num : Nat) (id : Nat) : List Val → Bytes
  | [] => []
  | .msg slots unrec :: vs =>
    lenField num (sortChunks (encSlots S (S.msg id).fields slots) ++ (if (S.msg id).capture then unrec else []))
      ++ encElems S num id vs
  | _ :: vs => lenField num [] ++ encElems S num id vs
end

/-- canonical bytes of a message value of type `id` -/
def specEnc (S : Schema) (id : Nat) : Val → Bytes
  | .msg slots unrec => sortChunks (encSlots S (S.msg id).fields slots) ++ (if (S.msg id).capture then unrec else [])
  | _ => []

/-! ### tokenizer -/

structure Record where
  num : Nat
  wire : Nat
  /-- the value bytes exactly as they appear after the tag (length prefix, nested group and end
  tag included) -/
  raw : Bytes
  deriving Repr, DecidableEq

/-- one record off the front of `b`: `none` if the tag is malformed, the number is outside
1 … 2^29−1, or the value is incomplete / unbalanced / of a reserved wire type -/
def parse1 (b : Bytes) : Option (Record × Bytes) :=
  let t := consumeTag b
  if t.2.2 < 0 ∨ !numberIsValid t.1 then none
  else
    let b1 := b.drop t.2.2.toNat
    let n := consumeFieldValue t.1 t.2.1 b1
    if n < 0 then none
    else some (⟨t.1.toNat, t.2.1, b1.take n.toNat⟩, b1.drop n.toNat)

/-- all records of a byte string, or `none` if it is not a complete sequence of records -/
def records : Nat → Bytes → Option (List Record)
  | 0, _ => none
  | fuel + 1, b =>
    if b.isEmpty then some []
    else match parse1 b with
      | none => none
      | some (r, rest) => (records fuel rest).map (r :: ·)

def Record.varintVal (r : Record) : Nat := (consumeVarint r.raw).1
def Record.fixed32Val (r : Record) : Nat := (consumeFixed32 r.raw).1
def Record.fixed64Val (r : Record) : Nat := (consumeFixed64 r.raw).1
def Record.payload (r : Record) : Bytes := (consumeBytes r.raw).1

/-- the scalar a record denotes for kind `k`, if its wire type is the kind's -/
def Record.scalar (r : Record) (k : Scalar) : Option Enc.SVal :=
  if r.wire ≠ k.wire then none
  else match k.wire with
    | 0 => some (.num (scalarOfBits k r.varintVal))
    | 5 => some (.num (scalarOfBits k r.fixed32Val))
    | 1 => some (.num (scalarOfBits k r.fixed64Val))
    | _ => some (.bytes r.payload)

/-- the elements of a packed payload -/
def unpack (k : Scalar) : Nat → Bytes → Option (List Enc.SVal)
  | 0, _ => none
  | fuel + 1, b =>
    if b.isEmpty then some []
    else
      let r : Nat × Int := match k.wire with
        | 0 => consumeVarint b
        | 5 => consumeFixed32 b
        | _ => consumeFixed64 b
      if r.2 < 0 then none
      else (unpack k fuel (b.drop r.2.toNat)).map (.num (scalarOfBits k r.1) :: ·)

/-! ### record-at-a-time decoder -/

/-- `{1: seconds, 2: nanos}` read from a payload, both defaulting to zero; unknown fields skipped -/
def secNanos : Nat → Bytes → Nat × Nat → Option (Nat × Nat)
  | 0, _, _ => none
  | fuel + 1, b, s =>
    if b.isEmpty then some s
    else match parse1 b with
      | none => none
      | some (r, rest) =>
        if r.num = 1 then
          (match r.scalar .int64 with | some v => secNanos fuel rest (v.num!, s.2) | none => none)
        else if r.num = 2 then
          (match r.scalar .int32 with | some v => secNanos fuel rest (s.1, v.num!) | none => none)
        else secNanos fuel rest s

def tsOf (s : Nat × Nat) : Nat :=
  let r := Time.unixNorm (Time.wrap64 s.1) (Time.wrap32 s.2)
  Time.timeCode r.1 r.2

def durOf (s : Nat × Nat) : Nat := Time.pat64 (Time.durDecode (Time.wrap64 s.1) (Time.wrap32 s.2))

/-- a map entry payload: key (field 1) and value (field 2), absent ⇒ zero, last one wins -/
def mapEntry (k v : Scalar) : Nat → Bytes → Val × Val → Option (Val × Val)
  | 0, _, _ => none
  | fuel + 1, b, kv =>
    if b.isEmpty then some kv
    else match parse1 b with
      | none => none
      | some (r, rest) =>
        if r.num = 1 then
          (match r.scalar k with | some x => mapEntry k v fuel rest (Val.ofSVal x, kv.2) | none => none)
        else if r.num = 2 then
          (match r.scalar v with | some x => mapEntry k v fuel rest (kv.1, Val.ofSVal x) | none => none)
        else mapEntry k v fuel rest kv

def findField (fs : List Field) (num : Nat) : Option (Nat × Field) :=
  (fs.zipIdx.find? fun p => p.1.num == num).map fun p => (p.2, p.1)

mutual
/-- decode `b` into the message value `cur` of type `id` -/
def specDec (S : Schema) : Nat → Nat → Bytes → Val → Option Val
  | 0, _, _, _ => none
  | fuel + 1, id, b, cur =>
    if b.isEmpty then some cur
    else match parse1 b with
      | none => none
      | some (r, rest) =>
        let m := S.msg id
        match findField m.fields r.num with
        | none =>
          -- unknown field: skipped, or captured verbatim after a minimal tag
          let cur := if m.capture then
              (match cur with
               | .msg slots u => Val.msg slots (u ++ tag r.num r.wire ++ r.raw)
               | x => x)
            else cur
          specDec S fuel id rest cur
        | some (i, f) =>
          let slot := Gen2.getSlot cur i
          if f.inOneof then
            -- same member selected: continue in it; otherwise a fresh one replaces the group
            let inner0 := match slot with | .some x => x | _ => Gen2.zeroField S { f with oneof := 0 }
            let base := match slot with | .some _ => cur | _ => Gen2.clearGroup m.fields f.oneof i cur
            match applyRec S fuel { f with oneof := 0 } r inner0 with
            | none => none
            | some inner => specDec S fuel id rest (Gen2.setSlot base i (.some inner))
          else
            match applyRec S fuel f r slot with
            | none => none
            | some v => specDec S fuel id rest (Gen2.setSlot cur i v)

/-- the effect of one record on the Go variable of field `f` -/
def applyRec (S : Schema) : Nat → Field → Record → Val → Option Val
  | 0, _, _, _ => none
  | fuel + 1, f, r, cur =>
    match f.kind with
    | .scalar k =>
      if f.repeated then
        if r.wire = 2 ∧ !k.isBytes then
          (unpack k (r.payload.length + 1) r.payload).map fun xs => .list (cur.list! ++ xs.map Val.ofSVal)
        else (r.scalar k).map fun x => .list (cur.list! ++ [Val.ofSVal x])
      else (r.scalar k).map fun x => if f.pointer S then .some (Val.ofSVal x) else Val.ofSVal x
    | .enum =>
      if f.repeated then
        if r.wire = 2 then
          (unpack .int32 (r.payload.length + 1) r.payload).map fun xs => .list (cur.list! ++ xs.map Val.ofSVal)
        else (r.scalar .int32).map fun x => .list (cur.list! ++ [Val.ofSVal x])
      else (r.scalar .int32).map Val.ofSVal
    | .map k v =>
      if r.wire ≠ 2 then none
      else (mapEntry k v (r.payload.length + 1) r.payload (k.zero, v.zero)).map fun kv =>
        .map (Gen2.mapInsert (match cur with | .map es => es | _ => []) kv.1 kv.2 Gen2.keyEq)
    | .message id =>
      if r.wire ≠ 2 then none
      else if f.cat == 1 ∨ f.cat == 2 then
        (secNanos (r.payload.length + 1) r.payload (0, 0)).map fun s =>
          let c : Val := .num (if f.cat == 1 then tsOf s else durOf s)
          if f.repeated then .list (cur.list! ++ [if f.pointer S then .some c else c])
          else if f.pointer S then .some c else c
      else if f.repeated then
        (specDec S fuel id r.payload (Gen2.zeroMsg S id)).map fun x => .list (cur.list! ++ [x])
      else if f.pointer S then
        (specDec S fuel id r.payload (match cur with | .some x => x | _ => Gen2.zeroMsg S id)).map .some
      else specDec S fuel id r.payload cur
end

/-- the specification of `Unmarshal(data, m0)`: `none` = error -/
def specUnmarshal (S : Schema) (id : Nat) (data : Bytes) (m0 : Val) : Option Val :=
  specDec S (2 * data.length + 2) id data m0

end Pico.Spec
