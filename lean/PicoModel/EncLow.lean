import PicoModel.Encoder
/-
L1a — the Go-slice level of `encoder.go` `anyBytes` / `alwaysAnyBytes`: `enc.buffer` as a slice with
a logical part (`data`, indices `< len`) and a stale part (`tail`, indices `len ≤ i < cap`), a
capacity oracle for what a re-allocating `append` leaves behind `len`, and the three in-place
operations the length-patching trick uses (`copy`, `PutUvarint` into a window, re-slicing).
Definitions only; the refinement to `Pico.Enc.anyBytes` is `PicoProofs/AnyBytes.lean`
(`anyBytesLow_refines`).
-/
namespace Pico.EncLow
open Pico Pico.Wire

/-- a Go `[]byte`: `data` = `b[:len]`, `tail` = `b[len:cap]` (stale bytes, not observable) -/
structure Buf where
  data : Bytes
  tail : Bytes
  deriving Repr

def Buf.len (b : Buf) : Nat := b.data.length

/-- `append(b, xs...)`: in place when the capacity suffices, otherwise re-allocated; `oracle n` is the
contents of the fresh capacity behind a re-allocated slice of length `n` (any function). -/
def Buf.append (oracle : Nat → Bytes) (b : Buf) (xs : Bytes) : Buf :=
  if xs.length ≤ b.tail.length then ⟨b.data ++ xs, b.tail.drop xs.length⟩
  else ⟨b.data ++ xs, oracle (b.data.length + xs.length)⟩

/-- `b[:n]`: shrinking moves bytes into the stale part, growing within the capacity EXPOSES stale
bytes, beyond the capacity it panics. -/
def Buf.resliceTo (b : Buf) (n : Nat) : Res Buf :=
  if n ≤ b.data.length then .ok ⟨b.data.take n, b.data.drop n ++ b.tail⟩
  else if n ≤ b.data.length + b.tail.length then
    .ok ⟨b.data ++ b.tail.take (n - b.data.length), b.tail.drop (n - b.data.length)⟩
  else .panic "slice bounds out of range"

/-- `b[:n]` instrumented: any re-slice beyond `len` (which would expose stale bytes) is a panic. Used
only to state `no_stale_exposed`. -/
def Buf.resliceToStrict (b : Buf) (n : Nat) : Res Buf :=
  if n ≤ b.data.length then .ok ⟨b.data.take n, b.data.drop n ++ b.tail⟩
  else .panic "re-slice beyond len"

/-- `copy(b[dst:], b[src:])` with memmove semantics; both offsets must be `≤ len` -/
def Buf.copyWithin (b : Buf) (dst src : Nat) : Res Buf :=
  if dst ≤ b.data.length ∧ src ≤ b.data.length then
    let k := min (b.data.length - dst) (b.data.length - src)
    .ok ⟨b.data.take dst ++ (b.data.drop src).take k ++ b.data.drop (dst + k), b.tail⟩
  else .panic "slice bounds out of range"

/-- `PutUvarint(b[lo:hi], x)`: panics when the window is shorter than the varint (stdlib.go indexes
`buf[i]`). The window is required to lie inside `len` (Go allows `hi ≤ cap`; the stricter check only
adds panics, and the refinement theorem shows none occurs). -/
def Buf.putUvarintAt (b : Buf) (lo hi x : Nat) : Res Buf :=
  if lo ≤ hi ∧ hi ≤ b.data.length ∧ (varint x).length ≤ hi - lo then
    .ok ⟨b.data.take lo ++ putUvarintBytes x ++ b.data.drop (lo + (varint x).length), b.tail⟩
  else .panic "index out of range"

/-- `var lengthBufferPrediction [2]byte` -/
def lengthBufferPrediction : Bytes := [0, 0]

/-- encoder.go:84-97 / 118-131 (after the callback): patch the length in. `reslice` is the `b[:n]`
operation (`Buf.resliceTo`, or the instrumented `Buf.resliceToStrict`). -/
def finishLowWith (reslice : Buf → Nat → Res Buf) (oracle : Nat → Bytes)
    (b3 : Buf) (lengthStart messageStart : Nat) : Res Buf := do
  let messageLength := b3.len - messageStart
  let bytesForSize := sizeVarint messageLength
  if bytesForSize = lengthBufferPrediction.length then
    let b4 ← b3.putUvarintAt lengthStart messageStart messageLength
    return b4
  let b4 :=
    if bytesForSize > lengthBufferPrediction.length then
      b3.append oracle (List.replicate (bytesForSize - lengthBufferPrediction.length) 0)
    else b3
  let b5 ← b4.copyWithin (lengthStart + bytesForSize) messageStart
  let b6 ← b5.putUvarintAt lengthStart (lengthStart + bytesForSize) messageLength
  let b7 ← reslice b6 (lengthStart + bytesForSize + messageLength)
  return b7

/-- `anyBytes` (encoder.go:68-98); `tag` is what `appendTag(enc.buffer, field, BytesType)` appends -/
def anyBytesLowWith (reslice : Buf → Nat → Res Buf) (oracle : Nat → Bytes)
    (tag : Bytes) (fn : Buf → Res (Buf × Bool)) (b0 : Buf) : Res (Buf × Bool) := do
  let tagStart := b0.len
  let b1 := b0.append oracle tag
  let lengthStart := b1.len
  let b2 := b1.append oracle lengthBufferPrediction
  let messageStart := b2.len
  let (b3, ok) ← fn b2
  if !ok then
    let b4 ← reslice b3 tagStart
    return (b4, false)
  let b4 ← finishLowWith reslice oracle b3 lengthStart messageStart
  return (b4, true)

/-- `alwaysAnyBytes` (encoder.go:105-132): no rollback, the callback returns nothing -/
def alwaysAnyBytesLowWith (reslice : Buf → Nat → Res Buf) (oracle : Nat → Bytes)
    (tag : Bytes) (fn : Buf → Res Buf) (b0 : Buf) : Res Buf := do
  let b1 := b0.append oracle tag
  let lengthStart := b1.len
  let b2 := b1.append oracle lengthBufferPrediction
  let messageStart := b2.len
  let b3 ← fn b2
  finishLowWith reslice oracle b3 lengthStart messageStart

def finishLow := finishLowWith Buf.resliceTo
def anyBytesLow := anyBytesLowWith Buf.resliceTo
def alwaysAnyBytesLow := alwaysAnyBytesLowWith Buf.resliceTo

/-- the callback only appends: whatever the buffer (and its stale tail), it ends with the logical
bytes extended by `payload` and reports `ok` -/
def AppendOnly (fn : Buf → Res (Buf × Bool)) (payload : Bytes) (ok : Bool) : Prop :=
  ∀ b, ∃ t, fn b = .ok (⟨b.data ++ payload, t⟩, ok)

def AppendOnly1 (fn : Buf → Res Buf) (payload : Bytes) : Prop :=
  ∀ b, ∃ t, fn b = .ok ⟨b.data ++ payload, t⟩

/-- observable part of a result: the logical bytes and the presence flag; `none` on panic/outOfFuel -/
def dataOf : Res (Buf × Bool) → Option (Bytes × Bool)
  | .ok (b, ok) => some (b.data, ok)
  | _ => none

def dataOf1 : Res Buf → Option Bytes
  | .ok b => some b.data
  | _ => none

end Pico.EncLow
