import PicoModel.Wire
/-
Semantics of the Go operations the statement translator (`tools/harness/cmd/facts/golite*.go`)
emits calls to. Every operation that panics in Go returns `Res.panic`.

Representation of Go values in the translated code:
* `int` is an unbounded `Int` (lengths and indices; assumption recorded in the trusted base: no
  slice is longer than 2^63-1, so `int` arithmetic on lengths never wraps);
* fixed-width signed integers (`int32`, `int64`, `FieldNumber`, `protowire.Number`) are `Int`,
  every operation that can overflow is wrapped by `wrapS`;
* unsigned integers are `Nat`, every operation that can overflow is reduced modulo `2^w`;
* `[]T` that is only read is a `List`; `b[i:]`, `b[:j]`, `b[i]` are checked.
-/
namespace Pico.Go

/-- reinterpret an integer as a `w`-bit two's-complement signed value (Go conversion / overflow) -/
def wrapS (w : Nat) (x : Int) : Int :=
  let r := x % (2 ^ w : Int)
  if r ≥ (2 ^ (w - 1) : Int) then r - (2 ^ w : Int) else r

/-- Go conversion of a signed value to a `w`-bit unsigned one -/
def toU (w : Nat) (x : Int) : Nat := (x % (2 ^ w : Int)).toNat

/-- Go `b[n:]` -/
def sliceFrom {α} (b : List α) (n : Int) : Res (List α) :=
  if 0 ≤ n ∧ n ≤ b.length then .ok (b.drop n.toNat) else .panic "slice bounds out of range [n:]"

/-- Go `b[:n]` for a slice whose capacity equals its length -/
def sliceTo {α} (b : List α) (n : Int) : Res (List α) :=
  if 0 ≤ n ∧ n ≤ b.length then .ok (b.take n.toNat) else .panic "slice bounds out of range [:n]"

/-- Go `b[i]` -/
def index {α} (b : List α) (i : Int) : Res α :=
  if 0 ≤ i then
    match b[i.toNat]? with
    | some x => .ok x
    | none => .panic "index out of range"
  else .panic "index out of range"

/-- Go `b[i] = v` -/
def setIndex {α} (b : List α) (i : Int) (v : α) : Res (List α) :=
  if 0 ≤ i ∧ i < b.length then .ok (b.set i.toNat v) else .panic "index out of range"

/-- Go `make([]T, n)` with zero value `z` -/
def makeZero {α} (z : α) (n : Int) : Res (List α) :=
  if 0 ≤ n then .ok (List.replicate n.toNat z) else .panic "makeslice: len out of range"

/-- Go `len(b)` -/
def len {α} (b : List α) : Int := b.length

/-- Go `x / y` on signed integers (truncation toward zero); division by zero panics -/
def sdiv (x y : Int) : Res Int := if y = 0 then .panic "integer divide by zero" else .ok (x.tdiv y)

/-- Go `x % y` on signed integers -/
def smod (x y : Int) : Res Int := if y = 0 then .panic "integer divide by zero" else .ok (x.tmod y)

/-- `protowire.AppendTag(b, num, typ)` (appends the varint of the tag) -/
def appendTag (b : Bytes) (num : Int) (typ : Nat) : Bytes := b ++ Pico.Wire.tag num typ

/-- `protowire.AppendVarint(b, v)` -/
def appendVarint (b : Bytes) (v : Nat) : Bytes := b ++ Pico.Wire.varint v

/-- Go `string(b)` for a byte slice holding ASCII -/
def stringOfBytes (b : Bytes) : String := String.ofList (b.map fun c => Char.ofNat c.toNat)

/-- `math/bits.Len64(v)` as a Go `int` -/
def bitsLen64 (v : Nat) : Int := Int.ofNat (Pico.Wire.len64 v)

/-- `protowire.SizeVarint(v)` as a Go `int` -/
def sizeVarint (v : Nat) : Int := Int.ofNat (Pico.Wire.sizeVarint v)

end Pico.Go
