import PicoModel.Wire
import PicoModel.Gen.Exprs
/-
L1c (first half) — the 15 scalar kinds and the glue from the *regenerated* expression
definitions (`Gen/Exprs.lean`, translated from encoder_types.go / decoder_types.go / conv.go /
wire.go on every run) to the untyped bit patterns the rest of the model works with.

A scalar value is carried as a natural number: its bit pattern (`bool`: 0/1; 32-bit kinds
`< 2^32`; 64-bit kinds `< 2^64`; floats are their IEEE bits). `string`/`bytes` values are byte
lists and never pass through these functions.
-/
namespace Pico

inductive Scalar where
  | bool | int32 | int64 | uint32 | uint64 | sint32 | sint64
  | fixed32 | fixed64 | sfixed32 | sfixed64 | float | double | string | bytes
  deriving DecidableEq, Repr, Inhabited

namespace Scalar

def all : List Scalar :=
  [bool, int32, int64, uint32, uint64, sint32, sint64, fixed32, fixed64, sfixed32, sfixed64, float, double, string, bytes]

def ofNat? (n : Nat) : Option Scalar := all[n]?

/-- protobuf wire type of the kind: 0 varint, 1 fixed64, 2 bytes, 5 fixed32 -/
def wire : Scalar → Nat
  | bool | int32 | int64 | uint32 | uint64 | sint32 | sint64 => 0
  | fixed32 | sfixed32 | float => 5
  | fixed64 | sfixed64 | double => 1
  | string | bytes => 2

/-- number of value bits (0 for the length-delimited kinds) -/
def width : Scalar → Nat
  | bool => 1
  | int32 | uint32 | sint32 | fixed32 | sfixed32 | float => 32
  | int64 | uint64 | sint64 | fixed64 | sfixed64 | double => 64
  | string | bytes => 0

def isBytes : Scalar → Bool
  | string | bytes => true
  | _ => false

/-- method-name stem used by encoder_types.go / decoder_types.go / map.go -/
def goName : Scalar → String
  | bool => "Bool" | int32 => "Int32" | int64 => "Int64" | uint32 => "Uint32" | uint64 => "Uint64"
  | sint32 => "Sint32" | sint64 => "Sint64" | fixed32 => "Fixed32" | fixed64 => "Fixed64"
  | sfixed32 => "Sfixed32" | sfixed64 => "Sfixed64" | float => "Float" | double => "Double"
  | string => "String" | bytes => "Bytes"

end Scalar

/-- which of the four generated writer variants -/
inductive Variant where
  | plain | rep | always | alwaysRep
  deriving DecidableEq, Repr

private abbrev w32 (n : Nat) : BitVec 32 := BitVec.ofNat 32 n
private abbrev w64 (n : Nat) : BitVec 64 := BitVec.ofNat 64 n

/-- The number handed to `AppendVarint` / `AppendFixed32` / `AppendFixed64` (or, for packed bools,
the byte appended) by the generated writer of the given variant. -/
def encBits : Variant → Scalar → Nat → Nat
  | .plain, .bool, n => (Gen.enc_Bool (n != 0)).toNat
  | .plain, .int32, n => (Gen.enc_Int32 (w32 n)).toNat
  | .plain, .int64, n => (Gen.enc_Int64 (w64 n)).toNat
  | .plain, .uint32, n => (Gen.enc_Uint32 (w32 n)).toNat
  | .plain, .uint64, n => (Gen.enc_Uint64 (w64 n)).toNat
  | .plain, .sint32, n => (Gen.enc_Sint32 (w32 n)).toNat
  | .plain, .sint64, n => (Gen.enc_Sint64 (w64 n)).toNat
  | .plain, .fixed32, n => (Gen.enc_Fixed32 (w32 n)).toNat
  | .plain, .fixed64, n => (Gen.enc_Fixed64 (w64 n)).toNat
  | .plain, .sfixed32, n => (Gen.enc_Sfixed32 (w32 n)).toNat
  | .plain, .sfixed64, n => (Gen.enc_Sfixed64 (w64 n)).toNat
  | .plain, .float, n => (Gen.enc_Float (w32 n)).toNat
  | .plain, .double, n => (Gen.enc_Double (w64 n)).toNat
  | .rep, .bool, n => (Gen.enc_RepeatedBool (n != 0)).toNat
  | .rep, .int32, n => (Gen.enc_RepeatedInt32 (w32 n)).toNat
  | .rep, .int64, n => (Gen.enc_RepeatedInt64 (w64 n)).toNat
  | .rep, .uint32, n => (Gen.enc_RepeatedUint32 (w32 n)).toNat
  | .rep, .uint64, n => (Gen.enc_RepeatedUint64 (w64 n)).toNat
  | .rep, .sint32, n => (Gen.enc_RepeatedSint32 (w32 n)).toNat
  | .rep, .sint64, n => (Gen.enc_RepeatedSint64 (w64 n)).toNat
  | .rep, .fixed32, n => (Gen.enc_RepeatedFixed32 (w32 n)).toNat
  | .rep, .fixed64, n => (Gen.enc_RepeatedFixed64 (w64 n)).toNat
  | .rep, .sfixed32, n => (Gen.enc_RepeatedSfixed32 (w32 n)).toNat
  | .rep, .sfixed64, n => (Gen.enc_RepeatedSfixed64 (w64 n)).toNat
  | .rep, .float, n => (Gen.enc_RepeatedFloat (w32 n)).toNat
  | .rep, .double, n => (Gen.enc_RepeatedDouble (w64 n)).toNat
  | .always, .bool, n => (Gen.enc_AlwaysBool (n != 0)).toNat
  | .always, .int32, n => (Gen.enc_AlwaysInt32 (w32 n)).toNat
  | .always, .int64, n => (Gen.enc_AlwaysInt64 (w64 n)).toNat
  | .always, .uint32, n => (Gen.enc_AlwaysUint32 (w32 n)).toNat
  | .always, .uint64, n => (Gen.enc_AlwaysUint64 (w64 n)).toNat
  | .always, .sint32, n => (Gen.enc_AlwaysSint32 (w32 n)).toNat
  | .always, .sint64, n => (Gen.enc_AlwaysSint64 (w64 n)).toNat
  | .always, .fixed32, n => (Gen.enc_AlwaysFixed32 (w32 n)).toNat
  | .always, .fixed64, n => (Gen.enc_AlwaysFixed64 (w64 n)).toNat
  | .always, .sfixed32, n => (Gen.enc_AlwaysSfixed32 (w32 n)).toNat
  | .always, .sfixed64, n => (Gen.enc_AlwaysSfixed64 (w64 n)).toNat
  | .always, .float, n => (Gen.enc_AlwaysFloat (w32 n)).toNat
  | .always, .double, n => (Gen.enc_AlwaysDouble (w64 n)).toNat
  | .alwaysRep, .bool, n => (Gen.enc_AlwaysRepeatedBool (n != 0)).toNat
  | .alwaysRep, .int32, n => (Gen.enc_AlwaysRepeatedInt32 (w32 n)).toNat
  | .alwaysRep, .int64, n => (Gen.enc_AlwaysRepeatedInt64 (w64 n)).toNat
  | .alwaysRep, .uint32, n => (Gen.enc_AlwaysRepeatedUint32 (w32 n)).toNat
  | .alwaysRep, .uint64, n => (Gen.enc_AlwaysRepeatedUint64 (w64 n)).toNat
  | .alwaysRep, .sint32, n => (Gen.enc_AlwaysRepeatedSint32 (w32 n)).toNat
  | .alwaysRep, .sint64, n => (Gen.enc_AlwaysRepeatedSint64 (w64 n)).toNat
  | .alwaysRep, .fixed32, n => (Gen.enc_AlwaysRepeatedFixed32 (w32 n)).toNat
  | .alwaysRep, .fixed64, n => (Gen.enc_AlwaysRepeatedFixed64 (w64 n)).toNat
  | .alwaysRep, .sfixed32, n => (Gen.enc_AlwaysRepeatedSfixed32 (w32 n)).toNat
  | .alwaysRep, .sfixed64, n => (Gen.enc_AlwaysRepeatedSfixed64 (w64 n)).toNat
  | .alwaysRep, .float, n => (Gen.enc_AlwaysRepeatedFloat (w32 n)).toNat
  | .alwaysRep, .double, n => (Gen.enc_AlwaysRepeatedDouble (w64 n)).toNat
  | _, .string, n => n
  | _, .bytes, n => n

/-- The default-value guard of the plain (non-Always, singular) writer: `true` = field omitted. -/
def isDefaultBits : Scalar → Nat → Bool
  | .bool, n => Gen.guard_Bool (n != 0)
  | .int32, n => Gen.guard_Int32 (w32 n)
  | .int64, n => Gen.guard_Int64 (w64 n)
  | .uint32, n => Gen.guard_Uint32 (w32 n)
  | .uint64, n => Gen.guard_Uint64 (w64 n)
  | .sint32, n => Gen.guard_Sint32 (w32 n)
  | .sint64, n => Gen.guard_Sint64 (w64 n)
  | .fixed32, n => Gen.guard_Fixed32 (w32 n)
  | .fixed64, n => Gen.guard_Fixed64 (w64 n)
  | .sfixed32, n => Gen.guard_Sfixed32 (w32 n)
  | .sfixed64, n => Gen.guard_Sfixed64 (w64 n)
  | .float, n => Gen.guard_Float (w32 n)
  | .double, n => Gen.guard_Double (w64 n)
  | .string, _ => false
  | .bytes, _ => false

private def b2n (b : Bool) : Nat := if b then 1 else 0

/-- What the generated reader stores, given the number returned by `ConsumeVarint/Fixed32/Fixed64`.
`rep = true` is the `Repeated*` reader (same expression in the tree today; kept separate because
it is a separate piece of generated code). -/
def decBits : Bool → Scalar → Nat → Nat
  | false, .bool, x => b2n (Gen.dec_Bool (w64 x))
  | false, .int32, x => (Gen.dec_Int32 (w64 x)).toNat
  | false, .int64, x => (Gen.dec_Int64 (w64 x)).toNat
  | false, .uint32, x => (Gen.dec_Uint32 (w64 x)).toNat
  | false, .uint64, x => (Gen.dec_Uint64 (w64 x)).toNat
  | false, .sint32, x => (Gen.dec_Sint32 (w64 x)).toNat
  | false, .sint64, x => (Gen.dec_Sint64 (w64 x)).toNat
  | false, .fixed32, x => (Gen.dec_Fixed32 (w32 x)).toNat
  | false, .fixed64, x => (Gen.dec_Fixed64 (w64 x)).toNat
  | false, .sfixed32, x => (Gen.dec_Sfixed32 (w32 x)).toNat
  | false, .sfixed64, x => (Gen.dec_Sfixed64 (w64 x)).toNat
  | false, .float, x => (Gen.dec_Float (w32 x)).toNat
  | false, .double, x => (Gen.dec_Double (w64 x)).toNat
  | true, .bool, x => b2n (Gen.dec_RepeatedBool (w64 x))
  | true, .int32, x => (Gen.dec_RepeatedInt32 (w64 x)).toNat
  | true, .int64, x => (Gen.dec_RepeatedInt64 (w64 x)).toNat
  | true, .uint32, x => (Gen.dec_RepeatedUint32 (w64 x)).toNat
  | true, .uint64, x => (Gen.dec_RepeatedUint64 (w64 x)).toNat
  | true, .sint32, x => (Gen.dec_RepeatedSint32 (w64 x)).toNat
  | true, .sint64, x => (Gen.dec_RepeatedSint64 (w64 x)).toNat
  | true, .fixed32, x => (Gen.dec_RepeatedFixed32 (w32 x)).toNat
  | true, .fixed64, x => (Gen.dec_RepeatedFixed64 (w64 x)).toNat
  | true, .sfixed32, x => (Gen.dec_RepeatedSfixed32 (w32 x)).toNat
  | true, .sfixed64, x => (Gen.dec_RepeatedSfixed64 (w64 x)).toNat
  | true, .float, x => (Gen.dec_RepeatedFloat (w32 x)).toNat
  | true, .double, x => (Gen.dec_RepeatedDouble (w64 x)).toNat
  | _, .string, x => x
  | _, .bytes, x => x

end Pico
