import PicoModel.Spec
/-
Well-typedness of a value tree for a schema: the decidable predicate under which the encoder
theorems are stated ("every well-typed message value"). It says that the tree has the Go shape
of the generated struct — nothing about the *content* is excluded except what Go's types exclude
(a 32-bit field holds a 32-bit pattern, a bool is 0/1, a time has 0 ≤ nanos < 1e9) and the three
situations the properties themselves set aside:
  * a nil element inside a repeated message field, a nil message inside a selected oneof wrapper
    (C01: "oneof wrappers holding non-nil messages");
  * `strict` (round-trip theorems only): what is by design encoded as absent — a pointer to the
    zero `time.Time`, a selected oneof member holding an always-present message with no content —
    and an allocated-but-empty map (nil ≡ empty normalisation), duplicate map keys (impossible
    in a Go map), captured bytes that are not a sequence of unknown fields with minimal tags.
-/
namespace Pico

def scalarOk (k : Scalar) : Val → Bool
  | .num n => !k.isBytes && n < 2 ^ k.width
  | .bytes _ => k.isBytes
  | _ => false

/-- a time code: 64-bit seconds pattern and 0 ≤ nanos < 1e9 -/
def timeOk (c : Nat) : Bool := c / 4294967296 < 2 ^ 64 && c % 4294967296 < 1000000000

def isZeroTime (c : Nat) : Bool := Time.isZero (Time.codeSec c) (Time.codeNs c)

/-- captured bytes: a complete sequence of records, none bearing a number the message knows, each
with a minimal tag -/
def unrecOk (fs : List Field) (u : Bytes) : Bool :=
  match Spec.records (u.length + 1) u with
  | some rs =>
    rs.all (fun r => !(fs.any fun f => f.num == r.num)) &&
    (rs.map fun r => Wire.tag r.num r.wire ++ r.raw).flatten == u
  | none => false

/-- at most one member of every oneof group is selected (a Go interface value holds one wrapper) -/
def oneofExclusive (fs : List Field) (slots : List Val) : Bool :=
  let sel := (fs.zip slots).filter fun p => p.1.inOneof && (match p.2 with | .some _ => true | _ => false)
  (sel.map fun p => p.1.oneof).Nodup


mutual
/-- value of message type `id` -/
def wtMsg (S : Schema) (strict : Bool) (id : Nat) : Val → Bool
  | .msg slots unrec =>
    wtSlots S strict (S.msg id).fields slots && oneofExclusive (S.msg id).fields slots &&
    (if (S.msg id).capture then (!strict || unrecOk (S.msg id).fields unrec) else unrec.isEmpty)
  | _ => false

def wtSlots (S : Schema) (strict : Bool) : List Field → List Val → Bool
  | [], [] => true
  | f :: fs, v :: vs => wtField S strict false f v && wtSlots S strict fs vs
  | _, _ => false

/-- the Go variable of field `f` (`inWrapper`: we are inside the selected oneof wrapper) -/
def wtField (S : Schema) (strict inWrapper : Bool) (f : Field) : Val → Bool
  | .none =>
    -- unset oneof member, nil pointer, nil map
    (f.inOneof && !inWrapper) ||
    (!f.inOneof && !f.repeated && (f.pointer S || (match f.kind with | .map _ _ => true | _ => false)))
  | .some v =>
    if f.inOneof && !inWrapper then wtField S strict true f v
    else
      -- a set pointer
      !f.repeated && f.pointer S &&
      (match f.kind with
       | .scalar k => scalarOk k v
       | .enum => false
       | .map _ _ => false
       | .message id =>
         if f.cat == 1 then (match v with | .num c => timeOk c && (!strict || !isZeroTime c) | _ => false)
         else if f.cat == 2 then (match v with | .num c => c < 2 ^ 64 | _ => false)
         else wtMsg S strict id v)
  | .num n =>
    (!f.inOneof || inWrapper) && !f.repeated && !f.pointer S &&
    (match f.kind with
     | .scalar k => scalarOk k (.num n)
     | .enum => n < 2 ^ 32
     | .message _ => (f.cat == 1 && timeOk n) || (f.cat == 2 && n < 2 ^ 64)
     | .map _ _ => false)
  | .bytes b =>
    (!f.inOneof || inWrapper) && !f.repeated && !f.pointer S &&
    (match f.kind with
     | .scalar k => scalarOk k (.bytes b)
     | _ => false)
  | .msg slots unrec =>
    -- always-present (value-typed) sub-message
    (!f.inOneof || inWrapper) && !f.repeated && !f.pointer S && f.cat == 0 &&
    (match f.kind with
     | .message id =>
       wtSlots S strict (S.msg id).fields slots && oneofExclusive (S.msg id).fields slots &&
       (if (S.msg id).capture then (!strict || unrecOk (S.msg id).fields unrec) else unrec.isEmpty) &&
       (!(strict && inWrapper) ||
         !(Spec.sortChunks (Spec.encSlots S (S.msg id).fields slots) ++ (if (S.msg id).capture then unrec else [])).isEmpty)
     | _ => false)
  | .list vs =>
    !f.inOneof && f.repeated &&
    (match f.kind with
     | .scalar k => vs.all (scalarOk k)
     | .enum => vs.all (fun v => match v with | .num n => n < 2 ^ 32 | _ => false)
     | .map _ _ => false
     | .message id =>
       if f.cat == 1 then
         vs.all (fun v => if f.pointer S then (match v with | .some (.num c) => timeOk c && (!strict || !isZeroTime c) | _ => false)
                          else (match v with | .num c => timeOk c && (!strict || !isZeroTime c) | _ => false))
       else if f.cat == 2 then
         vs.all (fun v => if f.pointer S then (match v with | .some (.num c) => c < 2 ^ 64 | _ => false)
                          else (match v with | .num c => c < 2 ^ 64 | _ => false))
       else wtElems S strict id vs)
  | .map es =>
    !f.inOneof &&
    (match f.kind with
     | .map k v =>
       es.all (fun e => scalarOk k e.1 && scalarOk v e.2) &&
       (!strict || (!es.isEmpty && (es.map (fun e => e.1.toSVal)).Nodup))
     | _ => false)

def wtElems (S : Schema) (strict : Bool) (id : Nat) : List Val → Bool
  | [] => true
  | v :: vs => wtMsg S strict id v && wtElems S strict id vs
end

end Pico
