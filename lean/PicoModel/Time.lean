import PicoModel.Basic
/-
Hand model of the arithmetic of `picoconv/duration.go` and `picoconv/timestamp.go`, over `Int`
with explicit two's-complement wrap-around. A `time.Time` is modelled by what the conversions
observe of it: `(Unix() : int64, Nanosecond() ∈ [0, 1e9))`. The behaviour of the `time` package
(`time.Unix` normalisation, `IsZero`, `UTC`) is encoded here as read from the Go standard library
and is part of the trusted base; correspondence stream T compares it with the real thing.
-/
namespace Pico.Time

def two64 : Int := 18446744073709551616
def two32 : Int := 4294967296
def minInt64 : Int := -9223372036854775808
def maxInt64 : Int := 9223372036854775807
def nano : Int := 1000000000

/-- reinterpret an integer modulo 2^64 as a Go `int64` -/
def wrap64 (x : Int) : Int :=
  let r := x % two64
  if r ≥ 9223372036854775808 then r - two64 else r

/-- reinterpret an integer modulo 2^32 as a Go `int32` -/
def wrap32 (x : Int) : Int :=
  let r := x % two32
  if r ≥ 2147483648 then r - two32 else r

def pat64 (x : Int) : Nat := (x % two64).toNat
def pat32 (x : Int) : Nat := (x % two32).toNat

/-- `Duration.PicoEncode`: `seconds := n / 1e9; nanos := int32(n - seconds*1e9)` (Go `/` truncates) -/
def durSplit (n : Int) : Int × Int :=
  let s := n.tdiv nano
  (s, wrap32 (wrap64 (n - wrap64 (s * nano))))

/-- `Duration.PicoDecode` after the two fields have been read (duration.go:46-63) -/
def durDecode (seconds nanos : Int) : Int :=
  let z := wrap64 (seconds * nano)
  let overflow := z.tdiv nano != seconds
  let z := wrap64 (z + nanos)
  let overflow := overflow || (seconds < 0 && nanos < 0 && z > 0)
  let overflow := overflow || (seconds > 0 && nanos > 0 && z < 0)
  if overflow && seconds < 0 then minInt64
  else if overflow && seconds > 0 then maxInt64
  else z

/-- `Unix()` of the zero `time.Time` (January 1, year 1 UTC) -/
def zeroUnix : Int := -62135596800

/-- `Time.IsZero` in terms of `(Unix(), Nanosecond())` -/
def isZero (sec : Int) (ns : Int) : Bool := sec == zeroUnix && ns == 0

/-- `time.Unix(sec, nsec)` observed through `(Unix(), Nanosecond())` -/
def unixNorm (sec nsec : Int) : Int × Int :=
  if nsec < 0 ∨ nsec ≥ nano then
    let n := nsec.tdiv nano
    let sec := wrap64 (sec + n)
    let nsec := nsec - n * nano
    if nsec < 0 then (wrap64 (sec - 1), nsec + nano) else (sec, nsec)
  else (sec, nsec)

/-- a `time.Time` packed into one natural number for the untyped value tree:
`Unix()` as a 64-bit pattern times 2^32 plus `Nanosecond()` -/
def timeCode (sec ns : Int) : Nat := pat64 sec * 4294967296 + ns.toNat

def codeSec (c : Nat) : Int := wrap64 (Int.ofNat (c / 4294967296))
def codeNs (c : Nat) : Int := Int.ofNat (c % 4294967296)

end Pico.Time
