/-! DESIGN PROBE (not framework code): encoder.go anyBytes on a Go-slice model with a stale tail and a
capacity oracle; refinement to list-append semantics. Proven here for every payload length: rollback (callback reports absence),
length prefix of exactly the two reserved bytes, shrink (1 byte, payload moved left) and grow (>= 3 bytes,
buffer extended, payload moved right). No panic, and the result does not depend on the stale tail or on the
capacity oracle. Compiles standalone: `lean AnyBytesProbe.lean`. -/
abbrev Bytes := List Nat

inductive Res (α : Type) | ok (a : α) | panic (why : String)

structure Buf where
  data : Bytes
  tail : Bytes     -- stale bytes between len and cap

/-- abstract varint encoder (minimal); `size x = (varint x).length` -/
structure VarintL where
  varint : Nat → Bytes
  pos : ∀ x, 1 ≤ (varint x).length

variable (V : VarintL) (oracle : Nat → Bytes)  -- oracle: contents of fresh capacity after a re-allocation

def Buf.len (b : Buf) := b.data.length

def Buf.append (b : Buf) (xs : Bytes) : Buf :=
  if xs.length ≤ b.tail.length then ⟨b.data ++ xs, b.tail.drop xs.length⟩
  else ⟨b.data ++ xs, oracle (b.data.length + xs.length)⟩

/-- `b[:n]` -/
def Buf.resliceTo (b : Buf) (n : Nat) : Res Buf :=
  if n ≤ b.data.length then .ok ⟨b.data.take n, b.data.drop n ++ b.tail⟩
  else if n ≤ b.data.length + b.tail.length then
    .ok ⟨b.data ++ b.tail.take (n - b.data.length), b.tail.drop (n - b.data.length)⟩   -- exposes stale bytes
  else .panic "slice bounds out of range"

/-- `copy(b[dst:], b[src:])` with memmove semantics; both offsets must be ≤ len -/
def Buf.copyWithin (b : Buf) (dst src : Nat) : Res Buf :=
  if dst ≤ b.data.length ∧ src ≤ b.data.length then
    let k := min (b.data.length - dst) (b.data.length - src)
    .ok ⟨b.data.take dst ++ (b.data.drop src).take k ++ b.data.drop (dst + k), b.tail⟩
  else .panic "slice bounds out of range"

/-- `PutUvarint(b[lo:hi], x)`: panics if the window is shorter than the varint -/
def Buf.putUvarintAt (b : Buf) (lo hi x : Nat) : Res Buf :=
  if lo ≤ hi ∧ hi ≤ b.data.length ∧ (V.varint x).length ≤ hi - lo then
    .ok ⟨b.data.take lo ++ V.varint x ++ b.data.drop (lo + (V.varint x).length), b.tail⟩
  else .panic "index out of range"

def Res.bind {α β} (r : Res α) (f : α → Res β) : Res β := match r with | .ok a => f a | .panic w => .panic w
instance : Monad Res where pure := .ok; bind := Res.bind

/-- transcription of encoder.go:84-97 (after the callback reported presence) -/
def finishLow (b3 : Buf) (lengthStart messageStart : Nat) : Res (Buf × Bool) := do
  let messageLength := b3.len - messageStart
  let bytesForSize := (V.varint messageLength).length
  if bytesForSize = 2 then
    let b4 ← b3.putUvarintAt V lengthStart messageStart messageLength
    return (b4, true)
  let b4 := if bytesForSize > 2 then b3.append oracle (List.replicate (bytesForSize - 2) 0) else b3
  let b5 ← b4.copyWithin (lengthStart + bytesForSize) messageStart
  let b6 ← b5.putUvarintAt V lengthStart (lengthStart + bytesForSize) messageLength
  let b7 ← b6.resliceTo (lengthStart + bytesForSize + messageLength)
  return (b7, true)

/-- transcription of encoder.go:68-98 -/
def anyBytesLow (tag : Bytes) (fn : Buf → Res (Buf × Bool)) (b0 : Buf) : Res (Buf × Bool) := do
  let tagStart := b0.len
  let b1 := b0.append oracle tag
  let lengthStart := b1.len
  let b2 := b1.append oracle [0, 0]
  let messageStart := b2.len
  let (b3, ok) ← fn b2
  if !ok then
    let b4 ← b3.resliceTo tagStart
    return (b4, false)
  finishLow V oracle b3 lengthStart messageStart

def AppendOnly (fn : Buf → Res (Buf × Bool)) (payload : Bytes) (ok : Bool) : Prop :=
  ∀ b, ∃ t, fn b = .ok (⟨b.data ++ payload, t⟩, ok)

theorem append_data (b : Buf) (xs) : (b.append oracle xs).data = b.data ++ xs := by
  unfold Buf.append; split <;> rfl

theorem take_app {α} (a b : List α) (n : Nat) (h : n = a.length) : (a ++ b).take n = a := by
  subst h; simp
theorem drop_app {α} (a b : List α) (n k : Nat) (h : n = a.length + k) : (a ++ b).drop n = b.drop k := by
  subst h; simp [List.drop_append]

theorem take_pre {α} (pre x : List α) (j : Nat) : (pre ++ x).take (pre.length + j) = pre ++ x.take j := by
  induction pre with
  | nil => simp
  | cons p ps ih => simp [Nat.succ_add, ih]
theorem drop_pre {α} (pre x : List α) (j : Nat) : (pre ++ x).drop (pre.length + j) = x.drop j := by
  induction pre with
  | nil => simp
  | cons p ps ih => simp [Nat.succ_add, ih]

/-- the three data-level facts about moving the payload, stated on plain lists -/
theorem shrink_lists (pre payload vi : Bytes) (hv : vi.length = 1) :
    let d3 := pre ++ 0 :: 0 :: payload
    let L := payload.length
    let d5 := d3.take (pre.length + 1) ++ (d3.drop (pre.length + 2)).take L ++ d3.drop (pre.length + 1 + L)
    let d6 := d5.take pre.length ++ vi ++ d5.drop (pre.length + 1)
    d6.take (pre.length + 1 + L) = pre ++ vi ++ payload := by
  intro d3 L d5 d6
  have h1 : d3.take (pre.length + 1) = pre ++ [0] := by simp [d3, take_pre]
  have h2 : (d3.drop (pre.length + 2)).take L = payload := by simp [d3, drop_pre, L]
  have hd5 : d5 = pre ++ ([0] ++ payload ++ d3.drop (pre.length + 1 + L)) := by simp [d5, h1, h2]
  have h3 : d5.take pre.length = pre := by rw [hd5]; simpa using take_pre pre _ 0
  have h4 : d5.drop (pre.length + 1) = payload ++ d3.drop (pre.length + 1 + L) := by
    rw [hd5, drop_pre]; simp
  have hd6 : d6 = (pre ++ vi ++ payload) ++ d3.drop (pre.length + 1 + L) := by simp [d6, h3, h4]
  rw [hd6]
  have hl : pre.length + 1 + L = (pre ++ vi ++ payload).length := by simp [hv, L]; omega
  rw [hl]
  generalize pre ++ vi ++ payload = A
  generalize List.drop A.length d3 = B
  simp

theorem grow_lists (pre payload vi : Bytes) (hv : 3 ≤ vi.length) :
    let sz := vi.length
    let L := payload.length
    let d4 := pre ++ 0 :: 0 :: payload ++ List.replicate (sz - 2) 0
    let d5 := d4.take (pre.length + sz) ++ (d4.drop (pre.length + 2)).take L ++ d4.drop (pre.length + sz + L)
    let d6 := d5.take pre.length ++ vi ++ d5.drop (pre.length + sz)
    d6 = pre ++ vi ++ payload ∧ d4.length = pre.length + sz + L := by
  intro sz L d4 d5 d6
  have hlen4 : d4.length = pre.length + sz + L := by simp [d4, L, sz]; omega
  have hx : ((0 :: 0 :: payload) ++ List.replicate (sz - 2) 0).length = sz + L := by simp [L]; omega
  have h1 : d4.take (pre.length + sz) = pre ++ ((0 :: 0 :: payload) ++ List.replicate (sz - 2) 0).take sz := by
    simp only [d4]; rw [← take_pre]; simp
  have h2 : (d4.drop (pre.length + 2)).take L = payload := by
    have : d4 = pre ++ ((0 :: 0 :: payload) ++ List.replicate (sz - 2) 0) := by simp [d4]
    rw [this, drop_pre]; simp [L]
  have h3 : d4.drop (pre.length + sz + L) = [] := by
    apply List.drop_eq_nil_of_le; omega
  have hX : (((0 :: 0 :: payload) ++ List.replicate (sz - 2) 0).take sz).length = sz := by
    rw [List.length_take]; omega
  generalize hXd : ((0 :: 0 :: payload) ++ List.replicate (sz - 2) 0).take sz = X at h1 hX
  have hd5 : d5 = pre ++ (X ++ payload) := by simp [d5, h1, h2, h3]
  have h4 : d5.take pre.length = pre := by rw [hd5]; simpa using take_pre pre _ 0
  have h5 : d5.drop (pre.length + sz) = payload := by
    rw [hd5, drop_pre, ← hX]; simp
  exact ⟨by simp [d6, h4, h5], hlen4⟩


/-- observable part of a result: the logical bytes and the presence flag (the stale tail is not observable) -/
def dataOf : Res (Buf × Bool) → Option (Bytes × Bool)
  | .ok (b, ok) => some (b.data, ok)
  | .panic _ => none

theorem copyWithin_eq (b : Buf) (dst src : Nat) (h1 : dst ≤ b.data.length) (h2 : src ≤ b.data.length) :
    b.copyWithin dst src = .ok ⟨b.data.take dst ++ (b.data.drop src).take (min (b.data.length - dst) (b.data.length - src))
      ++ b.data.drop (dst + min (b.data.length - dst) (b.data.length - src)), b.tail⟩ := by
  simp [Buf.copyWithin, h1, h2]

theorem putUvarintAt_eq (b : Buf) (lo hi x : Nat) (h1 : lo ≤ hi) (h2 : hi ≤ b.data.length)
    (h3 : (V.varint x).length ≤ hi - lo) :
    b.putUvarintAt V lo hi x = .ok ⟨b.data.take lo ++ V.varint x ++ b.data.drop (lo + (V.varint x).length), b.tail⟩ := by
  simp [Buf.putUvarintAt, h1, h2, h3]

theorem resliceTo_le (b : Buf) (n : Nat) (h : n ≤ b.data.length) :
    b.resliceTo n = .ok ⟨b.data.take n, b.data.drop n ++ b.tail⟩ := by
  simp [Buf.resliceTo, h]

theorem finishLow_spec (pre payload t3 : Bytes) :
    dataOf (finishLow V oracle ⟨pre ++ 0 :: 0 :: payload, t3⟩ pre.length (pre.length + 2)) =
      some (pre ++ V.varint payload.length ++ payload, true) := by
  unfold finishLow
  have hml : (⟨pre ++ 0 :: 0 :: payload, t3⟩ : Buf).len - (pre.length + 2) = payload.length := by
    simp [Buf.len]; omega
  simp only [hml]
  have hpos := V.pos payload.length
  generalize hvi : V.varint payload.length = vi at hpos
  by_cases h2 : vi.length = 2
  · simp only [h2, ↓reduceIte, bind, Res.bind, pure]
    rw [putUvarintAt_eq V _ _ _ _ (by omega) (by simp) (by rw [hvi]; omega)]
    simp only [hvi, h2, dataOf]
    have e1 : (pre ++ 0 :: 0 :: payload).take pre.length = pre := by simpa using take_pre pre (0 :: 0 :: payload) 0
    have e2 : (pre ++ 0 :: 0 :: payload).drop (pre.length + 2) = payload := by rw [drop_pre]; rfl
    simp [e1, e2]
  · simp only [h2, ↓reduceIte, bind, Res.bind, pure]
    by_cases h3 : vi.length > 2
    · simp only [h3, ↓reduceIte]
      obtain ⟨hd6, hlen4⟩ := grow_lists pre payload vi (by omega)
      -- name the appended buffer
      generalize hb4 : (⟨pre ++ 0 :: 0 :: payload, t3⟩ : Buf).append oracle (List.replicate (vi.length - 2) 0) = b4
      have hd4 : b4.data = pre ++ 0 :: 0 :: payload ++ List.replicate (vi.length - 2) 0 := by
        rw [← hb4, append_data]
      have hl4 : b4.data.length = pre.length + vi.length + payload.length := by rw [hd4]; simpa using hlen4
      rw [copyWithin_eq b4 _ _ (by omega) (by omega)]
      have hk : min (b4.data.length - (pre.length + vi.length)) (b4.data.length - (pre.length + 2)) = payload.length := by
        rw [hl4]; omega
      simp only [hk]
      rw [putUvarintAt_eq V _ _ _ _ (by omega) (by
            simp only [List.length_append, List.length_take, List.length_drop, hl4]; omega) (by rw [hvi]; omega)]
      simp only [hvi]
      rw [hd4, hd6]
      rw [resliceTo_le _ _ (by simp; omega)]
      simp only [dataOf]
      rw [List.take_of_length_le (by simp; omega)]
    · have h1 : vi.length = 1 := by omega
      simp only [h3, ↓reduceIte]
      have hs := shrink_lists pre payload vi h1
      simp only at hs
      have hl3 : (pre ++ 0 :: 0 :: payload).length = pre.length + 2 + payload.length := by simp; omega
      rw [copyWithin_eq _ _ _ (by simp only [hl3, h1]; omega) (by simp only [hl3]; omega)]
      have hk : min ((pre ++ 0 :: 0 :: payload).length - (pre.length + 1))
          ((pre ++ 0 :: 0 :: payload).length - (pre.length + 2)) = payload.length := by
        rw [hl3]; omega
      simp only [h1]
      simp only [hk]
      rw [putUvarintAt_eq V _ _ _ _ (by omega) (by
            simp only [List.length_append, List.length_take, List.length_drop, hl3]; omega) (by rw [hvi]; omega)]
      simp only [hvi, h1]
      rw [resliceTo_le _ _ (by
            simp only [List.length_append, List.length_take, List.length_drop, hl3, h1]; omega)]
      simp only [dataOf]
      rw [hs]

/-- C06/C17 core: for every payload length, every initial stale tail and every capacity oracle, the
    reserve-two-bytes-and-shift code produces exactly `buf ++ tag ++ varint(len) ++ payload` (or leaves the
    buffer as it was when the callback reports absence), and never panics. -/
theorem anyBytesLow_refines (tag payload : Bytes) (ok : Bool) (fn) (hfn : AppendOnly fn payload ok) (b0 : Buf) :
    dataOf (anyBytesLow V oracle tag fn b0) =
      some (if ok then b0.data ++ tag ++ V.varint payload.length ++ payload else b0.data, ok) := by
  unfold anyBytesLow
  obtain ⟨t3, h3⟩ := hfn ((b0.append oracle tag).append oracle [0, 0])
  simp only [bind, Res.bind, h3, Buf.len, append_data, pure]
  cases ok with
  | false =>
    simp [Buf.resliceTo, dataOf]
  | true =>
    simp only [Bool.not_true, Bool.false_eq_true, ↓reduceIte]
    have e : b0.data ++ tag ++ [0, 0] ++ payload = (b0.data ++ tag) ++ 0 :: 0 :: payload := by simp
    have l1 : (b0.data ++ tag ++ [0, 0]).length = (b0.data ++ tag).length + 2 := by
      simp only [List.length_append, List.length_cons, List.length_nil]
    rw [e, l1]
    exact finishLow_spec V oracle (b0.data ++ tag) payload t3

#print axioms anyBytesLow_refines
