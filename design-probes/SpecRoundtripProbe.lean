/-! DESIGN PROBE (not framework code): the data side. Deep embedding of a reduced schema language
(varint scalar with default omission, optional sub-message pointer, repeated sub-message; message types
referenced by id, so recursive and mutually recursive schemas are included) over an abstract record layer.
Contains: canonical spec encoder (mutual structural recursion over the nested value type), record-at-a-time
spec decoder `specDec` (one fuel for sequencing and nesting, unknown fields skipped, wrong wire type
rejected), its relational big-step twin `Dec`, `dec_exec` (the relation is executable), `dec_append`
(C09 at spec level: decoding a ++ b = decoding a then b — 8 lines, needs only prefix-determinism of
tokenization), and `spec_roundtrip` (C03/C08 at spec level) proved by three mutually recursive theorems
with `termination_by sizeOf`. Axioms: propext, Quot.sound. Compiles standalone: `lean SpecRoundtripProbe.lean`. -/
abbrev Bytes := List Nat

inductive RecVal | varint (x : Nat) | bytes (b : Bytes)
deriving Repr

/-- abstract record layer with the one law the round trip needs -/
structure Wire where
  encRec : Nat → RecVal → Bytes
  parse1 : Bytes → Option (Nat × RecVal × Bytes)
  parse_enc : ∀ n v, parse1 (encRec n v) = some (n, v, [])
  parse_nil : parse1 [] = none
  /-- tokenization is prefix-deterministic -/
  parse_append : ∀ a b n v rest, parse1 a = some (n, v, rest) → parse1 (a ++ b) = some (n, v, rest ++ b)

inductive FTy | u64 | msg (id : Nat) | repMsg (id : Nat)
deriving DecidableEq, Repr
structure Field where
  num : Nat
  ty : FTy
deriving Repr
abbrev Schema := List (List Field)

inductive Val where
  | u64 (x : Nat)
  | msg (o : Option (List Val))
  | rep (xs : List (List Val))

abbrev Msg := List Val

variable (W : Wire)

def fieldsOf (S : Schema) (id : Nat) : List Field := S.getD id []

mutual
def encVal (S : Schema) (f : Field) : Val → Bytes
  | .u64 x => if x = 0 then [] else W.encRec f.num (.varint x)
  | .msg none => []
  | .msg (some m) =>
      match f.ty with
      | .msg id => W.encRec f.num (.bytes (encSlots S (fieldsOf S id) m))
      | _ => []
  | .rep xs =>
      match f.ty with
      | .repMsg id => encRep S f.num (fieldsOf S id) xs
      | _ => []
def encSlots (S : Schema) : List Field → List Val → Bytes
  | f :: fs, v :: vs => encVal S f v ++ encSlots S fs vs
  | _, _ => []
def encRep (S : Schema) (num : Nat) (fs : List Field) : List (List Val) → Bytes
  | [] => []
  | m :: ms => W.encRec num (.bytes (encSlots S fs m)) ++ encRep S num fs ms
end

/-! ### spec decoder: record at a time, one fuel for sequencing and nesting -/

def emptyVal : FTy → Val
  | .u64 => .u64 0
  | .msg _ => .msg none
  | .repMsg _ => .rep []

def emptyMsg (fs : List Field) : Msg := fs.map (fun f => emptyVal f.ty)

def findIdx (fs : List Field) (n : Nat) : Option Nat := fs.findIdx? (·.num = n)

def specDec (S : Schema) : Nat → List Field → Bytes → Msg → Option Msg
  | 0, _, _, _ => none
  | fuel+1, fs, b, cur =>
    if b = [] then some cur else
    match W.parse1 b with
    | none => none
    | some (n, rv, rest) =>
      match findIdx fs n with
      | none => specDec S fuel fs rest cur                       -- unknown field: skip
      | some i =>
        match fs[i]?, cur[i]? with
        | some f, some c =>
          match f.ty, rv, c with
          | FTy.u64, RecVal.varint x, _ => specDec S fuel fs rest (cur.set i (Val.u64 x))
          | FTy.msg id, RecVal.bytes p, Val.msg o =>
            match specDec S fuel (fieldsOf S id) p (o.getD (emptyMsg (fieldsOf S id))) with
            | none => none
            | some sub => specDec S fuel fs rest (cur.set i (Val.msg (some sub)))
          | FTy.repMsg id, RecVal.bytes p, Val.rep xs =>
            match specDec S fuel (fieldsOf S id) p (emptyMsg (fieldsOf S id)) with
            | none => none
            | some sub => specDec S fuel fs rest (cur.set i (Val.rep (xs ++ [sub])))
          | _, _, _ => none                                       -- wrong wire type / ill-typed current value
        | _, _ => none

/-- fuel monotonicity -/
theorem specDec_mono (S : Schema) : ∀ fuel fs b cur r, specDec W S fuel fs b cur = some r →
    specDec W S (fuel+1) fs b cur = some r := by
  intro fuel
  induction fuel with
  | zero => intro fs b cur r h; simp [specDec] at h
  | succ fuel ih =>
    intro fs b cur r h
    rw [specDec] at h ⊢
    split at h
    · rename_i hb; simp [hb] at h ⊢; exact h
    · rename_i hb
      simp only [hb, ↓reduceIte]
      split at h
      · simp at h
      · rename_i n rv rest hp
        split at h
        · exact ih _ _ _ _ h
        · rename_i i hi
          split at h
          · rename_i f c hf hc
            split at h
            · exact ih _ _ _ _ h
            · split at h
              · simp at h
              · rename_i sub hsub
                rw [ih _ _ _ _ hsub]; exact ih _ _ _ _ h
            · split at h
              · simp at h
              · rename_i sub hsub
                rw [ih _ _ _ _ hsub]; exact ih _ _ _ _ h
            · simp at h
          · simp at h

theorem specDec_mono_le (S : Schema) {fuel fuel' fs b cur r} (hle : fuel ≤ fuel')
    (h : specDec W S fuel fs b cur = some r) : specDec W S fuel' fs b cur = some r := by
  induction hle with
  | refl => exact h
  | step _ ih => exact specDec_mono W S _ _ _ _ _ ih

/-! ### relational big-step spec -/

inductive Dec (S : Schema) : List Field → Bytes → Msg → Msg → Prop
  | nil {fs cur} : Dec S fs [] cur cur
  | skip {fs b cur r n rv rest} : W.parse1 b = some (n, rv, rest) → findIdx fs n = none →
      Dec S fs rest cur r → Dec S fs b cur r
  | u64 {fs b cur r n x rest i f c} : W.parse1 b = some (n, .varint x, rest) → findIdx fs n = some i →
      fs[i]? = some f → f.ty = .u64 → cur[i]? = some c →
      Dec S fs rest (cur.set i (.u64 x)) r → Dec S fs b cur r
  | msg {fs b cur r n p rest i f id o sub} : W.parse1 b = some (n, .bytes p, rest) → findIdx fs n = some i →
      fs[i]? = some f → f.ty = .msg id → cur[i]? = some (.msg o) →
      Dec S (fieldsOf S id) p (o.getD (emptyMsg (fieldsOf S id))) sub →
      Dec S fs rest (cur.set i (.msg (some sub))) r → Dec S fs b cur r
  | rep {fs b cur r n p rest i f id xs sub} : W.parse1 b = some (n, .bytes p, rest) → findIdx fs n = some i →
      fs[i]? = some f → f.ty = .repMsg id → cur[i]? = some (.rep xs) →
      Dec S (fieldsOf S id) p (emptyMsg (fieldsOf S id)) sub →
      Dec S fs rest (cur.set i (.rep (xs ++ [sub]))) r → Dec S fs b cur r

theorem parse_ne_nil {b n rv rest} (h : W.parse1 b = some (n, rv, rest)) : b ≠ [] := by
  intro hb; subst hb; rw [W.parse_nil] at h; cases h

/-- the relation is executable: some fuel makes `specDec` return the same result -/
theorem dec_exec (S : Schema) {fs b cur r} (h : Dec W S fs b cur r) : ∃ fuel, specDec W S fuel fs b cur = some r := by
  induction h with
  | nil => exact ⟨1, by simp [specDec]⟩
  | skip hp hi _ ih =>
    obtain ⟨fuel, ih⟩ := ih
    exact ⟨fuel+1, by rw [specDec]; simp [parse_ne_nil W hp, hp, hi, ih]⟩
  | u64 hp hi hf hty hc _ ih =>
    obtain ⟨fuel, ih⟩ := ih
    exact ⟨fuel+1, by rw [specDec]; simp [parse_ne_nil W hp, hp, hi, hf, hc, hty, ih]⟩
  | msg hp hi hf hty hc _ _ ih1 ih2 =>
    obtain ⟨f1, ih1⟩ := ih1
    obtain ⟨f2, ih2⟩ := ih2
    refine ⟨max f1 f2 + 1, ?_⟩
    have e1 := specDec_mono_le W S (Nat.le_max_left f1 f2) ih1
    have e2 := specDec_mono_le W S (Nat.le_max_right f1 f2) ih2
    rw [specDec]; simp [parse_ne_nil W hp, hp, hi, hf, hc, hty, e1, e2]
  | rep hp hi hf hty hc _ _ ih1 ih2 =>
    obtain ⟨f1, ih1⟩ := ih1
    obtain ⟨f2, ih2⟩ := ih2
    refine ⟨max f1 f2 + 1, ?_⟩
    have e1 := specDec_mono_le W S (Nat.le_max_left f1 f2) ih1
    have e2 := specDec_mono_le W S (Nat.le_max_right f1 f2) ih2
    rw [specDec]; simp [parse_ne_nil W hp, hp, hi, hf, hc, hty, e1, e2]

/-- C09 at spec level: decoding a concatenation = decoding one after the other -/
theorem dec_append (S : Schema) {fs a cur mid} (h1 : Dec W S fs a cur mid) :
    ∀ {b r}, Dec W S fs b mid r → Dec W S fs (a ++ b) cur r := by
  induction h1 with
  | nil => intro b r h2; simpa using h2
  | skip hp hi _ ih => intro b r h2; exact Dec.skip (W.parse_append _ _ _ _ _ hp) hi (ih h2)
  | u64 hp hi hf hty hc _ ih => intro b r h2; exact Dec.u64 (W.parse_append _ _ _ _ _ hp) hi hf hty hc (ih h2)
  | msg hp hi hf hty hc hsub _ _ ih2 => intro b r h2; exact Dec.msg (W.parse_append _ _ _ _ _ hp) hi hf hty hc hsub (ih2 h2)
  | rep hp hi hf hty hc hsub _ _ ih2 => intro b r h2; exact Dec.rep (W.parse_append _ _ _ _ _ hp) hi hf hty hc hsub (ih2 h2)

/-! ### well-typedness and the spec-level round trip -/

mutual
def WTval (S : Schema) (f : Field) : Val → Prop
  | .u64 _ => f.ty = .u64
  | .msg none => ∃ id, f.ty = .msg id
  | .msg (some m) => ∃ id, f.ty = .msg id ∧ WTslots S (fieldsOf S id) m
  | .rep xs => ∃ id, f.ty = .repMsg id ∧ WTrep S (fieldsOf S id) xs
def WTslots (S : Schema) : List Field → List Val → Prop
  | [], [] => True
  | f :: fs, v :: vs => WTval S f v ∧ WTslots S fs vs
  | _, _ => False
def WTrep (S : Schema) (fs : List Field) : List (List Val) → Prop
  | [] => True
  | m :: ms => WTslots S fs m ∧ WTrep S fs ms
end

def nums (fs : List Field) : List Nat := fs.map (·.num)
def SchemaOK (S : Schema) : Prop := ∀ id, (nums (fieldsOf S id)).Nodup

theorem findIdx_of_nodup (fs : List Field) (hnd : (nums fs).Nodup) (i : Nat) (f : Field) (hf : fs[i]? = some f) :
    findIdx fs f.num = some i := by
  induction fs generalizing i with
  | nil => simp at hf
  | cons g gs ih =>
    simp only [nums, List.map_cons, List.nodup_cons] at hnd
    cases i with
    | zero =>
      simp at hf; subst hf
      simp [findIdx, List.findIdx?_cons]
    | succ j =>
      simp at hf
      have hne : g.num ≠ f.num := by
        intro h; apply hnd.1; rw [h]
        exact List.mem_map.mpr ⟨f, List.mem_of_getElem? hf, rfl⟩
      have := ih (by simpa [nums] using hnd.2) j hf
      simp [findIdx, List.findIdx?_cons, hne] at this ⊢
      exact this

theorem set_self {α} (l : List α) (i : Nat) (a : α) (h : l[i]? = some a) : l.set i a = l := by
  induction l generalizing i with
  | nil => simp
  | cons x xs ih =>
    cases i with
    | zero => simp at h; subst h; simp
    | succ j => simp at h; simp [ih j h]

theorem take_set_succ {α} (l : List α) (k : Nat) (v : α) (hk : k < l.length) (vs : List α) :
    (l.set k v).take (k+1) ++ vs = l.take k ++ v :: vs := by
  induction l generalizing k with
  | nil => simp at hk
  | cons x xs ih =>
    cases k with
    | zero => simp
    | succ j => simp at hk; simp [ih j hk]

mutual
theorem rt_val (S : Schema) (hS : SchemaOK S) (fs : List Field) (hnd : (nums fs).Nodup) (i : Nat) (f : Field)
    (hf : fs[i]? = some f) (v : Val) (hwt : WTval S f v) (cur : Msg) (hc : cur[i]? = some (emptyVal f.ty)) :
    Dec W S fs (encVal W S f v) cur (cur.set i v) := by
  have hi := findIdx_of_nodup fs hnd i f hf
  match v with
  | .u64 x =>
    simp only [WTval] at hwt
    rw [hwt] at hc
    simp only [emptyVal] at hc
    simp only [encVal]
    split
    · rename_i h0; subst h0
      rw [set_self cur i _ hc]; exact Dec.nil
    · exact Dec.u64 (W.parse_enc _ _) hi hf hwt hc Dec.nil
  | .msg none =>
    simp only [WTval] at hwt
    obtain ⟨id, hty⟩ := hwt
    rw [hty] at hc
    simp only [emptyVal] at hc
    simp only [encVal]
    rw [set_self cur i _ hc]; exact Dec.nil
  | .msg (some m) =>
    simp only [WTval] at hwt
    obtain ⟨id, hty, hm⟩ := hwt
    rw [hty] at hc
    simp only [emptyVal] at hc
    simp only [encVal, hty]
    have hsub := rt_slots S hS (fieldsOf S id) (hS id) 0 (fieldsOf S id) (by simp) m hm
      (emptyMsg (fieldsOf S id)) (by simp [emptyMsg])
      (by intro j g _ hg; simp [emptyMsg, hg])
    simp only [List.take_zero, List.nil_append] at hsub
    exact Dec.msg (o := none) (W.parse_enc _ _) hi hf hty hc (by simpa using hsub) Dec.nil
  | .rep xs =>
    simp only [WTval] at hwt
    obtain ⟨id, hty, hxs⟩ := hwt
    rw [hty] at hc
    simp only [emptyVal] at hc
    simp only [encVal, hty]
    have := rt_rep S hS fs hnd i f hf id hty xs hxs cur [] hc
    simpa using this
termination_by sizeOf v
theorem rt_slots (S : Schema) (hS : SchemaOK S) (fs : List Field) (hnd : (nums fs).Nodup) (k : Nat)
    (sfs : List Field) (hs : fs.drop k = sfs) (vs : List Val) (hwt : WTslots S sfs vs)
    (cur : Msg) (hlen : cur.length = fs.length)
    (hempty : ∀ j g, k ≤ j → fs[j]? = some g → cur[j]? = some (emptyVal g.ty)) :
    Dec W S fs (encSlots W S sfs vs) cur (cur.take k ++ vs) := by
  match sfs, vs with
  | [], [] =>
    simp only [encSlots, List.append_nil]
    have : fs.length ≤ k := by
      have := congrArg List.length hs; simp at this; omega
    rw [List.take_of_length_le (by omega)]; exact Dec.nil
  | f :: sfs', v :: vs' =>
    simp only [WTslots] at hwt
    simp only [encSlots]
    have hk : k < fs.length := by
      have := congrArg List.length hs; simp at this; omega
    have hfk : fs[k]? = some f := by
      have := congrArg List.head? hs; simpa [List.head?_drop] using this
    have hs' : fs.drop (k+1) = sfs' := by
      have := congrArg List.tail hs; simpa [List.tail_drop] using this
    have h1 := rt_val S hS fs hnd k f hfk v hwt.1 cur (hempty k f (Nat.le_refl _) hfk)
    have h2 := rt_slots S hS fs hnd (k+1) sfs' hs' vs' hwt.2 (cur.set k v) (by simpa using hlen)
      (by
        intro j g hj hg
        rw [List.getElem?_set_ne (by omega)]
        exact hempty j g (by omega) hg)
    rw [take_set_succ cur k v (by omega) vs'] at h2
    exact dec_append W S h1 h2
  | [], _ :: _ => simp [WTslots] at hwt
  | _ :: _, [] => simp [WTslots] at hwt
termination_by sizeOf vs
theorem rt_rep (S : Schema) (hS : SchemaOK S) (fs : List Field) (hnd : (nums fs).Nodup) (i : Nat) (f : Field)
    (hf : fs[i]? = some f) (id : Nat) (hty : f.ty = .repMsg id) (xs : List (List Val))
    (hwt : WTrep S (fieldsOf S id) xs) (cur : Msg) (ys : List (List Val)) (hc : cur[i]? = some (.rep ys)) :
    Dec W S fs (encRep W S f.num (fieldsOf S id) xs) cur (cur.set i (.rep (ys ++ xs))) := by
  have hi := findIdx_of_nodup fs hnd i f hf
  match xs with
  | [] =>
    simp only [encRep, List.append_nil]
    rw [set_self cur i _ hc]; exact Dec.nil
  | m :: ms =>
    simp only [WTrep] at hwt
    simp only [encRep]
    have hsub := rt_slots S hS (fieldsOf S id) (hS id) 0 (fieldsOf S id) (by simp) m hwt.1
      (emptyMsg (fieldsOf S id)) (by simp [emptyMsg])
      (by intro j g _ hg; simp [emptyMsg, hg])
    simp only [List.take_zero, List.nil_append] at hsub
    have h1 : Dec W S fs (W.encRec f.num (.bytes (encSlots W S (fieldsOf S id) m))) cur
        (cur.set i (.rep (ys ++ [m]))) :=
      Dec.rep (W.parse_enc _ _) hi hf hty hc hsub Dec.nil
    have hil : i < cur.length := by
      apply Decidable.byContradiction
      intro hge
      rw [List.getElem?_eq_none (by omega)] at hc; cases hc
    have h2 := rt_rep S hS fs hnd i f hf id hty ms hwt.2 (cur.set i (.rep (ys ++ [m]))) (ys ++ [m])
      (by simp [List.getElem?_set_self hil])
    have e : (cur.set i (.rep (ys ++ [m]))).set i (.rep ((ys ++ [m]) ++ ms)) = cur.set i (.rep (ys ++ m :: ms)) := by
      simp [List.set_set]
    rw [e] at h2
    exact dec_append W S h1 h2
termination_by sizeOf xs
end

/-- spec-level round trip (reduced fragment): decoding the canonical encoding of a well-typed message
    from the empty message returns that message. -/
theorem spec_roundtrip (S : Schema) (hS : SchemaOK S) (id : Nat) (m : Msg) (hwt : WTslots S (fieldsOf S id) m) :
    ∃ fuel, specDec W S fuel (fieldsOf S id) (encSlots W S (fieldsOf S id) m) (emptyMsg (fieldsOf S id)) = some m := by
  have h := rt_slots W S hS (fieldsOf S id) (hS id) 0 (fieldsOf S id) (by simp) m hwt
    (emptyMsg (fieldsOf S id)) (by simp [emptyMsg]) (by intro j g _ hg; simp [emptyMsg, hg])
  simp only [List.take_zero, List.nil_append] at h
  exact dec_exec W S h

#print axioms spec_roundtrip
