/-! DESIGN PROBE (not framework code): varint append/consume round trip on a Nat-level model with the
Go code's 10-byte limit (10th byte < 2). Kernel-only, ~60 lines. Compiles standalone: `lean VarintProbe.lean`. -/

def appendVarintN : Nat → Nat → List Nat
  | 0, v => [v % 128]   -- unreachable for v < 2^64 with fuel 10
  | fuel+1, v => if v < 128 then [v] else (v % 128 + 128) :: appendVarintN fuel (v / 128)

/-- consume: returns value and length, or none; literal 10-byte limit, 10th byte < 2 -/
def consumeVarintN : Nat → Nat → List Nat → Option (Nat × Nat)
  | _, _, [] => none
  | idx, shift, b :: bs =>
    if idx = 9 then (if b < 2 then some (b * 2^shift, 1) else none)
    else if b < 128 then some (b * 2^shift, 1)
    else match consumeVarintN (idx+1) (shift+7) bs with
      | none => none
      | some (v, n) => some ((b - 128) * 2^shift + v, n+1)
termination_by _ _ l => l.length

theorem varint_roundtrip (fuel idx shift : Nat) (v : Nat) (rest : List Nat) (hf : idx + fuel = 10)
    (hv : v < 2^(64 - shift)) (hs : shift = 7*idx) (hfuel : 0 < fuel) :
    ∃ n, consumeVarintN idx shift (appendVarintN fuel v ++ rest) = some (v * 2^shift, n) ∧
         n = (appendVarintN fuel v).length := by
  induction fuel generalizing idx shift v with
  | zero => omega
  | succ f ih =>
    unfold appendVarintN
    split
    · rename_i h
      simp [consumeVarintN]
      split
      · subst hs; rename_i h9; subst h9; simp at hv; split <;> simp <;> omega
      · simp
    · rename_i h
      simp [consumeVarintN]
      have hidx : idx ≠ 9 := by
        intro h9; subst h9; subst hs; simp at hv; omega
      simp [hidx]
      have h2 : ¬ (v % 128 + 128 < 128) := by omega
      simp [h2]
      have hf' : 0 < f := by
        rcases f with _ | f
        · exfalso; have : idx = 9 := by omega
          exact hidx this
        · omega
      obtain ⟨n, h1, h2⟩ := ih (idx+1) (shift+7) (v/128) (by omega) (by
          subst hs
          have : 2^(64 - 7*idx) = 128 * 2^(64 - (7*idx+7)) := by
            have : 64 - 7*idx = (64 - (7*idx+7)) + 7 := by omega
            rw [this, Nat.pow_add]; omega
          rw [this] at hv
          exact Nat.div_lt_of_lt_mul hv) (by omega) hf'
      rw [h1]; simp [h2]
      rw [Nat.pow_add]
      have := Nat.div_add_mod v 128
      generalize 2^shift = P
      have e : v = 128 * (v/128) + v % 128 := by omega
      calc v % 128 * P + v / 128 * (P * 2 ^ 7) = (128 * (v/128) + v % 128) * P := by
              rw [Nat.add_mul]; simp [Nat.mul_comm, Nat.mul_left_comm]; omega
        _ = v * P := by rw [← e]

#print axioms varint_roundtrip
