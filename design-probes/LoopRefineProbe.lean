/-! DESIGN PROBE (not framework code): the pending-field cursor machine of decoder.go (`nextField`, typed
readers, `Loop` with its no-progress skip) against a record-at-a-time spec, for flat messages and an
abstract wire layer. Proven here, kernel-only: `pass_chain` (the scan lemma: one pass of the generated
`Decode` is a chain of spec steps and makes observable progress iff some reader bears the pending number),
`loop_eq_final` (with fuel > len the Go loop ends in the spec's final state) and `loop_total`
(termination for every input). Nested messages enter only through what a reader does with its payload,
so the lemma carries over. Compiles standalone: `lean LoopRefineProbe.lean`. -/
abbrev Bytes := List Nat

structure WireL where
  tag : Bytes → Option (Nat × Nat × Nat)
  value : Nat → Nat → Bytes → Option Nat
  tag_pos : ∀ b num w n, tag b = some (num, w, n) → 1 ≤ n ∧ n ≤ b.length
  value_pos : ∀ num w b n, value num w b = some n → 1 ≤ n ∧ n ≤ b.length

inductive Pend | field (num wire : Nat) | done | errored
deriving DecidableEq, Repr

structure St where
  pend : Pend
  buf : Bytes
  err : Bool
  ev : List (Nat × Bytes)

variable (W : WireL)

def fail (d : St) : St := { d with pend := .errored, err := true }

def nextField (d : St) (adv : Option Nat) : St :=
  match adv with
  | none => fail d
  | some n =>
    if n > d.buf.length then fail d else
    let b := d.buf.drop n
    if b = [] then { d with pend := .done, buf := b } else
    match W.tag b with
    | none => fail { d with buf := b }
    | some (num, w, k) => { d with pend := .field num w, buf := b.drop k }

def reader (f w : Nat) (s : St) : St :=
  match s.pend with
  | .field num wire =>
    if num ≠ f then s else
    if wire ≠ w then fail s else
    match W.value num wire s.buf with
    | none => fail s
    | some n => nextField W { s with ev := s.ev ++ [(f, s.buf.take n)] } (some n)
  | _ => s

def pass (rs : List (Nat × Nat)) (s : St) : St := rs.foldl (fun s r => reader W r.1 r.2 s) s

def valid (s : St) : Prop := ∃ num wire, s.pend = .field num wire
instance (s : St) : Decidable (valid s) := by
  unfold valid
  cases h : s.pend with
  | field n w => exact isTrue ⟨n, w, rfl⟩
  | done => exact isFalse (by intro ⟨_, _, h⟩; cases h)
  | errored => exact isFalse (by intro ⟨_, _, h⟩; cases h)

def skip (s : St) : St :=
  match s.pend with
  | .field num wire => nextField W s (W.value num wire s.buf)
  | _ => s

def loop : Nat → List (Nat × Nat) → St → St
  | 0, _, s => s
  | fuel+1, rs, s =>
    let s' := pass W rs s
    if ¬ valid s' then s' else
    if s'.buf.length = s.buf.length then loop fuel rs (skip W s')
    else loop fuel rs s'

def specStep (rs : List (Nat × Nat)) (s : St) : St :=
  match s.pend with
  | .field num _ =>
    match rs.find? (·.1 = num) with
    | some (f, w) => reader W f w s
    | none => skip W s
  | _ => s

inductive Final (rs : List (Nat × Nat)) : St → St → Prop
  | stop {s} : ¬ valid s → Final rs s s
  | step {s t} : valid s → Final rs (specStep W rs s) t → Final rs s t

/-! ### basic facts -/

theorem not_valid_fail (s : St) : ¬ valid (fail s) := by
  intro ⟨_, _, h⟩; simp [fail] at h

theorem nextField_progress (s : St) (n : Nat) (hn : 1 ≤ n) :
    ¬ valid (nextField W s (some n)) ∨ (nextField W s (some n)).buf.length < s.buf.length := by
  unfold nextField
  simp only
  split
  · left; exact not_valid_fail _
  · split
    · left; intro ⟨_, _, h⟩; simp at h
    · split
      · left; exact not_valid_fail _
      · rename_i num w k htag
        right
        have := W.tag_pos _ _ _ _ htag
        simp [List.length_drop] at *
        omega

theorem nextField_none (s : St) : ¬ valid (nextField W s none) := by
  unfold nextField; exact not_valid_fail _

theorem reader_noop (f w : Nat) (s : St) (h : ∀ wire, s.pend ≠ .field f wire) : reader W f w s = s := by
  unfold reader
  split
  · rename_i num wire hp
    by_cases hn : num = f
    · subst hn; exact absurd hp (h wire)
    · simp [hn]
  · rfl

theorem reader_progress (f w : Nat) (s : St) (wire : Nat) (hp : s.pend = .field f wire) :
    ¬ valid (reader W f w s) ∨ (reader W f w s).buf.length < s.buf.length := by
  unfold reader
  rw [hp]; simp only [ne_eq, not_true_eq_false, ↓reduceIte]
  split
  · left; exact not_valid_fail _
  · split
    · left; exact not_valid_fail _
    · rename_i n hv
      have := W.value_pos _ _ _ _ hv
      exact nextField_progress W { s with ev := s.ev ++ [(f, s.buf.take n)] } n this.1

theorem skip_progress (s : St) (hv : valid s) : ¬ valid (skip W s) ∨ (skip W s).buf.length < s.buf.length := by
  obtain ⟨num, wire, hp⟩ := hv
  unfold skip; rw [hp]; simp only
  cases h : W.value num wire s.buf with
  | none => left; exact nextField_none W s
  | some n => exact nextField_progress W s n (W.value_pos _ _ _ _ h).1

/-! ### chains of known-field steps -/

def nums (rs : List (Nat × Nat)) : List Nat := rs.map Prod.fst

inductive Chain (rs : List (Nat × Nat)) : St → St → Prop
  | refl {s} : Chain rs s s
  | step {s t} : valid s → Chain rs (specStep W rs s) t → Chain rs s t

theorem find_of_nodup (pre suf : List (Nat × Nat)) (r : Nat × Nat)
    (hnd : (nums (pre ++ r :: suf)).Nodup) :
    (pre ++ r :: suf).find? (·.1 = r.1) = some r := by
  induction pre with
  | nil => simp
  | cons p pre ih =>
    simp only [nums, List.cons_append, List.map_cons, List.nodup_cons] at hnd
    have hne : p.1 ≠ r.1 := by
      intro h; apply hnd.1; rw [h]; simp
    rw [List.cons_append, List.find?_cons]
    simp only [hne, decide_false]
    exact ih (by simpa [nums] using hnd.2)

theorem find_none (rs : List (Nat × Nat)) (num : Nat) (h : num ∉ nums rs) :
    rs.find? (·.1 = num) = none := by
  simp only [List.find?_eq_none, decide_eq_true_eq]
  intro x hx hx1; apply h; simp [nums]; exact ⟨x.2, by rw [← hx1]; exact hx⟩

theorem specStep_progress (rs) (s : St) (hv : valid s) :
    ¬ valid (specStep W rs s) ∨ (specStep W rs s).buf.length < s.buf.length := by
  obtain ⟨num, wire, hp⟩ := hv
  unfold specStep; rw [hp]; simp only
  split
  · rename_i f w hf
    have : f = num := by
      have := List.find?_some hf; simpa using this
    subst this
    exact reader_progress W f w s wire hp
  · exact skip_progress W s ⟨num, wire, hp⟩

theorem chain_of_invalid (rs) {s t : St} (hs : ¬ valid s) (h : Chain W rs s t) : t = s := by
  cases h with
  | refl => rfl
  | step hv _ => exact absurd hv hs

theorem chain_len (rs) {s t : St} (h : Chain W rs s t) :
    t = s ∨ ¬ valid t ∨ t.buf.length < s.buf.length := by
  induction h with
  | refl => left; rfl
  | @step s t hv hc ih =>
    right
    have hp := specStep_progress W rs s hv
    rcases ih with ih | ih | ih
    · rw [ih]; exact hp
    · left; exact ih
    · rcases hp with h1 | h1
      · have := chain_of_invalid W rs h1 hc
        rw [this] at ih; omega
      · right; omega

theorem chain_trans (rs) {a b c : St} (h1 : Chain W rs a b) (h2 : Chain W rs b c) : Chain W rs a c := by
  induction h1 with
  | refl => exact h2
  | step hv _ ih => exact Chain.step hv (ih h2)

/-- one pass over a suffix of the reader list is a chain of spec steps; if the pending number
    is borne by a reader of the suffix, the pass makes observable progress -/
theorem pass_chain (pre suf : List (Nat × Nat)) (hnd : (nums (pre ++ suf)).Nodup) (s : St) :
    Chain W (pre ++ suf) s (pass W suf s) ∧
    (∀ num wire, s.pend = .field num wire → num ∈ nums suf →
      ¬ valid (pass W suf s) ∨ (pass W suf s).buf.length < s.buf.length) := by
  induction suf generalizing pre s with
  | nil => exact ⟨Chain.refl, by intro _ _ _ h; simp [nums] at h⟩
  | cons r suf ih =>
    have hpass : pass W (r :: suf) s = pass W suf (reader W r.1 r.2 s) := by simp [pass]
    have hnd' : (nums ((pre ++ [r]) ++ suf)).Nodup := by simpa using hnd
    have happ : pre ++ r :: suf = (pre ++ [r]) ++ suf := by simp
    by_cases hfire : ∃ wire, s.pend = .field r.1 wire
    · obtain ⟨wire, hp⟩ := hfire
      have hspec : specStep W (pre ++ r :: suf) s = reader W r.1 r.2 s := by
        unfold specStep; rw [hp]; simp only
        rw [find_of_nodup pre suf r hnd]
      have hprog := reader_progress W r.1 r.2 s wire hp
      have ⟨ihc, _⟩ := ih (pre ++ [r]) hnd' (reader W r.1 r.2 s)
      rw [← happ] at ihc
      have hc : Chain W (pre ++ r :: suf) s (pass W (r :: suf) s) := by
        rw [hpass]; exact Chain.step ⟨_, _, hp⟩ (by rw [hspec]; exact ihc)
      refine ⟨hc, ?_⟩
      intro num wire' hp' _
      rw [hpass]
      rcases chain_len W _ ihc with h | h | h
      · rw [h]; exact hprog
      · left; exact h
      · rcases hprog with h1 | h1
        · have := chain_of_invalid W _ h1 ihc
          rw [this] at h; omega
        · right; omega
    · have hno : reader W r.1 r.2 s = s :=
        reader_noop W r.1 r.2 s (fun wire h => hfire ⟨wire, h⟩)
      have ⟨ihc, ihp⟩ := ih (pre ++ [r]) hnd' s
      rw [← happ] at ihc
      rw [hpass, hno]
      refine ⟨ihc, ?_⟩
      intro num wire hp hmem
      have hne : num ≠ r.1 := by
        intro h; subst h; exact hfire ⟨wire, hp⟩
      have : num ∈ nums suf := by
        simp only [nums, List.map_cons, List.mem_cons] at hmem
        rcases hmem with h | h
        · exact absurd h hne
        · exact h
      exact ihp num wire hp this

/-! ### the loop equals run-to-completion of the spec -/

theorem final_of_chain (rs) {s u t : St} (hc : Chain W rs s u) (hf : Final W rs s t) : Final W rs u t := by
  induction hc with
  | refl => exact hf
  | step hv _ ih =>
    cases hf with
    | stop hnv => exact absurd hv hnv
    | step _ hf' => exact ih hf'

theorem final_invalid (rs) {s t : St} (hs : ¬ valid s) (hf : Final W rs s t) : t = s := by
  cases hf with
  | stop _ => rfl
  | step hv _ => exact absurd hv hs

theorem pass_invalid (rs) (s : St) (hs : ¬ valid s) : pass W rs s = s := by
  induction rs with
  | nil => rfl
  | cons r rs ih =>
    have : reader W r.1 r.2 s = s := reader_noop W r.1 r.2 s (fun wire h => hs ⟨_, _, h⟩)
    simp [pass] at ih ⊢; rw [this]; exact ih

theorem loop_invalid (fuel rs) (s : St) (hs : ¬ valid s) : loop W fuel rs s = s := by
  cases fuel with
  | zero => rfl
  | succ f => simp [loop, pass_invalid W rs s hs, hs]

theorem loop_eq_final (rs : List (Nat × Nat)) (hnd : (nums rs).Nodup) :
    ∀ fuel (s t : St), Final W rs s t → (valid s → s.buf.length < fuel) → loop W fuel rs s = t := by
  intro fuel
  induction fuel with
  | zero =>
    intro s t hf hlen
    have hs : ¬ valid s := fun hv => by have := hlen hv; omega
    rw [final_invalid W rs hs hf]; rfl
  | succ fuel ih =>
    intro s t hf hlen
    by_cases hs : valid s
    · have hlen' := hlen hs
      have ⟨hc, hprog⟩ := pass_chain W [] rs (by simpa using hnd) s
      simp only [List.nil_append] at hc
      have hf' := final_of_chain W rs hc hf
      simp only [loop]
      by_cases hv' : valid (pass W rs s)
      · simp only [hv', not_true_eq_false, ↓reduceIte]
        by_cases hsame : (pass W rs s).buf.length = s.buf.length
        · simp only [hsame, ↓reduceIte]
          -- no progress: pass is the identity and the pending number is unknown
          have hps : pass W rs s = s := by
            rcases chain_len W rs hc with h | h | h
            · exact h
            · exact absurd hv' h
            · omega
          obtain ⟨num, wire, hp⟩ := hs
          have hunk : num ∉ nums rs := by
            intro hmem
            rcases hprog num wire hp hmem with h | h
            · exact h hv'
            · omega
          have hstep : specStep W rs s = skip W s := by
            unfold specStep; rw [hp]; simp only; rw [find_none rs num hunk]
          rw [hps]
          cases hf with
          | stop hnv => exact absurd ⟨num, wire, hp⟩ hnv
          | step _ hf2 =>
            rw [hstep] at hf2
            apply ih _ _ hf2
            intro hvs
            rcases skip_progress W s ⟨num, wire, hp⟩ with h | h
            · exact absurd hvs h
            · omega
        · simp only [hsame, ↓reduceIte]
          apply ih _ _ hf'
          intro _
          rcases chain_len W rs hc with h | h | h
          · rw [h] at hsame; exact absurd rfl hsame
          · exact absurd hv' h
          · omega
      · simp only [hv', not_false_eq_true, ↓reduceIte]
        exact (final_invalid W rs hv' hf').symm
    · rw [loop_invalid W _ rs s hs]; exact (final_invalid W rs hs hf).symm

#print axioms loop_eq_final

/-- the spec always terminates: every state has a final state (core of C04 termination) -/
theorem final_exists (rs) : ∀ n (s : St), s.buf.length ≤ n → ∃ t, Final W rs s t := by
  intro n
  induction n with
  | zero =>
    intro s hl
    by_cases hv : valid s
    · rcases specStep_progress W rs s hv with h | h
      · exact ⟨_, Final.step hv (Final.stop h)⟩
      · omega
    · exact ⟨s, Final.stop hv⟩
  | succ n ih =>
    intro s hl
    by_cases hv : valid s
    · rcases specStep_progress W rs s hv with h | h
      · exact ⟨_, Final.step hv (Final.stop h)⟩
      · obtain ⟨t, ht⟩ := ih (specStep W rs s) (by omega)
        exact ⟨t, Final.step hv ht⟩
    · exact ⟨s, Final.stop hv⟩

/-- C04 core: with fuel = len + 1 the cursor machine reaches the spec's final state, for every input -/
theorem loop_total (rs) (hnd : (nums rs).Nodup) (s : St) :
    ∃ t, Final W rs s t ∧ loop W (s.buf.length + 1) rs s = t := by
  obtain ⟨t, ht⟩ := final_exists W rs s.buf.length s (Nat.le_refl _)
  exact ⟨t, ht, loop_eq_final W rs hnd _ s t ht (fun _ => by omega)⟩
